#!/usr/bin/env python3
"""Rebuilds the generated tail of DESIGN.md (sections 10.3-10.8) from tools/design_tail.md and the seeded/ directory."""
import json, glob, re, subprocess
D = '/verif/DESIGN.md'
s = open(D).read()
m = re.search(r'^### 10\.[23] Repairs made', s, re.M)
head = s[:m.start()]
tail = open('/verif/tools/design_tail.md').read()
table = subprocess.check_output(['python3', '/verif/tools/seeded_table.py']).decode()
metas = [json.load(open(f)) for f in sorted(glob.glob('/verif/seeded/*/meta.json'))]
missed = sum(1 for m_ in metas if 'MISSED' in m_['check_result']['detail'] or m_['check_result']['verdict'] != 'caught')
final_missed = sum(1 for m_ in metas if m_['check_result']['verdict'] != 'caught')
tail = tail.replace('SEEDED_TABLE', table).replace('N_TOTAL', str(len(metas))).replace('N_MISSED', str(missed)).replace('N_CAUGHT', str(len(metas) - missed)).replace('N_FINAL_OK', str(len(metas) - final_missed))
fixes = subprocess.check_output(['git', '-C', '/repo', 'log', '--format=%s']).decode().splitlines()
tail = tail.replace('N_FIXES', str(sum(1 for l in fixes if l.startswith('fix:'))))
open(D, 'w').write(head + tail)
print('spliced', len(metas), 'seeded,', missed, 'missed first')
