#!/usr/bin/env python3
"""keep_seeded.py <src-dir> <seeded-id> <property> <caught|missed> "<how the checks behaved>" — copies a confirmed seeded change
into /verif/seeded/<seeded-id>/ (patch.diff, demo.rs, meta.json incl. the confirmation log and the check result)"""
import json, os, shutil, sys
src, sid, prop, verdict, how = sys.argv[1:6]
dst = f"/verif/seeded/{sid}"
os.makedirs(dst, exist_ok=True)
shutil.copy(f"{src}/patch.diff", f"{dst}/patch.diff")
shutil.copy(f"{src}/demo.rs", f"{dst}/demo.rs")
m = json.load(open(f"{src}/meta.json"))
m["property"] = prop
m["origin"] = "independent sub-agent given only the property text and a scratch worktree (no access to /verif)"
m["confirmed_by_main_session"] = open(f"{src}/confirm.txt").read().splitlines() if os.path.exists(f"{src}/confirm.txt") else []
m["check_result"] = {"verdict": verdict, "detail": how,
                     "how_run": f"tools/eval_seeded.sh {prop} <patch> quick (scratch worktree at /repo HEAD + the harness pointed at it)"}
json.dump(m, open(f"{dst}/meta.json", "w"), indent=1)
print("kept", dst, verdict)
