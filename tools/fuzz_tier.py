#!/usr/bin/env python3
"""Coverage-guided part of the thorough tier for C01 / C02 / C13 / C20.

usage: fuzz_tier.py <ID> <seed> <binary> <prior-exit-code>
Runs the libFuzzer targets serving the property for a fixed wall-clock budget each (a time budget hit is never a verdict),
then replays every input the targets flagged for this property (replay files written by the targets themselves under
/verif/replay_out/<ID>/fuzz-*.json) through the check binary's --replay route, which applies the known-findings file.
Prints VIOLATION lines for confirmed, unlisted failures; merges campaign statistics into evidence/<ID>.json.
Exit code: 1 if a violation was confirmed (or the prior code was 1), 2 on infrastructure trouble, else the prior code.
"""
import glob, json, os, re, shutil, subprocess, sys, time

ID, SEED, BINARY, PRIOR = sys.argv[1], int(sys.argv[2]), sys.argv[3], int(sys.argv[4])
VERIF = os.environ.get("VERIF_DIR", "/verif")
FUZZ = os.path.join(VERIF, "fuzz")
TARGETS = {
    "C01": [("c01_file", 300), ("c01_table", 300)],
    "C02": [("c02_skrifa", 300), ("c02_ift", 300)],
    "C13": [("c13_colr", 300)],
    "C20": [("c01_file", 180), ("c01_table", 180), ("c02_skrifa", 180), ("c02_ift", 180), ("c13_colr", 180)],
}[ID]
scale = float(os.environ.get("VERIF_FUZZ_SCALE", "1"))
workers = int(os.environ.get("VERIF_THREADS", "16"))
env = dict(os.environ, RUSTFLAGS="--cfg googlefonts_fontations_verif", CARGO_NET_OFFLINE="true")
tmp = os.path.join(VERIF, "harness/target/tmp", f"fuzz-{ID}-{os.getpid()}")
os.makedirs(tmp, exist_ok=True)
env["TMPDIR"] = tmp
infra = []
stats = []
t_start = time.time()

def sh(cmd, **kw):
    return subprocess.run(cmd, shell=True, env=env, text=True, capture_output=True, **kw)

# seeds (idempotent) + build
if not os.path.isdir(os.path.join(FUZZ, "corpus", "c01_file")) or len(os.listdir(os.path.join(FUZZ, "corpus", "c01_file"))) < 10:
    sh(f"{FUZZ}/make_seeds.sh")
    sh(f"cd {VERIF}/harness && cargo run --release -q -p vtotal --bin mkseeds")
b = sh(f"cargo +nightly fuzz build --fuzz-dir {FUZZ}")
if b.returncode != 0:
    print("fuzz build failed:\n" + b.stderr[-3000:], file=sys.stderr)
    infra.append("fuzz build failed")

before = set(glob.glob(os.path.join(VERIF, "replay_out", "*", "fuzz-*.json")))
if not infra:
    for target, secs in TARGETS:
        secs = max(10, int(secs * scale))
        maxlen = {"c02_ift": 8192, "c13_colr": 65536}.get(target, 131072)
        art = os.path.join(tmp, "artifacts", target)
        os.makedirs(art, exist_ok=True)
        os.makedirs(os.path.join(FUZZ, "corpus", target), exist_ok=True)
        t0 = time.time()
        r = sh(
            f"cargo +nightly fuzz run --fuzz-dir {FUZZ} {target} -- -max_total_time={secs} -fork={workers} -ignore_crashes=1 "
            f"-ignore_timeouts=1 -ignore_ooms=1 -timeout=120 -rss_limit_mb=4096 -len_control=0 -max_len={maxlen} -seed={SEED + 1} "
            f"-print_final_stats=1 -artifact_prefix={art}/",
            timeout=secs + 600,
        )
        out = r.stderr + r.stdout
        last = [l for l in out.splitlines() if l.startswith("#") and "cov:" in l]
        m = re.search(r"#(\d+): cov: (\d+) ft: (\d+) corp: (\d+)", last[-1]) if last else None
        crashes = len(glob.glob(art + "/crash-*"))
        timeouts = len(glob.glob(art + "/timeout-*")) + len(glob.glob(art + "/slow-unit-*"))
        ooms = len(glob.glob(art + "/oom-*"))
        stats.append({"target": target, "budget_s": secs, "wall_s": round(time.time() - t0, 1), "executions": int(m.group(1)) if m else 0,
                      "coverage_edges": int(m.group(2)) if m else 0, "corpus": int(m.group(4)) if m else 0, "crash_artifacts": crashes,
                      "timeout_artifacts": timeouts, "oom_artifacts": ooms})
        # a libFuzzer timeout (120 s per input) is a hang candidate: keep the input for triage through the replay route
        for f in glob.glob(art + "/timeout-*"):
            data = open(f, "rb").read()
            keep = os.path.join(VERIF, "replay_out", ID)
            os.makedirs(keep, exist_ok=True)
            shutil.copy(f, os.path.join(keep, "fuzz-timeout-" + os.path.basename(f)))
        print(f"[{ID}] fuzz {target}: {stats[-1]}", file=sys.stderr)

after = set(glob.glob(os.path.join(VERIF, "replay_out", "*", "fuzz-*.json")))
new = sorted(after - before)
violations = []
for f in new:
    try:
        prop = json.load(open(f)).get("property")
    except Exception:
        continue
    if prop != ID:
        continue  # belongs to another property's check (it is replayed there when that check runs its fuzz tier)
    r = subprocess.run([BINARY, "--replay", f], env=env, text=True, capture_output=True)
    if r.returncode == 1:
        violations.append(f)
        print(f"VIOLATION property={ID} replay={f}")
    elif r.returncode == 0:
        for l in r.stdout.splitlines():
            if l.startswith("KNOWN-FINDING"):
                print(l)

shutil.rmtree(tmp, ignore_errors=True)
ev_path = os.path.join(VERIF, "evidence", f"{ID}.json")
try:
    ev = json.load(open(ev_path))
    ev["coverage"]["fuzz_campaigns"] = stats
    ev["coverage"]["fuzz_flagged_inputs_for_this_property"] = len([f for f in new])
    ev["coverage"]["evaluations"] += sum(s["executions"] for s in stats)
    ev["violations"] = ev.get("violations", 0) + len(violations)
    ev["wall_s"] = ev.get("wall_s", 0) + (time.time() - t_start)
    if infra:
        ev.setdefault("infra_errors", []).extend(infra)
    json.dump(ev, open(ev_path, "w"), indent=1)
except Exception as e:
    print(f"cannot update evidence: {e}", file=sys.stderr)
    infra.append("evidence update failed")
code = 1 if (violations or PRIOR == 1) else (2 if (infra or PRIOR == 2) else PRIOR)
sys.exit(code)
