#!/usr/bin/env python3
"""prints the markdown table of /verif/seeded/* (used for DESIGN.md §10.4)"""
import json, glob, os
rows = []
for d in sorted(glob.glob('/verif/seeded/*/')):
    m = json.load(open(d + 'meta.json'))
    sid = os.path.basename(d.rstrip('/'))
    what = (m.get('what_breaks') or m.get('title') or '')
    if isinstance(what, list): what = ' '.join(what)
    needs = m.get('needs_to_manifest') or ''
    if isinstance(needs, list): needs = ' '.join(needs)
    files = ', '.join(m.get('files_touched', []))
    cr = m.get('check_result', {})
    rows.append((sid, m.get('property'), files, what.replace('\n', ' ')[:230], needs.replace('\n', ' ')[:200], cr.get('verdict'), cr.get('detail', '').replace('\n', ' ')[:260]))
import sys
if '--full' in sys.argv:
    print('| id | property | site | what breaks | needs, to manifest | result | how the check reports it |')
    print('|---|---|---|---|---|---|---|')
    for r in rows:
        print('| ' + ' | '.join(str(x).replace('|', '\\|') for x in r) + ' |')
else:  # compact form for DESIGN.md (details: seeded/<id>/meta.json)
    print('| id | site | what breaks / what it needs | result of the property\'s check |')
    print('|---|---|---|---|')
    for sid, prop, files, what, needs, verdict, detail in rows:
        files = ', '.join(f.split('/')[-1] if len(f) > 40 else f for f in files.split(', '))
        cell = (what[:120] + ' — needs: ' + needs[:110]).replace('|', '\\|')
        print(f"| {sid} | {files} | {cell} | {detail[:200].replace('|', chr(92) + '|')} |".replace('\n', ' '))
