#!/bin/bash
# mkscratch.sh NAME  — scratch environment for mutation experiments, outside /repo and /verif:
#   /root/scratch/NAME/repo     git worktree of /repo HEAD (edit freely)
#   /root/scratch/NAME/harness  the harness workspace (sources symlinked to /verif/harness) with path-deps rewritten
#   /root/scratch/NAME/verif    VERIF_DIR for runs there (evidence/replay_out land here; corpus + known findings linked)
# run:  /root/scratch/NAME/run CNN --tier quick   (builds against the scratch repo; own target dir)
# drop: mkscratch.sh --rm NAME
set -e
if [ "$1" = "--rm" ]; then
  N="$2"; git -C /repo worktree remove --force "/root/scratch/$N/repo" 2>/dev/null || true
  rm -rf "/root/scratch/$N"; git -C /repo worktree prune; exit 0
fi
N="${1:?name}"; R="/root/scratch/$N"
mkdir -p "$R"
[ -d "$R/repo" ] || git -C /repo worktree add --detach "$R/repo" HEAD >/dev/null
mkdir -p "$R/harness/.cargo" "$R/verif"
H=/verif/harness
sed "s#/repo/#$R/repo/#g" $H/Cargo.toml > "$R/harness/Cargo.toml"
cp $H/Cargo.lock "$R/harness/Cargo.lock"; cp $H/.cargo/config.toml "$R/harness/.cargo/config.toml"
for c in vcore vcheck vft vtotal; do mkdir -p "$R/harness/$c"; ln -sfn $H/$c/src "$R/harness/$c/src"; cp $H/$c/Cargo.toml "$R/harness/$c/Cargo.toml"; done
ln -sfn /verif/corpus "$R/verif/corpus"; ln -sfn /verif/known_findings.json "$R/verif/known_findings.json"
mkdir -p "$R/verif/harness/target/tmp"
cat > "$R/run" <<EOS
#!/bin/bash
# usage: run CNN [args...]
ID="\$1"; shift
/verif/tools/mkscratch.sh "$N" >/dev/null   # re-sync manifests with /verif/harness
bin=\$(echo "\$ID" | tr 'A-Z' 'a-z'); profile=release; dir=release; pkg=vcheck
case "\$ID" in C01|C02|C13) pkg=vtotal ;; C20) pkg=vtotal; profile=strict; dir=strict ;; C03) pkg=vft; bin=vft ;; esac
cd "$R/harness" && CARGO_NET_OFFLINE=true cargo build --profile \$profile -p \$pkg --bin \$bin 2>"$R/build.log" >/dev/null || { echo BUILD FAILED; grep -E '^error' -A8 "$R/build.log" | head -40; exit 2; }
VERIF_REPO="$R/repo" VERIF_DIR="$R/verif" exec "$R/harness/target/\$dir/\$bin" "\$@"
EOS
chmod +x "$R/run"
echo "$R ready: edit $R/repo, then $R/run CNN --tier quick"
