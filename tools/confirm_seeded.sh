#!/bin/bash
# confirm_seeded.sh <dir with patch.diff demo.rs meta.json>  — independent confirmation of a seeded change in /tmp/confirm
# (worktree of /repo HEAD): patch applies; touched crates' tests pass with it; the demo fails with it and passes without it.
set -u
D="$1"; W=/tmp/confirm
[ -d $W ] || git -C /repo worktree add --detach $W HEAD >/dev/null 2>&1
git -C $W checkout -q -- . ; git -C $W clean -fdq -e target; git -C $W checkout -q --detach "$(git -C /repo rev-parse HEAD)"
place=$(head -n 1 "$D/demo.rs" | sed -n 's#^// *[Pp]lace at:\{0,1\} *\([^ ;]*\).*#\1#p')
crate=${place%%/*}; name=$(basename "$place" .rs)
crates=$(python3 -c "import json;print(' '.join(sorted({'-p '+f.split('/')[0] for f in json.load(open('$D/meta.json'))['files_touched']})))")
res() { echo "$1" >> "$D/confirm.txt"; echo "$1"; }
: > "$D/confirm.txt"
res "repo_head=$(git -C /repo rev-parse --short HEAD) place=$place crates='$crates'"
cd $W
if ! git apply "$D/patch.diff"; then res "APPLY=fail"; exit 1; fi
res "APPLY=ok"
if CARGO_NET_OFFLINE=true cargo test $crates --offline >/tmp/confirm-tests.log 2>&1; then res "TESTS_WITH_PATCH=pass ($(grep -c 'test result: ok' /tmp/confirm-tests.log) ok-lines)"; else res "TESTS_WITH_PATCH=FAIL"; fi
mkdir -p "$(dirname "$place")"; cp "$D/demo.rs" "$place"
if CARGO_NET_OFFLINE=true timeout 900 cargo test -p "$crate" --offline --test "$name" >/tmp/confirm-demo1.log 2>&1; then res "DEMO_WITH_PATCH=pass(!)"; else res "DEMO_WITH_PATCH=fails"; fi
git apply -R "$D/patch.diff"
if CARGO_NET_OFFLINE=true timeout 900 cargo test -p "$crate" --offline --test "$name" >/tmp/confirm-demo2.log 2>&1; then res "DEMO_WITHOUT_PATCH=passes"; else res "DEMO_WITHOUT_PATCH=FAILS(!)"; fi
rm -f "$place"; git -C $W checkout -q -- . ; git -C $W clean -fdq -e target
