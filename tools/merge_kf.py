#!/usr/bin/env python3
"""merge reviewed /verif/kf_proposals/<ID>.json into known_findings.json: tools/merge_kf.py C08 [C05 ...]"""
import json, sys
k = json.load(open('/verif/known_findings.json'))
for pid in sys.argv[1:]:
    p = json.load(open(f'/verif/kf_proposals/{pid}.json'))
    for f in p['findings']:
        e = {"property": f["property"], "sig": f["sig"], "what": f["what"]}
        if not any(x["property"] == e["property"] and x["sig"] == e["sig"] for x in k["findings"]):
            k["findings"].append(e)
            print("added", e["property"], e["sig"][:80])
json.dump(k, open('/verif/known_findings.json', 'w'), indent=1)
