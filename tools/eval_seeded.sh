#!/bin/bash
# eval_seeded.sh CNN /path/patch.diff [tier] [scratch-name]  — run a check against a seeded change in a scratch worktree
# (use `git -C /repo apply` + ./check for the final confirmation when nothing else builds from /repo)
set -u
ID="$1"; PATCH="$2"; TIER="${3:-quick}"; N="${4:-mt}"
R=/root/scratch/$N
/verif/tools/mkscratch.sh "$N" >/dev/null
git -C $R/repo checkout -q -- . && git -C $R/repo clean -fdq -e target && git -C $R/repo checkout -q --detach "$(git -C /repo rev-parse HEAD)"
if ! git -C $R/repo apply "$PATCH"; then echo "PATCH DOES NOT APPLY"; exit 3; fi
rm -rf $R/verif/replay_out
start=$(date +%s)
$R/run "$ID" --tier "$TIER" > $R/last.log 2>&1; code=$?
end=$(date +%s)
grep -aE "^VIOLATION|^KNOWN-FINDING|BUILD FAILED|^\[C[0-9]+\] [0-9]+ evaluations" $R/last.log | cut -c1-200 | head -8
grep -aE "^violation in stage" $R/last.log | cut -c1-400 | head -3
echo "RESULT id=$ID exit=$code secs=$((end-start)) patch=$PATCH"
git -C $R/repo checkout -q -- . && git -C $R/repo clean -fdq -e target
