//! Byte mutators over the font corpus, as serialisable case descriptions + proptest strategies.
//! Mutations are applied inside one table and the sfnt is re-assembled, so readers get past the directory.
use crate::corpus::CorpusFont;
use crate::sfnt;
use proptest::prelude::*;
use serde::{Deserialize, Serialize};

pub const BOUNDARY16: [u16; 12] = [0, 1, 2, 0x7F, 0x80, 0xFF, 0x100, 0x7FFF, 0x8000, 0xFFFE, 0xFFFF, 0x4000];
pub const BOUNDARY32: [u32; 10] = [0, 1, 0xFFFF, 0x10000, 0x7FFFFFFF, 0x80000000, 0xFFFFFFFF, 0xFFFFFFFE, 0x00FFFFFF, 0x01000000];

#[derive(Clone, Debug, Serialize, Deserialize, PartialEq)]
pub enum Edit {
    /// cut the payload to `frac` of its length (position scaled as pos*(len+1)>>32)
    Truncate { frac: u32 },
    TruncateAt { len: u32 },
    Set8 { pos: u32, val: u8 },
    Set16 { pos: u32, val: u16 },
    Set32 { pos: u32, val: u32 },
    /// absolute byte offset variants (sweeps)
    Set16At { at: u32, val: u16 },
    Set32At { at: u32, val: u32 },
    /// write (len + delta) as u16 / u32 at pos
    SetLen16 { pos: u32, delta: i8 },
    SetLen32 { pos: u32, delta: i8 },
    Flip { pos: u32, bit: u8 },
    Add16 { pos: u32, delta: i16 },
    Insert { pos: u32, bytes: Vec<u8> },
    Delete { pos: u32, len: u16 },
    CopyWithin { src: u32, dst: u32, len: u16 },
    /// overwrite with bytes taken from another corpus table (font index, table index, position all scaled)
    Splice { font: u32, table: u32, src: u32, dst: u32, len: u16 },
    /// replace the whole payload with another corpus table of the same tag (or any)
    Swap { font: u32, table: u32 },
}

#[derive(Clone, Debug, Serialize, Deserialize, PartialEq)]
pub struct MutCase {
    /// corpus font name
    pub font: String,
    /// table tag as 4 latin-1 chars, or "FILE" for whole-file mutation
    pub table: String,
    pub edits: Vec<Edit>,
}

#[derive(Clone, Debug)]
pub struct IndexedFont {
    pub name: String,
    pub data: Vec<u8>,
    pub version: u32,
    /// empty for collections / unparsable files (whole-file mutation only)
    pub tables: Vec<([u8; 4], Vec<u8>)>,
}

#[derive(Clone, Debug, Default)]
pub struct CorpusIndex {
    pub fonts: Vec<IndexedFont>,
}

pub fn tag_str(t: &[u8; 4]) -> String {
    t.iter().map(|b| *b as char).collect()
}
pub fn str_tag(s: &str) -> [u8; 4] {
    let mut t = [b' '; 4];
    for (i, c) in s.chars().take(4).enumerate() {
        t[i] = c as u32 as u8;
    }
    t
}

fn scale(pos: u32, len: usize) -> usize {
    ((pos as u64 * (len as u64 + 1)) >> 32) as usize
}
fn scale_idx(pos: u32, n: usize) -> usize {
    if n == 0 {
        0
    } else {
        (((pos as u64) * (n as u64)) >> 32) as usize
    }
}

impl CorpusIndex {
    pub fn new(fonts: &[CorpusFont]) -> CorpusIndex {
        let mut out = vec![];
        for f in fonts {
            let (version, tables) = sfnt::split_tables(&f.data).unwrap_or((0, vec![]));
            out.push(IndexedFont { name: f.name.clone(), data: f.data.clone(), version, tables });
        }
        CorpusIndex { fonts: out }
    }
    pub fn font(&self, name: &str) -> Option<&IndexedFont> {
        self.fonts.iter().find(|f| f.name == name)
    }

    pub fn apply_edits(&self, payload: &mut Vec<u8>, edits: &[Edit]) {
        for e in edits {
            let len = payload.len();
            match e {
                Edit::Truncate { frac } => payload.truncate(scale(*frac, len).min(len)),
                Edit::TruncateAt { len: l } => payload.truncate((*l as usize).min(len)),
                Edit::Set8 { pos, val } => {
                    if len >= 1 {
                        let p = scale(*pos, len - 1);
                        payload[p] = *val;
                    }
                }
                Edit::Set16 { pos, val } => {
                    if len >= 2 {
                        let p = scale(*pos, len - 2);
                        payload[p..p + 2].copy_from_slice(&val.to_be_bytes());
                    }
                }
                Edit::Set32 { pos, val } => {
                    if len >= 4 {
                        let p = scale(*pos, len - 4);
                        payload[p..p + 4].copy_from_slice(&val.to_be_bytes());
                    }
                }
                Edit::Set16At { at, val } => {
                    let p = *at as usize;
                    if p + 2 <= len {
                        payload[p..p + 2].copy_from_slice(&val.to_be_bytes());
                    }
                }
                Edit::Set32At { at, val } => {
                    let p = *at as usize;
                    if p + 4 <= len {
                        payload[p..p + 4].copy_from_slice(&val.to_be_bytes());
                    }
                }
                Edit::SetLen16 { pos, delta } => {
                    if len >= 2 {
                        let p = scale(*pos, len - 2);
                        let v = (len as i64 + *delta as i64) as u16;
                        payload[p..p + 2].copy_from_slice(&v.to_be_bytes());
                    }
                }
                Edit::SetLen32 { pos, delta } => {
                    if len >= 4 {
                        let p = scale(*pos, len - 4);
                        let v = (len as i64 + *delta as i64) as u32;
                        payload[p..p + 4].copy_from_slice(&v.to_be_bytes());
                    }
                }
                Edit::Flip { pos, bit } => {
                    if len >= 1 {
                        let p = scale(*pos, len - 1);
                        payload[p] ^= 1 << (bit & 7);
                    }
                }
                Edit::Add16 { pos, delta } => {
                    if len >= 2 {
                        let p = scale(*pos, len - 2);
                        let v = u16::from_be_bytes([payload[p], payload[p + 1]]).wrapping_add(*delta as u16);
                        payload[p..p + 2].copy_from_slice(&v.to_be_bytes());
                    }
                }
                Edit::Insert { pos, bytes } => {
                    let p = scale(*pos, len).min(len);
                    let tail = payload.split_off(p);
                    payload.extend_from_slice(bytes);
                    payload.extend_from_slice(&tail);
                }
                Edit::Delete { pos, len: l } => {
                    if len >= 1 {
                        let p = scale(*pos, len - 1);
                        let e = (p + *l as usize).min(len);
                        payload.drain(p..e);
                    }
                }
                Edit::CopyWithin { src, dst, len: l } => {
                    if len >= 1 {
                        let s = scale(*src, len - 1);
                        let d = scale(*dst, len - 1);
                        let l = (*l as usize).min(len - s).min(len - d);
                        payload.copy_within(s..s + l, d);
                    }
                }
                Edit::Splice { font, table, src, dst, len: l } => {
                    let fi = scale_idx(*font, self.fonts.len());
                    if let Some(f) = self.fonts.get(fi) {
                        let ti = scale_idx(*table, f.tables.len());
                        if let Some((_, other)) = f.tables.get(ti) {
                            if !other.is_empty() && len >= 1 {
                                let s = scale(*src, other.len() - 1);
                                let d = scale(*dst, len - 1);
                                let l = (*l as usize).min(other.len() - s).min(len - d);
                                payload[d..d + l].copy_from_slice(&other[s..s + l]);
                            }
                        }
                    }
                }
                Edit::Swap { font, table } => {
                    let fi = scale_idx(*font, self.fonts.len());
                    if let Some(f) = self.fonts.get(fi) {
                        let ti = scale_idx(*table, f.tables.len());
                        if let Some((_, other)) = f.tables.get(ti) {
                            *payload = other.clone();
                        }
                    }
                }
            }
        }
    }

    /// (whole font bytes, mutated table payload)
    pub fn materialize(&self, case: &MutCase) -> Option<(Vec<u8>, Vec<u8>)> {
        // inline bytes (fuzzer-found inputs): font = "hex:<bytes>", whole-file only
        if let Some(h) = case.font.strip_prefix("hex:") {
            let mut d: Vec<u8> = (0..h.len() / 2).filter_map(|i| u8::from_str_radix(h.get(2 * i..2 * i + 2)?, 16).ok()).collect();
            self.apply_edits(&mut d, &case.edits);
            return Some((d.clone(), d));
        }
        let f = self.font(&case.font)?;
        if case.table == "FILE" || f.tables.is_empty() {
            let mut d = f.data.clone();
            self.apply_edits(&mut d, &case.edits);
            return Some((d.clone(), d));
        }
        let tag = str_tag(&case.table);
        let ti = f.tables.iter().position(|t| t.0 == tag)?;
        let mut payload = f.tables[ti].1.clone();
        self.apply_edits(&mut payload, &case.edits);
        let mut tables = f.tables.clone();
        tables[ti].1 = payload.clone();
        Some((sfnt::assemble(f.version, &tables), payload))
    }

    // -------------------------------------------------------------------------------------
    // enumerations

    /// every cut length of every table (strided so that a table contributes at most `max_per_table` cuts)
    pub fn truncation_sweep(&self, max_per_table: usize, max_table_len: usize) -> Vec<MutCase> {
        let mut out = vec![];
        for f in &self.fonts {
            for (tag, d) in &f.tables {
                if d.len() > max_table_len {
                    continue;
                }
                let step = d.len().div_ceil(max_per_table).max(1);
                let mut cut = 0;
                while cut < d.len() {
                    out.push(MutCase { font: f.name.clone(), table: tag_str(tag), edits: vec![Edit::TruncateAt { len: cut as u32 }] });
                    // dense near the start (headers), strided afterwards
                    cut += if cut < 64 { 1 } else { step };
                }
            }
        }
        out
    }

    /// every 2-byte aligned field in the first `prefix` bytes of every table set to boundary values
    pub fn field_sweep(&self, prefix: usize, max_table_len: usize, stride_sel: u64) -> Vec<MutCase> {
        let mut out = vec![];
        let mut k = 0u64;
        for f in &self.fonts {
            for (tag, d) in &f.tables {
                if d.len() > max_table_len {
                    continue;
                }
                let lim = d.len().min(prefix);
                let mut pos = 0;
                while pos + 2 <= lim {
                    let l = d.len() as u32;
                    let vals16 = [0u16, 1, 2, 0x7F, 0x80, 0xFF, 0x7FFF, 0x8000, 0xFFFF, l.wrapping_sub(1) as u16, l as u16, l.wrapping_add(1) as u16];
                    for v in vals16 {
                        k += 1;
                        if stride_sel == 0 || k % stride_sel == 0 {
                            out.push(MutCase { font: f.name.clone(), table: tag_str(tag), edits: vec![Edit::Set16At { at: pos as u32, val: v }] });
                        }
                    }
                    if pos % 4 == 0 && pos + 4 <= lim {
                        for v in [0u32, 0xFFFF, 0x10000, 0x7FFFFFFF, 0x80000000, 0xFFFFFFFF, l.wrapping_sub(1), l, l.wrapping_add(1)] {
                            k += 1;
                            if stride_sel == 0 || k % stride_sel == 0 {
                                out.push(MutCase { font: f.name.clone(), table: tag_str(tag), edits: vec![Edit::Set32At { at: pos as u32, val: v }] });
                            }
                        }
                    }
                    pos += 2;
                }
            }
        }
        out
    }

    /// list of (font index, table index) pairs usable as mutation targets
    pub fn targets(&self, max_table_len: usize) -> Vec<(usize, usize)> {
        let mut v = vec![];
        for (fi, f) in self.fonts.iter().enumerate() {
            for (ti, t) in f.tables.iter().enumerate() {
                if t.1.len() <= max_table_len {
                    v.push((fi, ti));
                }
            }
        }
        v
    }
}

pub fn edit_strategy() -> impl Strategy<Value = Edit> {
    let b16 = prop_oneof![proptest::sample::select(BOUNDARY16.to_vec()), any::<u16>()];
    let b32 = prop_oneof![proptest::sample::select(BOUNDARY32.to_vec()), any::<u32>()];
    prop_oneof![
        1 => any::<u32>().prop_map(|frac| Edit::Truncate { frac }),
        3 => (any::<u32>(), prop_oneof![Just(0u8), Just(0xFF), Just(0x80), Just(1), any::<u8>()]).prop_map(|(pos, val)| Edit::Set8 { pos, val }),
        4 => (any::<u32>(), b16).prop_map(|(pos, val)| Edit::Set16 { pos, val }),
        2 => (any::<u32>(), b32).prop_map(|(pos, val)| Edit::Set32 { pos, val }),
        1 => (any::<u32>(), -2i8..=2).prop_map(|(pos, delta)| Edit::SetLen16 { pos, delta }),
        1 => (any::<u32>(), -2i8..=2).prop_map(|(pos, delta)| Edit::SetLen32 { pos, delta }),
        3 => (any::<u32>(), 0u8..8).prop_map(|(pos, bit)| Edit::Flip { pos, bit }),
        2 => (any::<u32>(), prop_oneof![Just(1i16), Just(-1), any::<i16>()]).prop_map(|(pos, delta)| Edit::Add16 { pos, delta }),
        1 => (any::<u32>(), proptest::collection::vec(any::<u8>(), 1..9)).prop_map(|(pos, bytes)| Edit::Insert { pos, bytes }),
        1 => (any::<u32>(), 1u16..16).prop_map(|(pos, len)| Edit::Delete { pos, len }),
        1 => (any::<u32>(), any::<u32>(), 1u16..64).prop_map(|(src, dst, len)| Edit::CopyWithin { src, dst, len }),
        1 => (any::<u32>(), any::<u32>(), any::<u32>(), any::<u32>(), 1u16..256).prop_map(|(font, table, src, dst, len)| Edit::Splice { font, table, src, dst, len }),
    ]
}

/// havoc: pick a target table, apply 1..=max_edits edits (positions biased to the table head by squaring)
pub fn havoc_strategy(index: &CorpusIndex, max_table_len: usize, max_edits: usize) -> impl Strategy<Value = MutCase> {
    let targets: Vec<(String, String)> = index
        .targets(max_table_len)
        .into_iter()
        .map(|(fi, ti)| (index.fonts[fi].name.clone(), tag_str(&index.fonts[fi].tables[ti].0)))
        .collect();
    let files: Vec<(String, String)> = index.fonts.iter().filter(|f| f.data.len() <= max_table_len).map(|f| (f.name.clone(), "FILE".to_string())).collect();
    let tsel = if files.is_empty() {
        proptest::sample::select(targets).boxed()
    } else {
        prop_oneof![9 => proptest::sample::select(targets), 1 => proptest::sample::select(files)].boxed()
    };
    let head_biased = edit_strategy().prop_flat_map(|e| {
        (Just(e), any::<bool>()).prop_map(|(e, bias)| if bias { bias_to_head(e) } else { e })
    });
    (tsel, proptest::collection::vec(head_biased, 1..=max_edits)).prop_map(|((font, table), edits)| MutCase { font, table, edits })
}

fn sq(p: u32) -> u32 {
    // square a [0,1) fraction: moves positions towards the start of the payload (headers, counts, offsets)
    ((p as u64 * p as u64) >> 32) as u32 >> 3
}
fn bias_to_head(e: Edit) -> Edit {
    match e {
        Edit::Set8 { pos, val } => Edit::Set8 { pos: sq(pos), val },
        Edit::Set16 { pos, val } => Edit::Set16 { pos: sq(pos), val },
        Edit::Set32 { pos, val } => Edit::Set32 { pos: sq(pos), val },
        Edit::Flip { pos, bit } => Edit::Flip { pos: sq(pos), bit },
        Edit::Add16 { pos, delta } => Edit::Add16 { pos: sq(pos), delta },
        e => e,
    }
}

pub fn hex_font(bytes: &[u8]) -> String {
    let mut s = String::with_capacity(4 + bytes.len() * 2);
    s.push_str("hex:");
    for b in bytes {
        s.push_str(&format!("{b:02x}"));
    }
    s
}
