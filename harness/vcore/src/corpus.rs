//! Font corpus: read from /repo at run time (tracks the tree) plus the vendored third-party fonts.
use crate::engine::{repo_dir, verif_dir};
use std::path::PathBuf;

#[derive(Clone, Debug)]
pub struct CorpusFont {
    pub name: String,
    pub path: PathBuf,
    pub data: Vec<u8>,
}

fn load_dir(dir: PathBuf, exts: &[&str], out: &mut Vec<CorpusFont>) {
    let Ok(rd) = std::fs::read_dir(&dir) else { return };
    let mut paths: Vec<PathBuf> = rd.flatten().map(|e| e.path()).collect();
    paths.sort();
    for p in paths {
        let ext = p.extension().and_then(|e| e.to_str()).unwrap_or("").to_ascii_lowercase();
        if exts.contains(&ext.as_str()) {
            if let Ok(data) = std::fs::read(&p) {
                out.push(CorpusFont { name: p.file_name().unwrap().to_string_lossy().to_string(), path: p, data });
            }
        }
    }
}

/// repository test fonts (ttf/otf/ttc), sorted by path
pub fn repo_fonts() -> Vec<CorpusFont> {
    let mut out = vec![];
    load_dir(repo_dir().join("font-test-data/test_data/ttf"), &["ttf", "otf"], &mut out);
    load_dir(repo_dir().join("font-test-data/test_data/ttc"), &["ttc"], &mut out);
    load_dir(repo_dir().join("klippa/test-data/fonts"), &["ttf", "otf"], &mut out);
    out
}

/// vendored real-world static hinted fonts
pub fn third_party_fonts() -> Vec<CorpusFont> {
    let mut out = vec![];
    load_dir(verif_dir().join("corpus/third_party"), &["ttf", "otf"], &mut out);
    out
}

/// small generated static TrueType fonts kept as regression inputs for C03 only (each once showed a divergence from FreeType)
pub fn c03_regress_fonts() -> Vec<CorpusFont> {
    let mut out = vec![];
    load_dir(verif_dir().join("corpus/c03_regress"), &["ttf", "otf"], &mut out);
    out
}

pub fn all_fonts() -> Vec<CorpusFont> {
    let mut v = repo_fonts();
    v.extend(third_party_fonts());
    v
}

/// repository fonts at most `max_len` bytes (mutation targets: keeps per-case cost bounded)
pub fn small_fonts(max_len: usize) -> Vec<CorpusFont> {
    all_fonts().into_iter().filter(|f| f.data.len() <= max_len).collect()
}
