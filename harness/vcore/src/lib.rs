pub mod engine;
pub mod guard;
pub mod sfnt;
pub mod corpus;
pub mod mutate;
pub mod fontkit;
pub use engine::*;
