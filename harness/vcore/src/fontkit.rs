//! FontKit: assembles a minimal valid sfnt around generated tables, with hand-encoded (independent of
//! write-fonts) head / maxp / hhea / hmtx / fvar / loca, so that the high-level APIs accept it.
use crate::sfnt;

fn be16(v: &mut Vec<u8>, x: u16) {
    v.extend_from_slice(&x.to_be_bytes());
}
fn be32(v: &mut Vec<u8>, x: u32) {
    v.extend_from_slice(&x.to_be_bytes());
}

#[derive(Clone, Debug)]
pub struct Axis {
    pub tag: [u8; 4],
    /// 16.16 raw values
    pub min: i32,
    pub default: i32,
    pub max: i32,
}

#[derive(Clone, Debug, Default)]
pub struct Kit {
    pub num_glyphs: u16,
    pub upem: u16,
    /// glyf bytes + offsets (num_glyphs+1 byte offsets); loca format is chosen short iff possible unless forced
    pub glyf: Option<(Vec<u8>, Vec<u32>)>,
    pub force_long_loca: bool,
    /// raw loca/format override (when the caller already has encoded loca bytes)
    pub loca_raw: Option<(Vec<u8>, bool)>,
    /// (advance, lsb) long metrics, then trailing lsbs
    pub h_metrics: Vec<(u16, i16)>,
    pub lsbs: Vec<i16>,
    pub axes: Vec<Axis>,
    /// any other table, raw
    pub extra: Vec<([u8; 4], Vec<u8>)>,
    /// sfnt version (0x00010000 default; b"OTTO" for CFF)
    pub version: Option<u32>,
}

pub fn head_bytes(upem: u16, long_loca: bool) -> Vec<u8> {
    let mut v = vec![];
    be32(&mut v, 0x00010000); // version
    be32(&mut v, 0x00010000); // fontRevision
    be32(&mut v, 0); // checksumAdjustment
    be32(&mut v, 0x5F0F3CF5); // magic
    be16(&mut v, 0x0003); // flags
    be16(&mut v, upem);
    v.extend_from_slice(&[0; 16]); // created, modified
    be16(&mut v, 0); // xMin
    be16(&mut v, 0);
    be16(&mut v, upem);
    be16(&mut v, upem);
    be16(&mut v, 0); // macStyle
    be16(&mut v, 8); // lowestRecPPEM
    be16(&mut v, 2); // fontDirectionHint
    be16(&mut v, long_loca as u16);
    be16(&mut v, 0); // glyphDataFormat
    v
}

pub fn maxp_bytes(num_glyphs: u16) -> Vec<u8> {
    let mut v = vec![];
    be32(&mut v, 0x00010000);
    be16(&mut v, num_glyphs);
    // generous maxima so that skrifa sizes its buffers for any generated glyph
    for x in [20000u16, 2000, 20000, 2000, 2, 16, 64, 64, 64, 1024, 2048, 64, 8] {
        be16(&mut v, x);
    }
    v
}

pub fn hhea_bytes(number_of_h_metrics: u16, upem: u16) -> Vec<u8> {
    let mut v = vec![];
    be32(&mut v, 0x00010000);
    be16(&mut v, (upem as f32 * 0.8) as u16); // ascender
    be16(&mut v, (-(upem as f32 * 0.2)) as i16 as u16); // descender
    be16(&mut v, 0); // lineGap
    be16(&mut v, upem); // advanceWidthMax
    be16(&mut v, 0);
    be16(&mut v, 0);
    be16(&mut v, upem);
    be16(&mut v, 1); // caretSlopeRise
    be16(&mut v, 0);
    be16(&mut v, 0);
    v.extend_from_slice(&[0; 8]);
    be16(&mut v, 0); // metricDataFormat
    be16(&mut v, number_of_h_metrics);
    v
}

pub fn hmtx_bytes(h_metrics: &[(u16, i16)], lsbs: &[i16]) -> Vec<u8> {
    let mut v = vec![];
    for (a, l) in h_metrics {
        be16(&mut v, *a);
        be16(&mut v, *l as u16);
    }
    for l in lsbs {
        be16(&mut v, *l as u16);
    }
    v
}

pub fn fvar_bytes(axes: &[Axis]) -> Vec<u8> {
    let mut v = vec![];
    be32(&mut v, 0x00010000);
    be16(&mut v, 16); // axesArrayOffset
    be16(&mut v, 2); // reserved
    be16(&mut v, axes.len() as u16);
    be16(&mut v, 20); // axisSize
    be16(&mut v, 0); // instanceCount
    be16(&mut v, (4 + 4 * axes.len()) as u16); // instanceSize
    for (i, a) in axes.iter().enumerate() {
        v.extend_from_slice(&a.tag);
        be32(&mut v, a.min as u32);
        be32(&mut v, a.default as u32);
        be32(&mut v, a.max as u32);
        be16(&mut v, 0);
        be16(&mut v, 256 + i as u16);
    }
    v
}

/// loca from byte offsets; short iff every offset is even and <= 0x1FFFE and !force_long
pub fn loca_bytes(offsets: &[u32], force_long: bool) -> (Vec<u8>, bool) {
    let short_ok = offsets.iter().all(|o| o % 2 == 0 && *o <= 0x1FFFE);
    let long = force_long || !short_ok;
    let mut v = vec![];
    for o in offsets {
        if long {
            be32(&mut v, *o);
        } else {
            be16(&mut v, (*o / 2) as u16);
        }
    }
    (v, long)
}

impl Kit {
    pub fn tables(&self) -> Vec<([u8; 4], Vec<u8>)> {
        let upem = if self.upem == 0 { 1000 } else { self.upem };
        let mut t: Vec<([u8; 4], Vec<u8>)> = vec![];
        let mut long = false;
        if let Some((glyf, offsets)) = &self.glyf {
            let (loca, l) = loca_bytes(offsets, self.force_long_loca);
            long = l;
            t.push((*b"glyf", glyf.clone()));
            t.push((*b"loca", loca));
        }
        if let Some((loca, l)) = &self.loca_raw {
            long = *l;
            t.retain(|x| &x.0 != b"loca");
            t.push((*b"loca", loca.clone()));
        }
        t.push((*b"head", head_bytes(upem, long)));
        t.push((*b"maxp", maxp_bytes(self.num_glyphs)));
        if !self.h_metrics.is_empty() {
            t.push((*b"hhea", hhea_bytes(self.h_metrics.len() as u16, upem)));
            t.push((*b"hmtx", hmtx_bytes(&self.h_metrics, &self.lsbs)));
        }
        if !self.axes.is_empty() {
            t.push((*b"fvar", fvar_bytes(&self.axes)));
        }
        for (tag, d) in &self.extra {
            t.retain(|x| &x.0 != tag);
            t.push((*tag, d.clone()));
        }
        t
    }
    pub fn build(&self) -> Vec<u8> {
        sfnt::assemble(self.version.unwrap_or(0x00010000), &self.tables())
    }
}
