//! Case runner: seeded proptest shards (threads or crash-isolated worker subprocesses), index-enumeration
//! stages, manual shrinking, replay files, known findings, evidence.
use crate::guard::{self, PanicInfo};
use proptest::strategy::{Strategy, ValueTree};
use proptest::test_runner::{Config, RngAlgorithm, TestRng, TestRunner};
use serde::{de::DeserializeOwned, Deserialize, Serialize};
use serde_json::{json, Value};
use std::collections::{BTreeMap, BTreeSet, HashSet};
use std::fmt::Debug;
use std::path::{Path, PathBuf};
use std::sync::atomic::{AtomicU64, Ordering};
use std::sync::Mutex;
use std::time::Instant;

pub fn verif_dir() -> PathBuf {
    PathBuf::from(std::env::var("VERIF_DIR").unwrap_or_else(|_| "/verif".into()))
}
pub fn repo_dir() -> PathBuf {
    PathBuf::from(std::env::var("VERIF_REPO").unwrap_or_else(|_| "/repo".into()))
}

#[derive(Clone, Copy, Debug, PartialEq, Eq)]
pub enum Tier {
    Quick,
    Thorough,
}

#[derive(Clone, Copy, Debug, PartialEq, Eq)]
pub enum Isolation {
    /// shards are threads of this process; panics are caught, a crash/hang takes the run down (exit 2)
    Threads,
    /// shards are worker subprocesses with a per-case CPU budget; crashes and hangs are attributed to a case
    Procs,
}

/// A failed case: `sig` identifies the failing site / predicate (the key of known findings).
#[derive(Clone, Debug, Serialize, Deserialize)]
pub struct Fail {
    pub sig: String,
    pub msg: String,
}
impl Fail {
    pub fn new(sig: impl Into<String>, msg: impl Into<String>) -> Fail {
        Fail { sig: sig.into(), msg: msg.into() }
    }
    pub fn from_panic(p: &PanicInfo) -> Fail {
        Fail { sig: p.sig(), msg: format!("panic at {}", p.describe()) }
    }
}
pub type CaseResult = Result<(), Fail>;

/// Run library code for one case; a panic becomes a `Fail` keyed by its site.
pub fn guarded<T>(f: impl FnOnce() -> T) -> Result<T, Fail> {
    guard::catch(f).map_err(|p| Fail::from_panic(&p))
}

pub fn fnv64(bytes: &[u8]) -> u64 {
    let mut h: u64 = 0xcbf29ce484222325;
    for b in bytes {
        h ^= *b as u64;
        h = h.wrapping_mul(0x100000001b3);
    }
    h
}
pub fn hash_json<T: Serialize>(v: &T) -> u64 {
    fnv64(&serde_json::to_vec(v).unwrap_or_default())
}
pub fn hash_debug<T: Debug>(v: &T) -> u64 {
    fnv64(format!("{v:?}").as_bytes())
}
pub fn mix(a: u64, b: u64) -> u64 {
    let mut x = a ^ b.wrapping_mul(0x9E3779B97F4A7C15);
    x ^= x >> 30;
    x = x.wrapping_mul(0xBF58476D1CE4E5B9);
    x ^= x >> 27;
    x = x.wrapping_mul(0x94D049BB133111EB);
    x ^ (x >> 31)
}

// ---------------------------------------------------------------------------------------------

thread_local! { static FROZEN: std::cell::Cell<bool> = const { std::cell::Cell::new(false) }; }
fn frozen() -> bool {
    FROZEN.with(|f| f.get())
}
fn set_frozen(v: bool) {
    FROZEN.with(|f| f.set(v))
}

#[derive(Default)]
pub struct Stats {
    pub evaluations: AtomicU64,
    nontrivial: Mutex<HashSet<u64>>,
    classes: Mutex<BTreeMap<String, u64>>,
    samples: Mutex<Vec<Value>>,
}
impl Stats {
    pub fn eval(&self) {
        if !frozen() {
            self.evaluations.fetch_add(1, Ordering::Relaxed);
        }
    }
    pub fn evals(&self, n: u64) {
        if !frozen() {
            self.evaluations.fetch_add(n, Ordering::Relaxed);
        }
    }
    /// record a case that is non-trivial by the property's rule; `h` = hash of the case (distinctness)
    pub fn nontrivial(&self, h: u64) {
        if !frozen() {
            self.nontrivial.lock().unwrap().insert(h);
        }
    }
    pub fn class(&self, name: &str) {
        self.class_n(name, 1)
    }
    pub fn class_n(&self, name: &str, n: u64) {
        if !frozen() {
            *self.classes.lock().unwrap().entry(name.to_string()).or_insert(0) += n;
        }
    }
    pub fn sample(&self, v: Value) {
        let mut s = self.samples.lock().unwrap();
        if s.len() < 8 {
            s.push(v);
        }
    }
    pub fn want_sample(&self) -> bool {
        self.samples.lock().unwrap().len() < 8
    }
    fn export(&self) -> Value {
        json!({
            "evaluations": self.evaluations.load(Ordering::Relaxed),
            "nontrivial": self.nontrivial.lock().unwrap().iter().copied().collect::<Vec<u64>>(),
            "classes": *self.classes.lock().unwrap(),
            "samples": *self.samples.lock().unwrap(),
        })
    }
    fn import(&self, v: &Value) {
        self.evaluations.fetch_add(v["evaluations"].as_u64().unwrap_or(0), Ordering::Relaxed);
        if let Some(a) = v["nontrivial"].as_array() {
            let mut n = self.nontrivial.lock().unwrap();
            for x in a {
                if let Some(x) = x.as_u64() {
                    n.insert(x);
                }
            }
        }
        if let Some(o) = v["classes"].as_object() {
            let mut c = self.classes.lock().unwrap();
            for (k, x) in o {
                *c.entry(k.clone()).or_insert(0) += x.as_u64().unwrap_or(0);
            }
        }
        if let Some(a) = v["samples"].as_array() {
            let mut s = self.samples.lock().unwrap();
            for x in a {
                if s.len() < 8 {
                    s.push(x.clone());
                }
            }
        }
    }
}

#[derive(Clone, Debug, Serialize, Deserialize)]
pub struct KnownFinding {
    pub property: String,
    /// exact signature (see `Fail::sig`) or, with a trailing `*`, a prefix
    pub sig: String,
    pub what: String,
}
#[derive(Clone, Debug, Default, Serialize, Deserialize)]
pub struct KnownFile {
    #[serde(default)]
    pub findings: Vec<KnownFinding>,
    #[serde(default)]
    pub fixed: Vec<String>,
}

#[derive(Clone, Debug)]
struct WorkerSpec {
    stage: String,
    shard: u64,
    nshards: u64,
    start: u64,
    only: Option<u64>,
    outdir: PathBuf,
    cpu_secs: i64,
}

#[derive(Clone, Debug, Serialize, Deserialize)]
struct Violation {
    stage: String,
    sig: String,
    msg: String,
    replay: String,
}

pub struct Ctx {
    pub id: String,
    pub tier: Tier,
    pub seed: u64,
    pub threads: usize,
    pub replay: Option<PathBuf>,
    pub stats: Stats,
    known: Vec<KnownFinding>,
    known_hits: Mutex<BTreeMap<String, u64>>,
    violations: Mutex<Vec<Violation>>,
    stages: Mutex<Vec<Value>>,
    notes: Mutex<BTreeMap<String, Value>>,
    worker: Option<WorkerSpec>,
    start: Instant,
    pub rule: Mutex<String>,
    pub assumptions: Mutex<Vec<String>>,
    level: Mutex<String>,
    infra_errors: Mutex<Vec<String>>,
    strict_only_sigs: bool,
    replay_seen: AtomicU64,
}

fn arg_val(args: &[String], name: &str) -> Option<String> {
    args.iter().position(|a| a == name).and_then(|i| args.get(i + 1).cloned())
}

impl Ctx {
    pub fn from_args(id: &str) -> Ctx {
        guard::install_hook();
        let args: Vec<String> = std::env::args().collect();
        let tier = match arg_val(&args, "--tier").or_else(|| std::env::var("VERIF_TIER").ok()).as_deref() {
            Some("thorough") => Tier::Thorough,
            _ => Tier::Quick,
        };
        let seed = arg_val(&args, "--seed")
            .or_else(|| std::env::var("VERIF_SEED").ok())
            .and_then(|s| s.trim().parse::<i128>().ok())
            .map(|v| v as u64)
            .unwrap_or(0);
        let threads = arg_val(&args, "--threads")
            .or_else(|| std::env::var("VERIF_THREADS").ok())
            .and_then(|s| s.parse().ok())
            .unwrap_or_else(|| std::thread::available_parallelism().map(|n| n.get()).unwrap_or(8).min(16));
        let replay = arg_val(&args, "--replay").map(PathBuf::from);
        let worker = arg_val(&args, "--worker-stage").map(|stage| WorkerSpec {
            stage,
            shard: arg_val(&args, "--shard").unwrap().parse().unwrap(),
            nshards: arg_val(&args, "--nshards").unwrap().parse().unwrap(),
            start: arg_val(&args, "--start").map(|s| s.parse().unwrap()).unwrap_or(0),
            only: arg_val(&args, "--only").map(|s| s.parse().unwrap()),
            outdir: PathBuf::from(arg_val(&args, "--outdir").unwrap()),
            cpu_secs: arg_val(&args, "--cpu-secs").map(|s| s.parse().unwrap()).unwrap_or(20),
        });
        let known: Vec<KnownFinding> = std::fs::read_to_string(verif_dir().join("known_findings.json"))
            .ok()
            .and_then(|s| serde_json::from_str::<KnownFile>(&s).ok())
            .map(|k| k.findings.into_iter().filter(|f| f.property == id).collect())
            .unwrap_or_default();
        let mut known = known;
        // development aid: extra (proposed) known findings, never set by registered commands
        if let Ok(p) = std::env::var("VERIF_EXTRA_KNOWN") {
            if let Some(k) = std::fs::read_to_string(p).ok().and_then(|s| serde_json::from_str::<KnownFile>(&s).ok()) {
                known.extend(k.findings.into_iter().filter(|f| f.property == id));
            }
        }
        Ctx {
            id: id.to_string(),
            tier,
            seed,
            threads,
            replay,
            stats: Stats::default(),
            known,
            known_hits: Mutex::new(BTreeMap::new()),
            violations: Mutex::new(vec![]),
            stages: Mutex::new(vec![]),
            notes: Mutex::new(BTreeMap::new()),
            worker,
            start: Instant::now(),
            rule: Mutex::new(String::new()),
            assumptions: Mutex::new(vec![]),
            level: Mutex::new("exploration".into()),
            infra_errors: Mutex::new(vec![]),
            strict_only_sigs: false,
            replay_seen: AtomicU64::new(0),
        }
    }
    pub fn is_worker(&self) -> bool {
        self.worker.is_some()
    }
    pub fn is_replay(&self) -> bool {
        self.replay.is_some()
    }
    pub fn quick(&self) -> bool {
        self.tier == Tier::Quick
    }
    /// case count for the tier
    pub fn n(&self, quick: u64, thorough: u64) -> u64 {
        let base = if self.tier == Tier::Quick { quick } else { thorough };
        match std::env::var("VERIF_SCALE").ok().and_then(|s| s.parse::<f64>().ok()) {
            Some(f) => ((base as f64) * f).ceil() as u64,
            None => base,
        }
    }
    pub fn set_rule(&self, r: &str) {
        *self.rule.lock().unwrap() = r.to_string();
    }
    pub fn set_level(&self, l: &str) {
        *self.level.lock().unwrap() = l.to_string();
    }
    pub fn assume(&self, a: &str) {
        self.assumptions.lock().unwrap().push(a.to_string());
    }
    pub fn note(&self, k: &str, v: Value) {
        self.notes.lock().unwrap().insert(k.to_string(), v);
    }
    pub fn infra_error(&self, m: String) {
        eprintln!("INFRA: {m}");
        self.infra_errors.lock().unwrap().push(m);
    }
    pub fn stage_seed(&self, stage: &str, shard: u64) -> [u8; 32] {
        let h0 = mix(mix(self.seed, fnv64(self.id.as_bytes())), fnv64(stage.as_bytes()));
        let mut out = [0u8; 32];
        for i in 0..4 {
            out[i * 8..i * 8 + 8].copy_from_slice(&mix(h0, shard.wrapping_mul(4).wrapping_add(i as u64)).to_le_bytes());
        }
        out
    }

    pub fn known_match(&self, sig: &str) -> Option<&KnownFinding> {
        self.known.iter().find(|k| {
            if let Some(p) = k.sig.strip_suffix('*') {
                sig.starts_with(p)
            } else {
                k.sig == sig
            }
        })
    }
    /// true if the failure is a listed known finding (counted), false if it is a new violation
    pub fn is_known(&self, f: &Fail) -> bool {
        if let Some(k) = self.known_match(&f.sig) {
            *self.known_hits.lock().unwrap().entry(k.sig.clone()).or_insert(0) += 1;
            true
        } else {
            false
        }
    }
    /// count a case the generator excluded by construction because it would hit a listed finding
    pub fn excluded_known(&self, n: u64) {
        self.stats.class_n("excluded_known", n);
    }

    fn replay_out_dir(&self) -> PathBuf {
        let d = verif_dir().join("replay_out").join(&self.id);
        let _ = std::fs::create_dir_all(&d);
        d
    }
    /// Record a violation (not matching a known finding) with its replay case.
    pub fn violation<C: Serialize>(&self, stage: &str, fail: &Fail, case: &C) {
        {
            let v = self.violations.lock().unwrap();
            if v.iter().any(|x| x.sig == fail.sig && x.stage == stage) {
                return;
            }
        }
        let body = json!({"property": self.id, "stage": stage, "sig": fail.sig, "msg": fail.msg, "seed": self.seed, "case": case});
        let text = serde_json::to_string(&body).unwrap();
        let name = format!("{:016x}.json", fnv64(text.as_bytes()));
        let path = self.replay_out_dir().join(name);
        let _ = std::fs::write(&path, &text);
        eprintln!("violation in stage {stage}: [{}] {}", fail.sig, fail.msg.chars().take(1500).collect::<String>());
        self.violations.lock().unwrap().push(Violation {
            stage: stage.to_string(),
            sig: fail.sig.clone(),
            msg: fail.msg.chars().take(2000).collect(),
            replay: path.to_string_lossy().to_string(),
        });
    }

    fn committed_replays(&self, stage: &str) -> Vec<(PathBuf, Value)> {
        let mut out = vec![];
        let mut paths: Vec<PathBuf> = vec![];
        if let Some(p) = &self.replay {
            paths.push(p.clone());
        } else {
            let d = verif_dir().join("corpus/replay").join(&self.id);
            if let Ok(rd) = std::fs::read_dir(d) {
                for e in rd.flatten() {
                    if e.path().extension().map(|x| x == "json").unwrap_or(false) {
                        paths.push(e.path());
                    }
                }
            }
            paths.sort();
        }
        for p in paths {
            let text = std::fs::read_to_string(&p);
            if text.is_err() && self.is_replay() && self.replay_seen.swap(1, Ordering::Relaxed) == 0 {
                self.infra_error(format!("cannot read replay file {}", p.display()));
            }
            if let Ok(s) = text {
                if let Ok(v) = serde_json::from_str::<Value>(&s) {
                    if v["stage"].as_str() == Some(stage) && v["property"].as_str() == Some(&self.id) {
                        out.push((p, v["case"].clone()));
                    }
                }
            }
        }
        out
    }

    fn run_replays<V: DeserializeOwned + Serialize + Debug>(
        &self,
        stage: &str,
        test: &(dyn Fn(&V, &Stats) -> CaseResult + Sync),
    ) -> u64 {
        let mut n = 0;
        for (p, case) in self.committed_replays(stage) {
            match serde_json::from_value::<V>(case) {
                Ok(v) => {
                    n += 1;
                    self.replay_seen.store(2, Ordering::Relaxed);
                    self.stats.class("replayed");
                    let r = guarded(|| test(&v, &self.stats)).and_then(|r| r);
                    if let Err(f) = r {
                        if !self.is_known(&f) {
                            let mut f = f;
                            f.msg = format!("(replay of {}) {}", p.display(), f.msg);
                            self.violation(stage, &f, &v);
                        }
                    } else if self.is_replay() {
                        eprintln!("replay {} passed", p.display());
                    }
                }
                Err(e) => self.infra_error(format!("cannot decode replay {}: {e}", p.display())),
            }
        }
        n
    }

    // -----------------------------------------------------------------------------------------
    /// Property stage over a proptest strategy. `cases` is the total over all shards.
    pub fn prop_stage<S, F>(&self, stage: &str, iso: Isolation, cases: u64, mk: impl Fn() -> S + Sync, test: F)
    where
        S: Strategy,
        S::Value: Serialize + DeserializeOwned + Debug + Clone,
        F: Fn(&S::Value, &Stats) -> CaseResult + Sync,
    {
        self.stage_impl::<S::Value, _>(stage, iso, cases, &test, |shard, nshards, spec| {
            let per = cases / nshards + u64::from(shard < cases % nshards);
            let mut runner = TestRunner::new_with_rng(
                Config { failure_persistence: None, ..Config::default() },
                TestRng::from_seed(RngAlgorithm::ChaCha, &self.stage_seed(stage, shard)),
            );
            let strat = mk();
            let mut i = 0u64;
            while i < per {
                let mut tree = match strat.new_tree(&mut runner) {
                    Ok(t) => t,
                    Err(e) => {
                        self.infra_error(format!("stage {stage}: generator rejected: {e}"));
                        return;
                    }
                };
                let idx = i;
                i += 1;
                if let Some(s) = spec {
                    if idx < s.start || s.only.map(|o| o != idx).unwrap_or(false) {
                        continue;
                    }
                    s.inflight(idx);
                }
                let v = tree.current();
                if spec.and_then(|s| s.only).is_some() {
                    spec.unwrap().dump_case(&v);
                }
                self.stats.eval();
                let r = guarded(|| test(&v, &self.stats)).and_then(|r| r);
                if let Err(f) = r {
                    if self.is_known(&f) {
                        continue;
                    }
                    // development aid (census of failure sites): record without shrinking and keep going
                    if std::env::var("VERIF_CENSUS").is_ok() {
                        self.violation(stage, &f, &v);
                        continue;
                    }
                    // shrink (statistics frozen for this shard's remaining executions)
                    set_frozen(true);
                    let mut best = (v, f);
                    let mut iters = 0;
                    if tree.simplify() {
                        loop {
                            iters += 1;
                            if iters > 400 {
                                break;
                            }
                            let c = tree.current();
                            let r = guarded(|| test(&c, &self.stats)).and_then(|r| r);
                            match r {
                                Err(f2) if self.known_match(&f2.sig).is_none() => {
                                    best = (c, f2);
                                    if !tree.simplify() {
                                        break;
                                    }
                                }
                                _ => {
                                    if !tree.complicate() {
                                        break;
                                    }
                                }
                            }
                        }
                    }
                    set_frozen(false);
                    let mut f = best.1;
                    f.msg = format!("{} [case #{idx} of shard {shard}, shrunk in {iters} steps]", f.msg);
                    self.violation(stage, &f, &best.0);
                    return; // this shard stops at its first violation
                }
                if spec.and_then(|s| s.only).is_some() {
                    return;
                }
            }
        });
    }

    /// Enumeration stage: case i = `make(i)` for i in 0..count (sharded i mod nshards). No shrinking.
    pub fn index_stage<V, F>(&self, stage: &str, iso: Isolation, count: u64, make: impl Fn(u64) -> V + Sync, test: F)
    where
        V: Serialize + DeserializeOwned + Debug + Clone,
        F: Fn(&V, &Stats) -> CaseResult + Sync,
    {
        self.stage_impl::<V, _>(stage, iso, count, &test, |shard, nshards, spec| {
            let mut seen: BTreeSet<String> = BTreeSet::new();
            let mut i = shard;
            while i < count {
                let idx = i;
                i += nshards;
                if let Some(s) = spec {
                    if idx < s.start || s.only.map(|o| o != idx).unwrap_or(false) {
                        continue;
                    }
                    s.inflight(idx);
                }
                let v = make(idx);
                if spec.and_then(|s| s.only).is_some() {
                    spec.unwrap().dump_case(&v);
                }
                self.stats.eval();
                let r = guarded(|| test(&v, &self.stats)).and_then(|r| r);
                if let Err(mut f) = r {
                    if !self.is_known(&f) && seen.insert(f.sig.clone()) {
                        f.msg = format!("{} [enumeration index {idx}]", f.msg);
                        self.violation(stage, &f, &v);
                        if seen.len() >= 5 {
                            return;
                        }
                    }
                }
            }
        });
    }

    fn stage_impl<V, F>(
        &self,
        stage: &str,
        iso: Isolation,
        cases: u64,
        test: &F,
        body: impl Fn(u64, u64, Option<&WorkerSpec>) + Sync,
    ) where
        V: Serialize + DeserializeOwned + Debug,
        F: Fn(&V, &Stats) -> CaseResult + Sync,
    {
        // development aid (never set by registered commands): run a single stage
        if let Ok(only) = std::env::var("VERIF_ONLY_STAGE") {
            if only != stage && self.worker.is_none() {
                return;
            }
        }
        // worker child: run only our shard of the named stage
        if let Some(w) = &self.worker {
            if w.stage != stage {
                return;
            }
            guard::install_cpu_alarm(&w.outdir.join(format!("hang.{}", w.shard)));
            body(w.shard, w.nshards, Some(w));
            guard::arm_cpu(0);
            let out = json!({"stats": self.stats.export(), "violations": *self.violations.lock().unwrap(),
                "known_hits": *self.known_hits.lock().unwrap(), "infra": *self.infra_errors.lock().unwrap()});
            let _ = std::fs::write(w.outdir.join(format!("result.{}.{}", w.shard, w.start)), serde_json::to_vec(&out).unwrap());
            std::process::exit(0);
        }
        let t0 = Instant::now();
        let before = self.stats.evaluations.load(Ordering::Relaxed);
        let nrep = self.run_replays::<V>(stage, test);
        if self.is_replay() {
            return;
        }
        let nshards = (self.threads as u64).min(cases.max(1));
        match iso {
            Isolation::Threads => {
                std::thread::scope(|s| {
                    for shard in 0..nshards {
                        let body = &body;
                        std::thread::Builder::new()
                            .stack_size(64 << 20)
                            .spawn_scoped(s, move || body(shard, nshards, None))
                            .unwrap();
                    }
                });
            }
            Isolation::Procs => self.run_procs(stage, nshards),
        }
        let done = self.stats.evaluations.load(Ordering::Relaxed) - before;
        self.stages.lock().unwrap().push(json!({"stage": stage, "cases": done, "replayed": nrep,
            "isolation": format!("{iso:?}"), "wall_s": t0.elapsed().as_secs_f64()}));
        eprintln!("[{}] stage {stage}: {done} cases in {:.1}s", self.id, t0.elapsed().as_secs_f64());
    }

    fn run_procs(&self, stage: &str, nshards: u64) {
        let exe = std::env::current_exe().unwrap();
        let outdir = verif_dir().join("harness/target/tmp").join(format!("{}-{}-{}", self.id, std::process::id(), stage.replace('/', "_")));
        let _ = std::fs::remove_dir_all(&outdir);
        std::fs::create_dir_all(&outdir).unwrap();
        let cpu_secs: i64 = std::env::var("VERIF_CPU_SECS").ok().and_then(|s| s.parse().ok()).unwrap_or(20);
        let spawn = |shard: u64, start: u64, only: Option<u64>, cpu: i64| {
            let mut c = std::process::Command::new(&exe);
            c.args(["--tier", if self.tier == Tier::Quick { "quick" } else { "thorough" }])
                .args(["--seed", &self.seed.to_string()])
                .args(["--worker-stage", stage, "--shard", &shard.to_string(), "--nshards", &nshards.to_string()])
                .args(["--start", &start.to_string(), "--cpu-secs", &cpu.to_string()])
                .args(["--outdir", outdir.to_str().unwrap()])
                .args(["--threads", &self.threads.to_string()]);
            if let Some(o) = only {
                c.args(["--only", &o.to_string()]);
            }
            c.stdout(std::process::Stdio::null());
            c.spawn().expect("spawn worker")
        };
        std::thread::scope(|s| {
            for shard in 0..nshards {
                let spawn = &spawn;
                let outdir = &outdir;
                s.spawn(move || {
                    let mut start = 0u64;
                    let mut deaths = 0;
                    loop {
                        let st = spawn(shard, start, None, cpu_secs).wait().expect("wait worker");
                        let res = outdir.join(format!("result.{shard}.{start}"));
                        if st.success() && res.exists() {
                            if let Ok(v) = serde_json::from_slice::<Value>(&std::fs::read(&res).unwrap()) {
                                self.merge_worker(&v);
                            }
                            return;
                        }
                        // died: crash, abort, stack overflow or CPU budget
                        deaths += 1;
                        let idx = std::fs::read(outdir.join(format!("inflight.{shard}")))
                            .ok()
                            .and_then(|b| b.get(..8).map(|b| u64::from_le_bytes(b.try_into().unwrap())));
                        let Some(idx) = idx else {
                            self.infra_error(format!("worker {shard} of stage {stage} died ({st}) before its first case"));
                            return;
                        };
                        self.stats.evals(idx.saturating_sub(start)); // lower bound of what it executed
                        let hang_file = outdir.join(format!("hang.{shard}"));
                        let was_hang = st.code() == Some(3);
                        let site = std::fs::read_to_string(&hang_file).unwrap_or_default();
                        let _ = std::fs::remove_file(&hang_file);
                        // confirm alone in a fresh process (hangs: 5x budget), which also dumps the case
                        let st2 = spawn(shard, idx, Some(idx), if was_hang { cpu_secs * 5 } else { cpu_secs }).wait().expect("wait");
                        let case: Value = std::fs::read(outdir.join(format!("case.{shard}")))
                            .ok()
                            .and_then(|b| serde_json::from_slice(&b).ok())
                            .unwrap_or(Value::Null);
                        let site2 = std::fs::read_to_string(&hang_file).unwrap_or(site.clone());
                        let _ = std::fs::remove_file(outdir.join(format!("result.{shard}.{idx}")));
                        if st2.success() {
                            if was_hang {
                                self.stats.class("slow_cases");
                            } else {
                                self.infra_error(format!("worker {shard} stage {stage} died at case {idx} ({st}) but the case passes alone"));
                            }
                        } else {
                            let f = if st2.code() == Some(3) {
                                Fail::new(format!("hang|{}", site2.trim()), format!("case exceeded {}s CPU (and {}s alone); spinning in {}", cpu_secs, cpu_secs * 5, site2.trim()))
                            } else {
                                Fail::new(format!("crash|{st2}"), format!("worker process died ({st2}) on this case (first run: {st}) — abort / stack overflow"))
                            };
                            if !self.is_known(&f) {
                                self.violation(stage, &f, &case);
                                // like a failing proptest shard: stop this shard at its first (unlisted) violation, so
                                // that a defect hit by many cases costs one CPU budget per shard, not one per case
                                return;
                            }
                        }
                        start = idx + 1;
                        if deaths > 50 {
                            self.infra_error(format!("worker {shard} of stage {stage}: too many deaths, shard abandoned at {start}"));
                            return;
                        }
                    }
                });
            }
        });
        let _ = std::fs::remove_dir_all(&outdir);
    }

    fn merge_worker(&self, v: &Value) {
        self.stats.import(&v["stats"]);
        if let Ok(vs) = serde_json::from_value::<Vec<Violation>>(v["violations"].clone()) {
            let mut mine = self.violations.lock().unwrap();
            for x in vs {
                if !mine.iter().any(|m| m.sig == x.sig && m.stage == x.stage) {
                    mine.push(x);
                }
            }
        }
        if let Some(o) = v["known_hits"].as_object() {
            let mut k = self.known_hits.lock().unwrap();
            for (s, n) in o {
                *k.entry(s.clone()).or_insert(0) += n.as_u64().unwrap_or(0);
            }
        }
        if let Some(a) = v["infra"].as_array() {
            for m in a {
                self.infra_errors.lock().unwrap().push(m.as_str().unwrap_or("").to_string());
            }
        }
    }

    /// Sequential custom stage (threads, timing, evidence entry); skipped in worker/replay mode.
    pub fn custom_stage(&self, stage: &str, f: impl FnOnce(&Stats)) {
        if self.is_worker() || self.is_replay() {
            return;
        }
        let t0 = Instant::now();
        let before = self.stats.evaluations.load(Ordering::Relaxed);
        f(&self.stats);
        let done = self.stats.evaluations.load(Ordering::Relaxed) - before;
        self.stages.lock().unwrap().push(json!({"stage": stage, "cases": done, "wall_s": t0.elapsed().as_secs_f64()}));
        eprintln!("[{}] stage {stage}: {done} cases in {:.1}s", self.id, t0.elapsed().as_secs_f64());
    }

    /// Only count overflow/assertion panics as failures (C20); used by the totality drivers.
    pub fn set_strict_sigs(&mut self, on: bool) {
        self.strict_only_sigs = on;
    }
    pub fn strict_sigs(&self) -> bool {
        self.strict_only_sigs
    }

    /// Write evidence, print verdict lines, exit.
    pub fn finish(self) -> ! {
        if self.is_worker() {
            std::process::exit(0);
        }
        if self.is_replay() && self.replay_seen.load(Ordering::Relaxed) != 2 {
            self.infra_error("--replay: no stage of this check accepted the replay file (wrong property/stage, or unreadable)".into());
        }
        let viol = self.violations.lock().unwrap().clone();
        let hits = self.known_hits.lock().unwrap().clone();
        let infra = self.infra_errors.lock().unwrap().clone();
        if !self.is_replay() {
            let stats = &self.stats;
            let mut cov = serde_json::Map::new();
            cov.insert("evaluations".into(), json!(stats.evaluations.load(Ordering::Relaxed)));
            cov.insert("distinct_nontrivial".into(), json!(stats.nontrivial.lock().unwrap().len()));
            cov.insert("rule".into(), json!(*self.rule.lock().unwrap()));
            cov.insert("samples".into(), json!(*stats.samples.lock().unwrap()));
            cov.insert("classes".into(), json!(*stats.classes.lock().unwrap()));
            cov.insert("stages".into(), json!(*self.stages.lock().unwrap()));
            cov.insert("known_findings_hit".into(), json!(hits));
            for (k, v) in self.notes.lock().unwrap().iter() {
                cov.insert(k.clone(), v.clone());
            }
            let ev = json!({
                "property_id": self.id,
                "tier": if self.tier == Tier::Quick { "quick" } else { "thorough" },
                "seed": self.seed as i64,
                "level": *self.level.lock().unwrap(),
                "coverage": Value::Object(cov),
                "assumptions": *self.assumptions.lock().unwrap(),
                "wall_s": self.start.elapsed().as_secs_f64(),
                "violations": viol.len(),
                "violation_list": viol.iter().map(|v| json!({"stage": v.stage, "sig": v.sig, "replay": v.replay, "msg": v.msg.chars().take(400).collect::<String>()})).collect::<Vec<_>>(),
                "infra_errors": infra,
            });
            let dir = verif_dir().join("evidence");
            let _ = std::fs::create_dir_all(&dir);
            let path = dir.join(format!("{}.json", self.id));
            std::fs::write(&path, serde_json::to_string_pretty(&ev).unwrap()).expect("write evidence");
        }
        for k in &self.known {
            if let Some(n) = hits.get(&k.sig) {
                println!("KNOWN-FINDING: property={} {} [{} cases; sig {}]", self.id, k.what, n, k.sig);
            }
        }
        for v in viol.iter().take(12) {
            println!("VIOLATION property={} replay={}", self.id, v.replay);
        }
        if viol.len() > 12 {
            eprintln!("({} further violations listed in the evidence file / replay_out)", viol.len() - 12);
        }
        let code = if !viol.is_empty() {
            1
        } else if !infra.is_empty() {
            2
        } else {
            0
        };
        eprintln!(
            "[{}] {} evaluations, {} distinct non-trivial, {} violations, {:.1}s",
            self.id,
            self.stats.evaluations.load(Ordering::Relaxed),
            self.stats.nontrivial.lock().unwrap().len(),
            viol.len(),
            self.start.elapsed().as_secs_f64()
        );
        std::process::exit(code);
    }
}

impl WorkerSpec {
    fn inflight(&self, idx: u64) {
        use std::io::{Seek, SeekFrom, Write};
        thread_local! { static F: std::cell::RefCell<Option<std::fs::File>> = const { std::cell::RefCell::new(None) }; }
        F.with(|f| {
            let mut f = f.borrow_mut();
            if f.is_none() {
                *f = std::fs::File::create(self.outdir.join(format!("inflight.{}", self.shard))).ok();
            }
            if let Some(f) = f.as_mut() {
                let _ = f.seek(SeekFrom::Start(0));
                let _ = f.write_all(&idx.to_le_bytes());
            }
        });
        guard::arm_cpu(self.cpu_secs);
    }
    fn dump_case<V: Serialize>(&self, v: &V) {
        let _ = std::fs::write(self.outdir.join(format!("case.{}", self.shard)), serde_json::to_vec(v).unwrap_or_default());
    }
}

pub fn truncate_debug<T: Debug>(v: &T, n: usize) -> String {
    let s = format!("{v:?}");
    if s.len() > n {
        format!("{}… ({} chars)", s.chars().take(n).collect::<String>(), s.len())
    } else {
        s
    }
}

pub fn path_exists(p: &Path) -> bool {
    p.exists()
}
