//! Running untrusted cases: panic capture (site = file + source line text + message prefix),
//! CPU-time budget with hang-site capture (SIGVTALRM), used by worker subprocesses.
use std::cell::RefCell;
use std::panic::{catch_unwind, AssertUnwindSafe};
use std::sync::atomic::{AtomicBool, Ordering};
use std::sync::Once;

#[derive(Clone, Debug, Default)]
pub struct PanicInfo {
    pub file: String,
    pub line: u32,
    pub msg: String,
}

thread_local! {
    static LAST: RefCell<Option<PanicInfo>> = const { RefCell::new(None) };
    static QUIET: RefCell<bool> = const { RefCell::new(true) };
}
static HOOK: Once = Once::new();
static VERBOSE: AtomicBool = AtomicBool::new(false);

pub fn install_hook() {
    HOOK.call_once(|| {
        if std::env::var("VERIF_VERBOSE_PANICS").is_ok() {
            VERBOSE.store(true, Ordering::Relaxed);
        }
        let prev = std::panic::take_hook();
        std::panic::set_hook(Box::new(move |info| {
            let (file, line) = info
                .location()
                .map(|l| (l.file().to_string(), l.line()))
                .unwrap_or_default();
            let msg = if let Some(s) = info.payload().downcast_ref::<&str>() {
                s.to_string()
            } else if let Some(s) = info.payload().downcast_ref::<String>() {
                s.clone()
            } else {
                "<non-string payload>".to_string()
            };
            let quiet = QUIET.with(|q| *q.borrow());
            LAST.with(|l| {
                let mut l = l.borrow_mut();
                // keep the FIRST panic since the last reset (innermost cause, not panics-in-drop)
                if l.is_none() {
                    *l = Some(PanicInfo { file, line, msg });
                }
            });
            if !quiet || VERBOSE.load(Ordering::Relaxed) {
                prev(info);
            }
        }));
    });
}

/// Run `f`, converting a panic into `Err(PanicInfo)`.
pub fn catch<T>(f: impl FnOnce() -> T) -> Result<T, PanicInfo> {
    install_hook();
    LAST.with(|l| *l.borrow_mut() = None);
    match catch_unwind(AssertUnwindSafe(f)) {
        Ok(v) => Ok(v),
        Err(_) => Err(LAST.with(|l| l.borrow_mut().take()).unwrap_or_default()),
    }
}

/// Path relative to the repository root (panic locations of path dependencies are absolute).
pub fn rel_file(file: &str) -> String {
    let repo = crate::engine::repo_dir();
    let r = repo.to_string_lossy();
    file.strip_prefix(r.as_ref())
        .map(|s| s.trim_start_matches('/').to_string())
        .unwrap_or_else(|| file.to_string())
}

/// Trimmed text of the source line a panic points at (robust against line renumbering).
pub fn line_text(file: &str, line: u32) -> String {
    let p = if std::path::Path::new(file).is_absolute() {
        std::path::PathBuf::from(file)
    } else {
        crate::engine::repo_dir().join(file)
    };
    std::fs::read_to_string(p)
        .ok()
        .and_then(|s| s.lines().nth(line.saturating_sub(1) as usize).map(|l| l.trim().to_string()))
        .unwrap_or_default()
}

fn norm_msg(msg: &str) -> String {
    // first 48 chars with digits squashed so that e.g. index/len values do not split one site
    let mut out = String::new();
    let mut last_digit = false;
    for c in msg.chars().take(160) {
        if c.is_ascii_digit() {
            if !last_digit {
                out.push('#');
            }
            last_digit = true;
        } else {
            out.push(c);
            last_digit = false;
        }
        if out.len() >= 48 {
            break;
        }
    }
    out
}

impl PanicInfo {
    /// Signature identifying the panic *site*.
    pub fn sig(&self) -> String {
        format!(
            "panic|{}|{}|{}",
            rel_file(&self.file),
            line_text(&self.file, self.line),
            norm_msg(&self.msg)
        )
    }
    pub fn is_overflow_or_assert(&self) -> bool {
        let m = &self.msg;
        (m.starts_with("attempt to ") && m.contains("with overflow") && !m.contains("divide") && !m.contains("remainder"))
            || m.starts_with("assertion failed")
            || m.starts_with("assertion `")
            || m.contains("debug_assert")
    }
    pub fn in_repo(&self) -> bool {
        self.file.starts_with(crate::engine::repo_dir().to_string_lossy().as_ref())
    }
    pub fn describe(&self) -> String {
        format!("{}:{}: {}", rel_file(&self.file), self.line, self.msg.chars().take(200).collect::<String>())
    }
}

// ---------------------------------------------------------------------------------------------
// CPU-time budget (single-threaded worker processes only)

static mut HANG_FILE: Option<std::ffi::CString> = None;

extern "C" fn on_alarm(_sig: libc::c_int) {
    // Not async-signal-safe in the strict sense; the process is about to exit and is spinning in safe Rust.
    let bt = backtrace::Backtrace::new();
    let mut site: Option<String> = None;
    'outer: for f in bt.frames() {
        for s in f.symbols() {
            if let Some(n) = s.name() {
                let n = format!("{n:#}");
                let hit = [
                    "skrifa::",
                    "read_fonts::",
                    "write_fonts::",
                    "font_types::",
                    "klippa::",
                    "incremental_font_transfer::",
                    "shared_brotli_patch_decoder::",
                ]
                .iter()
                .any(|p| n.starts_with(p) || n.contains(&format!(" as {p}")) || n.contains(&format!("<{p}")));
                if hit {
                    site = Some(n);
                    break 'outer;
                }
            }
        }
    }
    let site = site.unwrap_or_else(|| "<outside crates under test>".into());
    #[allow(static_mut_refs)]
    unsafe {
        if let Some(p) = HANG_FILE.as_ref() {
            let fd = libc::open(p.as_ptr(), libc::O_WRONLY | libc::O_CREAT | libc::O_TRUNC, 0o644);
            if fd >= 0 {
                libc::write(fd, site.as_ptr() as *const libc::c_void, site.len());
                libc::close(fd);
            }
        }
        let m = format!("HANG-SITE {site}\n");
        libc::write(2, m.as_ptr() as *const libc::c_void, m.len());
        libc::_exit(3);
    }
}

pub fn install_cpu_alarm(hang_file: &std::path::Path) {
    #[allow(static_mut_refs)]
    unsafe {
        HANG_FILE = Some(std::ffi::CString::new(hang_file.to_string_lossy().as_bytes()).unwrap());
        libc::signal(libc::SIGVTALRM, on_alarm as *const () as usize);
    }
}

pub fn arm_cpu(secs: i64) {
    unsafe {
        let t = libc::itimerval {
            it_interval: libc::timeval { tv_sec: 0, tv_usec: 0 },
            it_value: libc::timeval { tv_sec: secs, tv_usec: 0 },
        };
        libc::setitimer(libc::ITIMER_VIRTUAL, &t, std::ptr::null_mut());
    }
}
