//! Independent sfnt container reader / writer (no read-fonts, no write-fonts): the C06 oracle and the
//! table splitter / re-assembler used by the byte mutators.
use std::collections::BTreeMap;

pub fn checksum(b: &[u8]) -> u32 {
    let mut s = 0u32;
    for c in b.chunks(4) {
        let mut w = [0u8; 4];
        w[..c.len()].copy_from_slice(c);
        s = s.wrapping_add(u32::from_be_bytes(w));
    }
    s
}

fn rd16(b: &[u8], o: usize) -> Option<usize> {
    b.get(o..o + 2).map(|s| u16::from_be_bytes([s[0], s[1]]) as usize)
}
fn rd32(b: &[u8], o: usize) -> Option<u32> {
    b.get(o..o + 4).map(|s| u32::from_be_bytes([s[0], s[1], s[2], s[3]]))
}

#[derive(Clone, Debug)]
pub struct Record {
    pub tag: [u8; 4],
    pub checksum: u32,
    pub offset: usize,
    pub length: usize,
}

/// Lenient split of a single-font sfnt into (tag, bytes) in directory order; tables out of bounds are clipped.
pub fn split_tables(data: &[u8]) -> Option<(u32, Vec<([u8; 4], Vec<u8>)>)> {
    let version = rd32(data, 0)?;
    if version == u32::from_be_bytes(*b"ttcf") {
        return None;
    }
    let n = rd16(data, 4)?;
    let mut out = vec![];
    for i in 0..n {
        let r = 12 + 16 * i;
        let tag: [u8; 4] = data.get(r..r + 4)?.try_into().ok()?;
        let off = rd32(data, r + 8)? as usize;
        let len = rd32(data, r + 12)? as usize;
        let end = off.saturating_add(len).min(data.len());
        let bytes = if off <= end { data[off..end].to_vec() } else { vec![] };
        out.push((tag, bytes));
    }
    Some((version, out))
}

/// Plain assembler: tables in the order given (sorted by tag for the directory), 4-byte aligned, checksums
/// filled in; does not touch `head`. Used to wrap mutated tables so that readers get past the directory.
pub fn assemble(version: u32, tables: &[([u8; 4], Vec<u8>)]) -> Vec<u8> {
    let mut sorted: Vec<&([u8; 4], Vec<u8>)> = tables.iter().collect();
    sorted.sort_by_key(|t| t.0);
    sorted.dedup_by_key(|t| t.0);
    let n = sorted.len();
    let mut out = Vec::new();
    out.extend_from_slice(&version.to_be_bytes());
    out.extend_from_slice(&(n as u16).to_be_bytes());
    let es = if n > 0 { (usize::BITS - 1 - n.leading_zeros()) as u16 } else { 0 };
    let sr = if n > 0 { (1u32 << es) * 16 } else { 0 };
    out.extend_from_slice(&(sr as u16).to_be_bytes());
    out.extend_from_slice(&es.to_be_bytes());
    out.extend_from_slice(&((n as u32 * 16).wrapping_sub(sr) as u16).to_be_bytes());
    let mut off = 12 + 16 * n;
    let mut body = Vec::new();
    for (tag, d) in &sorted {
        out.extend_from_slice(tag);
        out.extend_from_slice(&checksum(d).to_be_bytes());
        out.extend_from_slice(&(off as u32).to_be_bytes());
        out.extend_from_slice(&(d.len() as u32).to_be_bytes());
        body.extend_from_slice(d);
        while body.len() % 4 != 0 {
            body.push(0);
        }
        off = 12 + 16 * n + body.len();
    }
    out.extend_from_slice(&body);
    out
}

/// Strict check of a built font against the tag->bytes map it was built from (C06 oracle).
pub fn check_built(tables: &BTreeMap<[u8; 4], Vec<u8>>, out: &[u8]) -> Result<Vec<Record>, String> {
    if out.len() < 12 {
        return Err("file shorter than the sfnt header".into());
    }
    let n = rd16(out, 4).unwrap();
    if n != tables.len() {
        return Err(format!("numTables {n} != {}", tables.len()));
    }
    if n > 0 {
        let es = usize::BITS as usize - 1 - n.leading_zeros() as usize;
        let sr = (1usize << es) * 16;
        if rd16(out, 8) != Some(es) || rd16(out, 6) != Some(sr & 0xFFFF) || rd16(out, 10) != Some((n * 16 - sr) & 0xFFFF) {
            return Err(format!(
                "binary-search header fields wrong: searchRange {:?} entrySelector {:?} rangeShift {:?} for {n} tables",
                rd16(out, 6),
                rd16(out, 8),
                rd16(out, 10)
            ));
        }
    }
    if out.len() % 4 != 0 {
        return Err("file length not a multiple of 4".into());
    }
    if out.len() < 12 + 16 * n {
        return Err("directory truncated".into());
    }
    let mut prev: Option<[u8; 4]> = None;
    let mut spans = vec![];
    let mut recs = vec![];
    for i in 0..n {
        let r = 12 + 16 * i;
        let tag: [u8; 4] = out[r..r + 4].try_into().unwrap();
        if let Some(p) = prev {
            if p >= tag {
                return Err(format!("directory tags not strictly ascending at {i}"));
            }
        }
        prev = Some(tag);
        let cs = rd32(out, r + 4).unwrap();
        let off = rd32(out, r + 8).unwrap() as usize;
        let len = rd32(out, r + 12).unwrap() as usize;
        let Some(want) = tables.get(&tag) else {
            return Err(format!("unexpected tag {:?}", String::from_utf8_lossy(&tag)));
        };
        if off % 4 != 0 {
            return Err(format!("table {:?} not 4-byte aligned (offset {off})", String::from_utf8_lossy(&tag)));
        }
        if off < 12 + 16 * n || off.checked_add(len).map(|e| e > out.len()).unwrap_or(true) {
            return Err(format!("table {:?} span {off}+{len} out of bounds", String::from_utf8_lossy(&tag)));
        }
        let is_head = &tag == b"head" && len >= 12;
        let mut got = out[off..off + len].to_vec();
        if got.len() != want.len() {
            return Err(format!("table {:?} length {} != supplied {}", String::from_utf8_lossy(&tag), got.len(), want.len()));
        }
        if is_head {
            got[8..12].copy_from_slice(&want[8..12]);
        }
        if &got != want {
            return Err(format!("table {:?} bytes differ from what was supplied", String::from_utf8_lossy(&tag)));
        }
        let mut forsum = out[off..off + len].to_vec();
        if is_head {
            forsum[8..12].fill(0);
        }
        if checksum(&forsum) != cs {
            return Err(format!("directory checksum of {:?} is {cs:#x}, table sums to {:#x}", String::from_utf8_lossy(&tag), checksum(&forsum)));
        }
        let padded = (len + 3) & !3;
        if off + padded > out.len() {
            return Err(format!("table {:?} padding runs past the end of the file", String::from_utf8_lossy(&tag)));
        }
        if out[off + len..off + padded].iter().any(|b| *b != 0) {
            return Err(format!("padding after {:?} not zero", String::from_utf8_lossy(&tag)));
        }
        spans.push((off, off + padded));
        recs.push(Record { tag, checksum: cs, offset: off, length: len });
    }
    spans.sort();
    for w in spans.windows(2) {
        if w[0].1 > w[1].0 {
            return Err(format!("tables overlap: {:?} and {:?}", w[0], w[1]));
        }
    }
    if tables.get(b"head").map(|h| h.len() >= 12).unwrap_or(false) {
        let c = checksum(out);
        if c != 0xB1B0AFBA {
            return Err(format!("whole-file checksum {c:#x} != 0xB1B0AFBA"));
        }
    }
    Ok(recs)
}
