//! C03 — scaled and hinted outlines match FreeType for static fonts (differential against the FreeType build linked by
//! the repository's comparison tool, through that tool's own adapters and path normalisation).
use fauntlet::{Font, Hinting, HintingTarget, InstanceOptions, RegularizingPen};
use serde::{Deserialize, Serialize};
use skrifa::{outline::pen::PathElement, GlyphId};
use proptest::strategy::Strategy;
use vcore::*;
mod synth;
mod cffsynth;

#[derive(Clone, Debug, Serialize, Deserialize)]
struct Case {
    font: String,
    /// 0 unhinted, 1..=5 interpreter x {mono, normal, light, lcd, vertical lcd}, 6 autohinter (normal)
    mode: u8,
    /// 0 = unscaled (font units)
    ppem: u32,
}

fn mode_of(m: u8) -> Option<Hinting> {
    match m {
        0 => None,
        1 => Some(Hinting::Interpreter(HintingTarget::Mono)),
        2 => Some(Hinting::Interpreter(HintingTarget::Normal)),
        3 => Some(Hinting::Interpreter(HintingTarget::Light)),
        4 => Some(Hinting::Interpreter(HintingTarget::Lcd)),
        5 => Some(Hinting::Interpreter(HintingTarget::VerticalLcd)),
        _ => Some(Hinting::Auto(HintingTarget::Normal)),
    }
}
fn mode_kind(m: u8) -> &'static str {
    match m {
        0 => "unhinted",
        1..=5 => "interpreter",
        _ => "autohinter",
    }
}
fn ppem_class(p: u32) -> &'static str {
    match p {
        0 => "unscaled",
        1..=4 => "ppem<=4",
        5..=2000 => "ppem5..2000",
        _ => "ppem>2000",
    }
}

struct FontInfo {
    name: String,
    path: std::path::PathBuf,
    is_cff: bool,
    hinted: bool,
}

fn static_outline_fonts() -> Vec<FontInfo> {
    let mut out = vec![];
    for f in corpus::all_fonts().into_iter().chain(corpus::c03_regress_fonts()) {
        let Ok(font) = read_fonts::FontRef::new(&f.data) else { continue };
        use read_fonts::types::Tag;
        let has = |t: &[u8; 4]| font.table_data(Tag::new(t)).is_some();
        if has(b"fvar") {
            continue; // variable fonts are outside the property
        }
        let is_cff = has(b"CFF ");
        if !(has(b"glyf") || is_cff) {
            continue;
        }
        let hinted = is_cff || font.table_data(Tag::new(b"fpgm")).map(|d| d.len() > 0).unwrap_or(false) || font.table_data(Tag::new(b"prep")).map(|d| d.len() > 0).unwrap_or(false);
        out.push(FontInfo { name: f.name.clone(), path: f.path.clone(), is_cff, hinted });
    }
    out
}

/// combinations where skrifa differs from this FreeType build on the unchanged tree (DESIGN.md C03-F; found by the
/// VERIF_C03_SURVEY run over the full grid); excluded from the grid by construction (counted), reproduced by the
/// dedicated `known-discrepancies` stage so that the KNOWN-FINDING lines are printed
fn excluded(info: &FontInfo, mode: u8, ppem: u32) -> bool {
    // CFF hinting: FreeType's engine changes behaviour at the extremes, skrifa does not follow
    if info.is_cff && (1..=5).contains(&mode) && (ppem <= 4 || ppem > 2000) {
        return true;
    }
    // skrifa cannot load any glyph of this fixture ("offset out of bounds"), FreeType can
    if info.name == "charstring_path_ops.ttf" {
        return true;
    }
    false
}
/// per-glyph exclusions (same policy)
fn excluded_glyph(font: &str, mode: u8, gid: u32) -> bool {
    // FreeType 2.12.1 leaves these two glyphs unhinted
    font == "tthint_subset.ttf" && (1..=5).contains(&mode) && (gid == 1 || gid == 2)
}

fn test(fonts: &[FontInfo], c: &Case, stats: &Stats, agree: Option<&std::collections::BTreeSet<String>>, apply_exclusions: bool) -> CaseResult {
    let Some(info) = fonts.iter().find(|f| f.name == c.font) else {
        stats.class("font_not_in_corpus");
        return Ok(());
    };
    let Some(mut font) = Font::new(&info.path) else {
        return Err(Fail::new("c03|harness|font-load", format!("fauntlet cannot load {}", c.font)));
    };
    let mode = mode_of(c.mode);
    let opts = InstanceOptions::new(0, c.ppem, &[], mode);
    let Some((mut ft, mut sk)) = font.instantiate(&opts) else {
        stats.class("no_instance");
        return Ok(());
    };
    if !ft.is_scalable() {
        stats.class("not_scalable");
        return Ok(());
    }
    let n = sk.glyph_count();
    let mut bad: Vec<u32> = vec![];
    let mut first_msg = String::new();
    let mut compared = 0u64;
    let mut nontrivial = 0u64;
    for gid in 0..n {
        if c.mode == 6 {
            // the autohinter is compared only where the baseline agrees (frozen agreement set)
            match agree {
                Some(set) if set.contains(&c.font) => {}
                None if std::env::var("VERIF_C03_SURVEY").is_ok() => {}
                _ => continue,
            }
        }
        if apply_exclusions && excluded_glyph(&c.font, c.mode, gid as u32) {
            stats.class("excluded_known");
            continue;
        }
        let g = GlyphId::from(gid);
        let mut fo: Vec<PathElement> = vec![];
        let mut so: Vec<PathElement> = vec![];
        let fa = ft.outline(g, &mut RegularizingPen::new(&mut fo, c.ppem != 0));
        let sa = sk.outline(g, &mut RegularizingPen::new(&mut so, c.ppem != 0));
        let Some(fa) = fa else {
            stats.class("freetype_load_error");
            continue;
        };
        compared += 1;
        if !fo.is_empty() && (c.mode == 0 || info.hinted) {
            nontrivial += 1;
        }
        let mut why = None;
        match sa {
            Err(e) => why = Some(format!("skrifa error {e} where FreeType produced an outline")),
            Ok(sa) => {
                if fo != so {
                    let k = fo.iter().zip(so.iter()).position(|(a, b)| a != b).unwrap_or(fo.len().min(so.len()));
                    why = Some(format!("paths differ at command {k}: FreeType {:?} vs skrifa {:?} ({} vs {} commands)", fo.get(k), so.get(k), fo.len(), so.len()));
                } else if let Some(sa) = sa {
                    if sa != fa {
                        why = Some(format!("advance width differs: FreeType {fa} vs skrifa {sa}"));
                    }
                }
            }
        }
        if let Some(w) = why {
            if bad.is_empty() {
                first_msg = format!("glyph {gid}: {w}");
            }
            bad.push(gid as u32);
        }
    }
    stats.evals(compared);
    stats.class_n(&format!("glyph_comparisons:{}", mode_kind(c.mode)), compared);
    if nontrivial > 0 {
        stats.nontrivial(hash_json(c));
        stats.class_n("nontrivial_glyph_comparisons", nontrivial);
        if stats.want_sample() && hash_json(c) % 16 == 0 {
            stats.sample(serde_json::json!({"case": c, "glyphs_compared": compared}));
        }
    }
    if bad.is_empty() {
        return Ok(());
    }
    let gidclass = if bad.len() <= 4 { format!("gids={}", bad.iter().map(|g| g.to_string()).collect::<Vec<_>>().join(",")) } else { "many-glyphs".to_string() };
    Err(Fail::new(
        format!("c03|{}|{}|{}|{}", c.font, mode_kind(c.mode), ppem_class(c.ppem), gidclass),
        format!("{} of {} glyphs of {} differ from FreeType at mode {:?} ppem {}; first: {}", bad.len(), compared, c.font, mode, c.ppem, first_msg),
    ))
}

fn full_grid() -> Vec<u32> {
    let mut v: Vec<u32> = (1..=256).collect();
    v.extend((288..=1024).step_by(32));
    v.extend([1200, 1500, 1600, 1800, 2000]);
    v
}

fn main() {
    let ctx = Ctx::from_args("C03");
    ctx.set_rule("every static (no fvar) glyf or CFF font of the repository corpus + the vendored DejaVu/Liberation/FiraSans fonts x all glyphs x {font units; ppem grid: every integer 1..=256, 288..=1024 step 32, 1200, 1500, 1600, 1800, 2000 (thorough) / a seeded 40-size sample per font and mode (quick)} x {unhinted, interpreter x {mono, normal, light, LCD, vertical LCD}, autohinter (normal) on the frozen agreement fonts}; FreeType side and path normalisation through fauntlet's adapters (FreeTypeInstance, SkrifaInstance, RegularizingPen); oracle: exact equality of the regularised command streams and of the advance width where skrifa reports one. A case = (font, mode, ppem) comparing all glyphs; evaluations count glyph comparisons. Non-trivial: the case compared >= 1 glyph with a non-empty outline and (for hinted modes) the font carries fpgm/prep or CFF hints; distinct by (font, mode, ppem). Stage `synthetic-cff`: generated static OpenType/CFF fonts (4-9 glyphs; name-keyed or CID-keyed with two font DICTs; FontMatrix absent / 0.001 / 0.0005 with 2000 upem / 0.002 with 500 upem) whose Type 2 charstrings are valid by construction: optional width operand, 0-24 stems over hstem/vstem/hstemhm/vstemhm operators (sorted; ghost stems; overlapping stems; edges placed on blue-zone values), implied vstems before the first mask, cntrmask / hintmask with exact lengths before and inside contours, all 14 path operators with well-formed operand counts up to the 48-entry stack, contours left open / closed by a line / closed by a curve, every operand encoding incl. 16.16, any token range moved into local / global subroutines nested to depth 6 with Subr INDEX counts 0,1,2,5,9,106,107,108,300,1239..1242,2000,33899..33901,40000 and correctly biased numbers; Private DICTs with BlueValues / OtherBlues / FamilyBlues / FamilyOtherBlues, BlueScale / BlueShift / BlueFuzz, StdHW / StdVW / StemSnap, LanguageGroup, nominal / default width. Every glyph is compared with FreeType unhinted at three seeded sizes in 8..=200 ppem and in font units, and hinted (all five targets, two seeded sizes each in 8..=200): hinted comparison is complete, nothing is restricted to agreeing classes; a case is one font, non-trivial when at least one compared outline is non-empty, distinct by font. Stage `synthetic-cff-focus`: the same fonts with one of four constructs made frequent (FamilyBlues + FamilyOtherBlues near the font's zones; hintmask operators repeating the mask in effect; zero-length lines after a hintmask inside a contour; a minimised font with fractional stems below the baseline at its critical size).");
    ctx.assume("the oracle is the FreeType version built by freetype-sys as linked by fauntlet (2.12.1); listed discrepancies of the unchanged tree are excluded from the grid by construction and reproduced in a dedicated stage");
    ctx.assume("the autohinter is compared only on the frozen font list corpus/c03_auto_agree.json (fonts on which skrifa's autohinter agrees with this FreeType build at every grid size on the unchanged tree): FreeType 2.12.1's autohinter differs from the newer one skrifa ports on most other fonts, and the property restricts the autohinter to where the baseline agrees");
    ctx.assume("stage `synthetic` generates only programs whose result both engines define independently of what was loaded before: operands in range for the zone they are read through (tracked zp0-2 / rp0-2), twilight points written by glyph programs are re-initialised by each glyph program that uses the twilight zone (FreeType keeps them across glyphs), the control value program starts by putting twilight zone, storage and graphics state into the clean state (FreeType runs it twice for smooth targets without clearing), WCVTF in glyph programs only after a WCVTP of the same program (FreeType 2.12.1 writes the size's CVT otherwise), 32-bit-safe arithmetic, SDPVTL[perpendicular] only on points with distinct original positions, forward jumps only; see vft/src/synth.rs");
    ctx.assume("stage `synthetic-cff` stays inside what the Type 2 specification and both engines define: stem operators before the first moveto (hstem* before vstem*), masks as long as the declared stems need, every path operator after a moveto with a well-formed operand count, at most 46 operands on the stack, subroutine nesting <= 6, no seac-style endchar, no arithmetic / storage operators, advance widths come from hmtx; the FontMatrix variants keep the matrix consistent with head.unitsPerEm; see vft/src/cffsynth.rs");
    let fonts = static_outline_fonts();
    ctx.note("fonts", serde_json::json!(fonts.iter().map(|f| f.name.clone()).collect::<Vec<_>>()));
    let grid = full_grid();
    // frozen list of fonts on which skrifa's autohinter agrees with this FreeType build at every grid size on the
    // unchanged tree ("the auto-hinter where the baseline agrees"); produced by the survey run, reviewed, committed
    let agree: std::collections::BTreeSet<String> = std::fs::read_to_string(verif_dir().join("corpus/c03_auto_agree.json"))
        .ok()
        .and_then(|s| serde_json::from_str::<Vec<String>>(&s).ok())
        .unwrap_or_default()
        .into_iter()
        .collect();
    ctx.note("autohinter_agreement_fonts", serde_json::json!(agree));
    let mut cases: Vec<Case> = vec![];
    let mut excl = 0u64;
    for (fi, f) in fonts.iter().enumerate() {
        for mode in 0u8..=6 {
            if mode == 6 && !agree.contains(&f.name) {
                continue;
            }
            let mut sizes: Vec<u32> = if ctx.quick() {
                // seeded sample: 40 sizes per (font, mode), always including a small, a text and a large size
                let mut s = vec![[7u32, 9, 11, 12, 13][(mix(ctx.seed, fi as u64 * 7 + mode as u64) % 5) as usize], 16, [96u32, 128, 200, 512, 1000][(mix(ctx.seed ^ 5, fi as u64 * 7 + mode as u64) % 5) as usize]];
                let mut k = 0u64;
                while s.len() < 40 {
                    let p = grid[(mix(mix(ctx.seed, 0xC03), (fi as u64) << 16 | (mode as u64) << 8 | k) % grid.len() as u64) as usize];
                    k += 1;
                    if !s.contains(&p) {
                        s.push(p);
                    }
                }
                s
            } else {
                grid.clone()
            };
            if mode == 0 {
                sizes.push(0);
            }
            // very large fonts: thin the thorough grid to keep the tier within its budget
            for p in sizes {
                if excluded(f, mode, p) {
                    excl += 1;
                    continue;
                }
                cases.push(Case { font: f.name.clone(), mode, ppem: p });
            }
        }
    }
    ctx.excluded_known(excl);
    if std::env::var("VERIF_C03_SURVEY").is_ok() {
        // development aid: full grid without exclusions, mismatching ppems per (font, mode kind, gid class)
        let mut sgrid = grid.clone();
        sgrid.extend([2047, 2048, 3000, 4096]);
        let sgrid = &sgrid;
        let all: Vec<Case> = fonts.iter().flat_map(|f| (0u8..=6).flat_map(|m| sgrid.iter().map(move |p| (m, *p))).map(|(m, p)| Case { font: f.name.clone(), mode: m, ppem: p }).collect::<Vec<_>>()).collect();
        let map = std::sync::Mutex::new(std::collections::BTreeMap::<String, Vec<u32>>::new());
        ctx.index_stage("survey", Isolation::Threads, all.len() as u64, |i| all[i as usize].clone(), |c, s| {
            if let Err(f) = test(&fonts, c, s, None, false) {
                let parts: Vec<&str> = f.sig.split('|').collect();
                map.lock().unwrap().entry(format!("{} {} mode{} {}", parts[1], parts[2], c.mode, parts[4])).or_default().push(c.ppem);
            }
            Ok(())
        });
        for (k, mut v) in map.into_inner().unwrap() {
            v.sort();
            println!("SURVEY {k}: {} ppems: {:?}..{:?}", v.len(), &v[..v.len().min(6)], v.last());
        }
        ctx.finish();
    }
    ctx.index_stage("grid", Isolation::Threads, cases.len() as u64, |i| cases[i as usize].clone(), |c, s| test(&fonts, c, s, Some(&agree), true));
    // listed discrepancies: still reproduced, so that the KNOWN-FINDING lines are printed and anything else shows up
    let mut known: Vec<Case> = vec![];
    for f in &fonts {
        if f.name == "charstring_path_ops.ttf" {
            known.push(Case { font: f.name.clone(), mode: 0, ppem: 16 });
        } else if f.is_cff {
            for (mode, p) in [(2u8, 2u32), (2, 4), (2, 2047), (2, 2048), (4, 3000)] {
                known.push(Case { font: f.name.clone(), mode, ppem: p });
            }
        }
    }
    for (font, mode, p) in [("tthint_subset.ttf", 2u8, 16u32), ("tthint_subset.ttf", 1, 2), ("DejaVuSans.ttf", 2, 3000), ("material_icons_subset.ttf", 2, 2047)] {
        known.push(Case { font: font.to_string(), mode, ppem: p });
    }
    ctx.index_stage("known-discrepancies", Isolation::Threads, known.len() as u64, |i| known[i as usize].clone(), |c, s| test(&fonts, c, s, Some(&agree), false));
    // generated instructed fonts (valid glyph programs over a broad opcode set; composites with offsets, point anchors,
    // nesting and scales): reach what the frozen corpus does not use
    // (VERIF_C03_NO_EXCLUDE: development aid, runs the listed classes too)
    let no_exclude = std::env::var("VERIF_C03_NO_EXCLUDE").is_ok();
    ctx.prop_stage("synthetic", Isolation::Threads, ctx.n(60_000, 600_000), synth::strategy, |f: &synth::SynthFont, s| test_synth(f, s, !no_exclude));
    ctx.note("synthetic_instruction_classes", synth_class_note());
    // the listed discrepancies, reproduced on purpose (KNOWN-FINDING lines): the two composite-offset ones on generated
    // fonts, the interpreter ones on the minimised fonts that exposed them (excluded by construction from `synthetic`)
    ctx.prop_stage("synthetic-known", Isolation::Threads, ctx.n(300, 1000), || (synth::strategy(), 0usize..9).prop_map(|(mut f, k)| {
        if k >= 6 {
            return serde_json::from_str::<synth::SynthFont>(KNOWN_INTERPRETER_CASES[k - 6]).expect("literal case");
        }
        for comps in f.composites.iter_mut() {
            for c in comps.iter_mut() {
                c.by_points = false;
                c.scale_kind = 3;
                if c.offset_mode & 1 == 0 {
                    c.offset_mode = 1;
                }
            }
        }
        f
    }), |f: &synth::SynthFont, s| test_synth(f, s, false));
    // generated static CFF fonts (valid Type 2 charstrings by construction: stems, masks, every path operator, flex,
    // local / global subroutines with INDEX counts around the bias boundaries, blue zones): see vft/src/cffsynth.rs
    ctx.prop_stage("synthetic-cff", Isolation::Threads, ctx.n(30_000, 300_000), cffsynth::strategy, |f: &cffsynth::CffSynth, s| test_cff(f, s, !no_exclude));
    // four constructs on which skrifa once differed from FreeType (FamilyOtherBlues, repeated hintmask, zero-length
    // lines after a hintmask, stem-centre rounding), made frequent
    ctx.prop_stage("synthetic-cff-focus", Isolation::Threads, ctx.n(4_000, 16_000), || (cffsynth::strategy(), 0u8..4).prop_map(|(f, k)| cffsynth::focus(f, k)), |f: &cffsynth::CffSynth, s| test_cff(f, s, !no_exclude));
    ctx.finish();
}

fn test_cff_inner(f: &cffsynth::CffSynth, stats: &Stats, skip_known: bool, size_seed: u64) -> CaseResult {
    let built = cffsynth::build(f);
    let dir = verif_dir().join("harness/target/tmp/c03-synth-cff");
    static SERIAL: std::sync::atomic::AtomicU64 = std::sync::atomic::AtomicU64::new(0);
    let h = hash_json(f);
    let path = dir.join(format!("{}-m{}-{:016x}.otf", std::process::id(), SERIAL.fetch_add(1, std::sync::atomic::Ordering::Relaxed), h));
    std::fs::write(&path, &built.bytes).map_err(|e| Fail::new("c03|harness|tmp-write", e.to_string()))?;
    let r = compare_cff(&path, f, &built, size_seed, stats, skip_known);
    let _ = std::fs::remove_file(&path);
    r
}

fn test_cff(f: &cffsynth::CffSynth, stats: &Stats, skip_known: bool) -> CaseResult {
    let built = cffsynth::build(f);
    let dir = verif_dir().join("harness/target/tmp/c03-synth-cff");
    let _ = std::fs::create_dir_all(&dir);
    // unique per call: equal fonts may be under test in several threads at once (the file is memory-mapped)
    static SERIAL: std::sync::atomic::AtomicU64 = std::sync::atomic::AtomicU64::new(0);
    let h = hash_json(f);
    let path = dir.join(format!("{}-{}-{:016x}.otf", std::process::id(), SERIAL.fetch_add(1, std::sync::atomic::Ordering::Relaxed), h));
    std::fs::write(&path, &built.bytes).map_err(|e| Fail::new("c03|harness|tmp-write", e.to_string()))?;
    let r = compare_cff(&path, f, &built, h, stats, skip_known);
    let _ = std::fs::remove_file(&path);
    if let Err(e) = &r {
        // development aid: structural minimisation of the first failure (VERIF_C03_CFF_MIN=<out.json>)
        static ONCE: std::sync::atomic::AtomicBool = std::sync::atomic::AtomicBool::new(false);
        if let (Ok(out), false) = (std::env::var("VERIF_C03_CFF_MIN"), std::env::var("VERIF_C03_CFF_MIN_INNER").is_ok()) {
            if !ONCE.swap(true, std::sync::atomic::Ordering::SeqCst) {
                let sig = e.sig.clone();
                let quiet = Stats::default();
                let min = cffsynth::minimise(f, &|c| matches!(test_cff_inner(c, &quiet, skip_known, h), Err(x) if x.sig == sig));
                let msg = test_cff_inner(&min, &quiet, skip_known, h).err().map(|x| x.msg).unwrap_or_default();
                let _ = std::fs::write(&out, serde_json::to_string(&min).unwrap());
                let _ = std::fs::write(format!("{out}.otf"), cffsynth::build(&min).bytes);
                eprintln!("MINIMISED [{sig}] {msg}\n{}", cffsynth::listing(&min));
            }
        }
    }
    r
}

fn compare_cff(path: &std::path::Path, f: &cffsynth::CffSynth, built: &cffsynth::Built, h: u64, stats: &Stats, _skip_known: bool) -> CaseResult {
    let Some(mut font) = Font::new(path) else {
        return Err(Fail::new("c03|synthetic-cff|harness|font-not-loadable", "fauntlet cannot open the generated font".to_string()));
    };
    let mut compared = 0u64;
    let mut nonempty = 0u64;
    for mode in 0u8..=5 {
        // seeded sizes in 8..=200: three (+ font units) unhinted, two per hinted mode
        let sizes: Vec<u32> = if mode == 0 { (0..3).map(|k| 8 + (mix(h, k) % 193) as u32).chain([0]).collect() } else { (0..2).map(|k| 8 + (mix(h, mode as u64 * 16 + k) % 193) as u32).collect() };
        let sizes: Vec<u32> = sizes.into_iter().chain(f.ppems.iter().copied().filter(|p| (1..=2000).contains(p))).collect();
        // development aid: fixed sizes
        let sizes: Vec<u32> = match std::env::var("VERIF_C03_CFF_PPEM") {
            Ok(v) => v.split(',').filter_map(|x| x.parse().ok()).collect(),
            _ => sizes,
        };
        for &ppem in &sizes {
            let opts = InstanceOptions::new(0, ppem, &[], mode_of(mode));
            let Some((mut ft, mut sk)) = font.instantiate(&opts) else {
                return Err(Fail::new("c03|synthetic-cff|harness|no-instance", format!("no instance at mode {mode} ppem {ppem}")));
            };
            for gid in 0..built.num_glyphs {
                let g = GlyphId::from(gid);
                let mut fo: Vec<PathElement> = vec![];
                let mut so: Vec<PathElement> = vec![];
                let fa = ft.outline(g, &mut RegularizingPen::new(&mut fo, ppem != 0));
                let sa = sk.outline(g, &mut RegularizingPen::new(&mut so, ppem != 0));
                let facts = &built.facts[gid as usize];
                let class = if facts.masks > 0 { "hintmask" } else if facts.nh + facts.nv > 0 { "stems" } else { "no-hints" };
                let Some(fa) = fa else {
                    // valid by construction: FreeType must load every glyph
                    return Err(Fail::new(format!("c03|synthetic-cff|{}|freetype-load-error", mode_kind(mode)), format!("generated CFF font, glyph {gid}, mode {:?}, ppem {ppem}: FreeType cannot load the glyph (skrifa: {:?})", mode_of(mode), sa.map(|_| so.len()))));
                };
                compared += 1;
                if !fo.is_empty() {
                    nonempty += 1;
                }
                let mut why = None;
                match sa {
                    Err(e) => why = Some(format!("skrifa error {e} where FreeType produced an outline")),
                    Ok(sa) => {
                        if fo != so {
                            let k = fo.iter().zip(so.iter()).position(|(a, b)| a != b).unwrap_or(fo.len().min(so.len()));
                            why = Some(format!("paths differ at command {k}: FreeType {:?} vs skrifa {:?} ({} vs {} commands)", fo.get(k), so.get(k), fo.len(), so.len()));
                        } else if let Some(sa) = sa {
                            if sa != fa {
                                why = Some(format!("advance width differs: FreeType {fa} vs skrifa {sa}"));
                            }
                        }
                    }
                }
                if let Some(w) = why {
                    if std::env::var("VERIF_C03_DEBUG").is_ok() {
                        eprintln!("DEBUG mode {mode} ppem {ppem} gid {gid}: {w}\n   FT {fo:?}\n   SK {so:?}");
                        continue;
                    }
                    return Err(Fail::new(format!("c03|synthetic-cff|{}|{}", mode_kind(mode), class), format!("generated CFF font (upem {}, {} global subrs, local {:?}), glyph {gid}, mode {:?}, ppem {ppem}: {w}", built.upem, built.ng, built.nl, mode_of(mode))));
                }
            }
        }
    }
    stats.evals(compared);
    stats.class_n("cff_glyph_comparisons", compared);
    stats.class_n("cff_nonempty_glyph_comparisons", nonempty);
    // distribution
    stats.class(&format!("cff_gsubr_count:{}", built.ng));
    for n in &built.nl {
        stats.class(&format!("cff_lsubr_count:{n}"));
    }
    stats.class(["cff_matrix:none", "cff_matrix:0.001", "cff_matrix:0.0005/upem2000", "cff_matrix:0.002/upem500"][f.matrix as usize % 4]);
    if f.cid {
        stats.class(if f.fdsel3 { "cff_cid_fdselect3" } else { "cff_cid_fdselect0" });
    }
    for p in f.privs.iter().take(built.nl.len()) {
        stats.class(["cff_langgroup:absent", "cff_langgroup:0", "cff_langgroup:1"][p.lang_group as usize % 3]);
        if p.blues.is_empty() { stats.class("cff_no_blue_values"); }
        if !p.family_blues.is_empty() { stats.class("cff_family_blues"); }
        if p.blue_scale != 0 { stats.class("cff_blue_scale_set"); }
        if p.blue_shift.is_some() { stats.class("cff_blue_shift_set"); }
        if p.blue_fuzz.is_some() { stats.class("cff_blue_fuzz_set"); }
    }
    let mut kinds = 0u16;
    for x in &built.facts {
        kinds |= x.seg_kinds;
        stats.class(match x.nh + x.nv { 0 => "cff_glyph_stems:0", 1..=4 => "cff_glyph_stems:1-4", 5..=12 => "cff_glyph_stems:5-12", _ => "cff_glyph_stems:13-24" });
        stats.class_n("cff_hintmasks", x.masks as u64);
        stats.class_n("cff_cntrmasks", x.cntrmasks as u64);
        stats.class_n("cff_ghost_stems", x.ghosts as u64);
        stats.class_n("cff_overlapping_stems", x.overlaps as u64);
        stats.class_n("cff_stems_on_blue_zone", x.snapped as u64);
        stats.class_n("cff_callsubr", x.calls_l as u64);
        stats.class_n("cff_callgsubr", x.calls_g as u64);
        stats.class_n("cff_cuts_skipped", x.cuts_skipped as u64);
        stats.class_n("cff_hintmask_repeating_mask_in_effect", x.repeated_masks as u64);
        stats.class_n("cff_zero_length_lines_after_hintmask", x.zero_lines_after_mask as u64);
        stats.class_n("cff_hstems_with_odd_negative_centre", x.odd_midpoints as u64);
        stats.class_n("cff_contours_closed_by_curve_after_hintmask", x.closing_curves_after_mask as u64);
        stats.class_n("cff_zero_length_lines", x.zero_lines as u64);
        stats.class_n("cff_contours_closed_by_curve", x.closing_curves as u64);
        stats.class_n("cff_fixed_operands", x.fixed_nums as u64);
        if x.width { stats.class("cff_glyph_width_operand"); }
        if x.implied_v { stats.class("cff_glyph_implied_vstem"); }
        if x.stems_in_subr { stats.class("cff_glyph_hints_in_subr"); }
        stats.class(&format!("cff_glyph_subr_depth:{}", x.depth));
    }
    for k in 0..14 {
        if kinds & (1 << k) != 0 {
            stats.class(&format!("cff_font_uses:{}", cffsynth::SEG_NAMES[k]));
        }
    }
    if nonempty > 0 {
        stats.nontrivial(h);
        if stats.want_sample() && h % 64 == 0 {
            stats.sample(serde_json::json!({"glyphs": built.num_glyphs, "gsubrs": built.ng, "lsubrs": built.nl, "upem": built.upem, "cid": f.cid, "comparisons": compared}));
        }
    }
    Ok(())
}

/// minimised generated fonts, one per listed interpreter discrepancy (sigs `c03|synthetic|interpreter|*|<class>`)
const KNOWN_INTERPRETER_CASES: [&str; 3] = [
    // instctrl3
    r#"{"comp_programs":[{"flag_on_all":false,"ops":[{"Miap":{"c":0,"p":0,"r":false}}]}],"composites":[[{"a":1,"b":0,"by_points":false,"offset_mode":0,"round_to_grid":false,"scale":[0,-2,0,0],"scale_kind":0,"target":15,"use_my_metrics":false}]],"cvt":[],"fdefs":[],"prep":[],"simple":[{"advance":200,"contours":[[[0,0,false],[0,0,false],[0,0,false]]],"program":[{"InstCtrl":{"on":true,"sel":2}}]}],"tw_prep_owned":0,"twilight":4,"upem":1000}"#,
    // instctrl2
    r#"{"comp_programs":[],"composites":[],"cvt":[],"fdefs":[],"prep":[{"InstCtrl":{"on":true,"sel":1}},{"Smd":0}],"simple":[{"advance":200,"contours":[[[0,0,false],[0,0,false],[0,0,false],[0,0,false],[0,0,false],[0,0,false],[0,0,false]]],"program":[{"Mdrp":{"fl":8,"p":81}}]}],"tw_prep_owned":0,"twilight":4,"upem":1000}"#,
    // shz
    r#"{"comp_programs":[{"flag_on_all":false,"ops":[]},{"flag_on_all":false,"ops":[{"Miap":{"c":111,"p":244,"r":true}},{"Shz":{"a":true,"e":false}}]},{"flag_on_all":true,"ops":[]},{"flag_on_all":false,"ops":[]}],"composites":[[{"a":0,"b":0,"by_points":false,"offset_mode":0,"round_to_grid":false,"scale":[0,0,0,-3858],"scale_kind":0,"target":0,"use_my_metrics":false}],[{"a":0,"b":0,"by_points":false,"offset_mode":0,"round_to_grid":false,"scale":[0,-2805,30649,17857],"scale_kind":0,"target":0,"use_my_metrics":false}],[{"a":-84,"b":718,"by_points":false,"offset_mode":0,"round_to_grid":true,"scale":[-30801,-30368,-31852,12516],"scale_kind":0,"target":113,"use_my_metrics":false},{"a":4,"b":-42,"by_points":false,"offset_mode":0,"round_to_grid":true,"scale":[4794,-19481,31148,-25520],"scale_kind":1,"target":14,"use_my_metrics":false},{"a":-290,"b":-357,"by_points":false,"offset_mode":0,"round_to_grid":true,"scale":[-16665,15591,-28076,17554],"scale_kind":1,"target":194,"use_my_metrics":false}],[{"a":53,"b":249,"by_points":false,"offset_mode":2,"round_to_grid":true,"scale":[-32276,8722,16987,21652],"scale_kind":0,"target":240,"use_my_metrics":false},{"a":699,"b":-181,"by_points":true,"offset_mode":0,"round_to_grid":false,"scale":[-1191,31826,16868,25667],"scale_kind":1,"target":193,"use_my_metrics":false},{"a":-346,"b":514,"by_points":true,"offset_mode":0,"round_to_grid":false,"scale":[7735,7074,4278,8556],"scale_kind":1,"target":123,"use_my_metrics":true}]],"cvt":[],"fdefs":[],"prep":[],"simple":[{"advance":200,"contours":[[[0,0,false],[0,0,false],[0,0,false]]],"program":[]},{"advance":200,"contours":[[[0,0,false],[0,0,false],[0,0,false]]],"program":[]}],"tw_prep_owned":231,"twilight":10,"upem":1000}"#,
];

static SYNTH_CLASSES: std::sync::Mutex<std::collections::BTreeMap<(&'static str, u8), u64>> = std::sync::Mutex::new(std::collections::BTreeMap::new());

/// instruction kinds the generated programs contained, by the zone pointers in effect (T = twilight, G = glyph zone)
fn synth_class_note() -> serde_json::Value {
    let acc = SYNTH_CLASSES.lock().unwrap();
    let mut m = serde_json::Map::new();
    for ((name, code), v) in acc.iter() {
        let key = if *code == 0xFF {
            name.to_string()
        } else {
            let z = |b: u8| if code & b != 0 { 'G' } else { 'T' };
            format!("{name} zp0={} zp1={} zp2={}", z(1), z(2), z(4))
        };
        m.insert(key, serde_json::json!(v));
    }
    serde_json::Value::Object(m)
}

fn test_synth(f: &synth::SynthFont, stats: &Stats, skip_known: bool) -> CaseResult {
    let built = synth::build(f);
    let dir = verif_dir().join("harness/target/tmp/c03-synth");
    let _ = std::fs::create_dir_all(&dir);
    // unique per call: equal fonts may be under test in several threads at once (the file is memory-mapped)
    static SERIAL: std::sync::atomic::AtomicU64 = std::sync::atomic::AtomicU64::new(0);
    let path = dir.join(format!("{}-{}-{:016x}.ttf", std::process::id(), SERIAL.fetch_add(1, std::sync::atomic::Ordering::Relaxed), hash_json(f)));
    std::fs::write(&path, &built.bytes).map_err(|e| Fail::new("c03|harness|tmp-write", e.to_string()))?;
    let r = compare_synth(&path, f, &built, stats, skip_known);
    if r.is_err() {
        if let Ok(d) = std::env::var("VERIF_C03_KEEP_FONT") {
            let _ = std::fs::write(d, &built.bytes);
        }
    }
    let _ = std::fs::remove_file(&path);
    r
}

fn compare_synth(path: &std::path::Path, f: &synth::SynthFont, built: &synth::Built, stats: &Stats, skip_known: bool) -> CaseResult {
    let Some(mut font) = Font::new(path) else {
        stats.class("synthetic_font_not_loadable");
        return Ok(());
    };
    let h = hash_json(f);
    // sizes: 5 seeded sizes in 7..=64 plus one large
    let sizes: Vec<u32> = (0..5).map(|k| 7 + (mix(h, k) % 58) as u32).chain([96 + (mix(h, 9) % 300) as u32, 0]).collect();
    let mut compared = 0u64;
    for mode in 0u8..=5 {
        for &ppem in &sizes {
            if ppem == 0 && mode != 0 {
                continue;
            }
            let opts = InstanceOptions::new(0, ppem, &[], mode_of(mode));
            let Some((mut ft, mut sk)) = font.instantiate(&opts) else {
                stats.class("synthetic_no_instance");
                continue;
            };
            for gid in 0..built.num_glyphs {
                let g = GlyphId::from(gid);
                let feat = built.feature.get(gid as usize).copied().unwrap_or(0);
                let kn = synth::known_for_mode(built.known.get(gid as usize).copied().unwrap_or(0) | built.known_font, mode);
                if skip_known && (feat != 0 || kn != 0) {
                    // listed discrepancy (component offset flags + transform): excluded here, reproduced by `synthetic-known`
                    stats.class("excluded_known");
                    stats.class(if feat != 0 { "excluded_known:composite-offset-flags" } else { synth::known_sig(kn) });
                    continue;
                }
                let mut fo: Vec<PathElement> = vec![];
                let mut so: Vec<PathElement> = vec![];
                let fa = ft.outline(g, &mut RegularizingPen::new(&mut fo, ppem != 0));
                let sa = sk.outline(g, &mut RegularizingPen::new(&mut so, ppem != 0));
                let Some(fa) = fa else {
                    stats.class("synthetic_freetype_load_error");
                    continue;
                };
                compared += 1;
                let is_comp = gid as usize > f.simple.len();
                let what = if is_comp { "composite" } else { "simple" };
                let mut why = None;
                match sa {
                    Err(e) => why = Some(format!("skrifa error {e} where FreeType produced an outline")),
                    Ok(sa) => {
                        if fo != so {
                            let k = fo.iter().zip(so.iter()).position(|(a, b)| a != b).unwrap_or(fo.len().min(so.len()));
                            why = Some(format!("paths differ at command {k}: FreeType {:?} vs skrifa {:?}", fo.get(k), so.get(k)));
                        } else if let Some(sa) = sa {
                            if sa != fa {
                                why = Some(format!("advance width differs: FreeType {fa} vs skrifa {sa}"));
                            }
                        }
                    }
                }
                if let Some(w) = why {
                    if std::env::var("VERIF_C03_DEBUG").is_ok() {
                        eprintln!("DEBUG mode {mode} ppem {ppem} gid {gid}: {w}\n   FT {fo:?}\n   SK {so:?}");
                        continue;
                    }
                    return Err(Fail::new(
                        format!("c03|synthetic|{}|{}|{}", mode_kind(mode), what, if feat != 0 { ["plain", "scaled-offset-with-transform", "both-offset-flags-with-transform"][feat as usize % 3] } else { synth::known_sig(kn) }),
                        format!("generated font, glyph {gid} ({what}), mode {:?}, ppem {ppem}: {w}", mode_of(mode)),
                    ));
                }
            }
        }
    }
    stats.evals(compared);
    stats.class_n("synthetic_glyph_comparisons", compared);
    {
        let mut acc = SYNTH_CLASSES.lock().unwrap();
        for (k, v) in &built.classes {
            *acc.entry(*k).or_insert(0) += *v as u64;
        }
    }
    if built.anchored_nested_nonfirst {
        stats.class("synthetic_anchored_composite_as_non_first_component");
    }
    if built.comp_instructions {
        stats.class("synthetic_composite_instructions");
    }
    stats.class(["synthetic_depth0", "synthetic_depth1", "synthetic_depth2", "synthetic_depth3", "synthetic_depth4"][built.max_depth.min(4) as usize]);
    if built.has_point_anchor_nested {
        stats.class("synthetic_nested_point_anchor");
    }
    if !f.composites.is_empty() {
        stats.class("synthetic_with_composites");
    }
    stats.nontrivial(h);
    Ok(())
}
