fn main(){}
