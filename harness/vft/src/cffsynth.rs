//! C03 stage `synthetic-cff`: static CFF-flavoured OpenType fonts whose Type 2 charstrings are valid by construction
//! (operand counts, operator order, stem order, mask lengths, biased subroutine numbers, operand stack <= 48, nesting
//! depth <= 6). The CFF table is hand-encoded here (encoders after vtotal/src/cffgen.rs, which targets hostile inputs).
use proptest::prelude::*;
use serde::{Deserialize, Serialize};
use std::collections::{BTreeMap, BTreeSet};
use vcore::fontkit;

// ---------------------------------------------------------------------------------------------
// case model

/// charstring operand with its encoding
#[derive(Clone, Debug, Serialize, Deserialize, PartialEq)]
pub enum Num {
    /// integer, shortest encoding (1 byte -107..=107, 2 bytes to +-1131, else 3 bytes)
    I(i16),
    /// integer, always the 3-byte form (28 hi lo)
    W(i16),
    /// 16.16 fixed (255 + 4 bytes), raw bits
    F(i32),
}
impl Num {
    fn fx(&self) -> i64 {
        match self {
            Num::I(v) | Num::W(v) => (*v as i64) << 16,
            Num::F(b) => *b as i64,
        }
    }
    fn neg(&self) -> Num {
        match self {
            Num::I(v) => Num::I(v.checked_neg().unwrap_or(i16::MAX)),
            Num::W(v) => Num::W(v.checked_neg().unwrap_or(i16::MAX)),
            Num::F(b) => Num::F(b.checked_neg().unwrap_or(i32::MAX)),
        }
    }
    fn from_fx(v: i64) -> Num {
        if v & 0xFFFF == 0 && (-32000..=32000).contains(&(v >> 16)) {
            Num::I((v >> 16) as i16)
        } else {
            Num::F(v.clamp(i32::MIN as i64, i32::MAX as i64) as i32)
        }
    }
}

#[derive(Clone, Debug, Serialize, Deserialize, PartialEq)]
pub struct Stem {
    /// distance from the previous stem's far edge (first stem: from `start`); negative: overlapping
    pub gap: Num,
    pub width: Num,
    /// 0 ordinary, 1 ghost bottom (width -21), 2 ghost top (width -20)
    pub ghost: u8,
    /// put one edge on a blue-zone value (index raw, jitter, top edge) when that keeps the stems sorted
    pub snap: Option<(u8, i8, bool)>,
}

#[derive(Clone, Debug, Serialize, Deserialize, PartialEq)]
pub struct StemOp {
    /// hstemhm / vstemhm instead of hstem / vstem
    pub hm: bool,
    pub stems: Vec<Stem>,
}

/// one path operator: kind 0 rlineto 1 hlineto 2 vlineto 3 rrcurveto 4 hhcurveto 5 vvcurveto 6 hvcurveto 7 vhcurveto
/// 8 rcurveline 9 rlinecurve 10 flex 11 hflex 12 hflex1 13 flex1
#[derive(Clone, Debug, Serialize, Deserialize, PartialEq)]
pub struct Seg {
    pub kind: u8,
    /// repetitions (clamped to what the 48-entry operand stack allows)
    pub n: u8,
    /// hhcurveto / vvcurveto: leading operand; hvcurveto / vhcurveto: trailing operand
    pub extra: bool,
    /// operand pool, cycled
    pub vals: Vec<Num>,
    /// flex: depth operand in 1/100 pixel
    pub fd: i16,
    /// hintmask before this operator
    pub mask: Option<[u8; 4]>,
}

#[derive(Clone, Debug, Serialize, Deserialize, PartialEq)]
pub struct Contour {
    /// 0 rmoveto 1 hmoveto 2 vmoveto
    pub mv: u8,
    pub at: (Num, Num),
    pub segs: Vec<Seg>,
    /// 0 left open, 1 explicit closing rlineto to the start point, 2 closing rrcurveto ending on the start point
    pub close: u8,
    /// hintmask before the moveto
    pub mask: Option<[u8; 4]>,
}

#[derive(Clone, Debug, Serialize, Deserialize, PartialEq)]
pub struct Cut {
    pub start: u16,
    pub len: u8,
    pub global: bool,
    /// 0 slot 0, 1 last slot, 2 slot 107, 3 slot 1131, 4 slot = bias (operand 0), 5 slot 32768, else (raw * count) >> 16
    pub slot_sel: u8,
    pub slot_raw: u16,
    /// subroutine number in the 3-byte form
    pub wide: bool,
}

#[derive(Clone, Debug, Serialize, Deserialize, PartialEq)]
pub struct Glyph {
    pub fd: u8,
    pub advance: u16,
    pub width: Option<Num>,
    pub hstart: i16,
    pub vstart: i16,
    pub hstems: Vec<StemOp>,
    pub vstems: Vec<StemOp>,
    /// the last vstem operator is left out: its operands are taken by the first mask operator
    pub implied_v: bool,
    pub cntrmasks: Vec<[u8; 4]>,
    pub init_mask: Option<[u8; 4]>,
    pub contours: Vec<Contour>,
    pub cuts: Vec<Cut>,
}

#[derive(Clone, Debug, Serialize, Deserialize, PartialEq)]
pub struct Priv {
    /// (gap to the previous zone, height); first BlueValues pair is the baseline zone
    pub blues: Vec<(u8, u8)>,
    pub blue_base: i16,
    pub other_blues: Vec<(u8, u8)>,
    pub family_blues: Vec<(u8, u8)>,
    pub family_base: i16,
    pub family_other_blues: Vec<(u8, u8)>,
    /// 0 absent (default 0.039625), else index into BLUE_SCALES
    pub blue_scale: u8,
    pub blue_shift: Option<u8>,
    pub blue_fuzz: Option<u8>,
    pub std_hw: Option<u8>,
    pub std_vw: Option<u8>,
    pub snap_h: Vec<u8>,
    pub snap_v: Vec<u8>,
    /// 0 absent, 1 explicit 0, 2 explicit 1
    pub lang_group: u8,
    pub force_bold_zero: bool,
    pub widths: Option<(i16, i16)>,
    /// index into SUBR_COUNTS
    pub lsubr_count: u8,
}

#[derive(Clone, Debug, Serialize, Deserialize, PartialEq)]
pub struct CffSynth {
    /// 0: upem 1000, no FontMatrix; 1: upem 1000, explicit 0.001; 2: upem 2000, 0.0005; 3: upem 500, 0.002
    pub matrix: u8,
    pub cid: bool,
    pub fdsel3: bool,
    pub privs: Vec<Priv>,
    pub gsubr_count: u8,
    pub glyphs: Vec<Glyph>,
    pub off4: bool,
    /// extra sizes compared in every mode (literal cases of `synthetic-cff-focus`)
    #[serde(default)]
    pub ppems: Vec<u32>,
}

pub const SUBR_COUNTS: [usize; 18] = [0, 1, 2, 5, 9, 106, 107, 108, 300, 1239, 1240, 1241, 1242, 2000, 33899, 33900, 33901, 40000];
const BLUE_SCALES: [&str; 7] = ["0.039625", "0.03", "0.05", "0.0375", "0.0454545", "0.1", "0.02"];

// ---------------------------------------------------------------------------------------------
// encoders (after vtotal/src/cffgen.rs)

fn cs_int(out: &mut Vec<u8>, v: i32) {
    match v {
        -107..=107 => out.push((v + 139) as u8),
        108..=1131 => {
            let w = v - 108;
            out.push(247 + (w >> 8) as u8);
            out.push((w & 0xFF) as u8);
        }
        -1131..=-108 => {
            let w = -v - 108;
            out.push(251 + (w >> 8) as u8);
            out.push((w & 0xFF) as u8);
        }
        _ => {
            out.push(28);
            out.extend_from_slice(&(v.clamp(-32768, 32767) as i16).to_be_bytes());
        }
    }
}
fn cs_num(out: &mut Vec<u8>, n: &Num) {
    match n {
        Num::I(v) => cs_int(out, *v as i32),
        Num::W(v) => {
            out.push(28);
            out.extend_from_slice(&v.to_be_bytes());
        }
        Num::F(b) => {
            out.push(255);
            out.extend_from_slice(&b.to_be_bytes());
        }
    }
}
fn dict_int(out: &mut Vec<u8>, v: i32) {
    if (-1131..=1131).contains(&v) {
        cs_int(out, v);
    } else if (-32768..=32767).contains(&v) {
        out.push(28);
        out.extend_from_slice(&(v as i16).to_be_bytes());
    } else {
        out.push(29);
        out.extend_from_slice(&v.to_be_bytes());
    }
}
fn dict_long(out: &mut Vec<u8>, v: i32) {
    out.push(29);
    out.extend_from_slice(&v.to_be_bytes());
}
fn dict_real(out: &mut Vec<u8>, s: &str) {
    out.push(30);
    let mut nib: Vec<u8> = vec![];
    for c in s.bytes() {
        nib.push(match c {
            b'0'..=b'9' => c - b'0',
            b'.' => 0xA,
            b'-' => 0xE,
            _ => 0xD,
        });
    }
    nib.push(0xF);
    if nib.len() % 2 == 1 {
        nib.push(0xF);
    }
    for p in nib.chunks(2) {
        out.push((p[0] << 4) | p[1]);
    }
}
fn dict_op(out: &mut Vec<u8>, op: u16) {
    if op >= 0x0C00 {
        out.push(12);
    }
    out.push((op & 0xFF) as u8);
}
fn index(objs: &[Vec<u8>], off4: bool) -> Vec<u8> {
    let m: BTreeMap<usize, Vec<u8>> = objs.iter().cloned().enumerate().collect();
    index_sparse(objs.len(), &m, &[], off4)
}
/// INDEX of `n` objects: the listed ones, `filler` everywhere else
fn index_sparse(n: usize, real: &BTreeMap<usize, Vec<u8>>, filler: &[u8], off4: bool) -> Vec<u8> {
    let mut out = vec![];
    out.extend_from_slice(&(n.min(65535) as u16).to_be_bytes());
    if n == 0 {
        return out;
    }
    let total: usize = real.values().map(|o| o.len()).sum::<usize>() + (n - real.len()) * filler.len() + 1;
    let min = if total <= 0xFF {
        1
    } else if total <= 0xFFFF {
        2
    } else if total <= 0xFF_FFFF {
        3
    } else {
        4
    };
    let os = if off4 { 4 } else { min };
    out.push(os as u8);
    out.reserve(n * os + total + 8);
    let mut off = 1usize;
    out.extend_from_slice(&(off as u32).to_be_bytes()[4 - os..]);
    for i in 0..n {
        off += real.get(&i).map(|o| o.len()).unwrap_or(filler.len());
        out.extend_from_slice(&(off as u32).to_be_bytes()[4 - os..]);
    }
    for i in 0..n {
        out.extend_from_slice(real.get(&i).map(|o| o.as_slice()).unwrap_or(filler));
    }
    out
}
pub fn bias(count: usize) -> i32 {
    if count < 1240 {
        107
    } else if count < 33900 {
        1131
    } else {
        32768
    }
}

// ---------------------------------------------------------------------------------------------
// charstring construction

#[derive(Clone, Debug)]
enum Tok {
    Num(Num),
    Op(u8),
    Esc(u8),
    Mask(bool, Vec<u8>),
    /// global, slot, depth, wide
    Call(bool, usize, u8, bool),
}

fn operand_count(s: &Seg) -> (usize, usize) {
    // (repetitions used, operand count) within the stack budget (44 operands)
    let n = (s.n as usize).max(1);
    match s.kind {
        0 => (n.min(20), n.min(20) * 2),
        1 | 2 => (n.min(40), n.min(40)),
        3 => (n.min(7), n.min(7) * 6),
        4 | 5 => (n.min(10), n.min(10) * 4 + s.extra as usize),
        6 | 7 => (n.min(10), n.min(10) * 4 + s.extra as usize),
        8 => (n.min(6), n.min(6) * 6 + 2),
        9 => (n.min(18), n.min(18) * 2 + 6),
        10 => (1, 13),
        11 => (1, 7),
        12 => (1, 9),
        _ => (1, 11),
    }
}

/// total displacement (16.16) of a path operator with these operands
fn displacement(kind: u8, extra: bool, a: &[i64]) -> (i64, i64) {
    let (mut x, mut y) = (0i64, 0i64);
    match kind {
        0 | 3 | 8 | 9 => {
            for (i, v) in a.iter().enumerate() {
                if i % 2 == 0 {
                    x += v
                } else {
                    y += v
                }
            }
        }
        1 | 2 => {
            for (i, v) in a.iter().enumerate() {
                if (i % 2 == 0) == (kind == 1) {
                    x += v
                } else {
                    y += v
                }
            }
        }
        4 => {
            let mut i = 0;
            if extra {
                y += a[0];
                i = 1;
            }
            while i + 4 <= a.len() {
                x += a[i] + a[i + 1] + a[i + 3];
                y += a[i + 2];
                i += 4;
            }
        }
        5 => {
            let mut i = 0;
            if extra {
                x += a[0];
                i = 1;
            }
            while i + 4 <= a.len() {
                y += a[i] + a[i + 2] + a[i + 3];
                x += a[i + 1];
                i += 4;
            }
        }
        6 | 7 => {
            let mut horiz = kind == 6;
            let mut i = 0;
            while i + 4 <= a.len() {
                let last = i + 8 > a.len() && a.len() - i == 5;
                if horiz {
                    x += a[i] + a[i + 1];
                    y += a[i + 2] + a[i + 3];
                    if last {
                        x += a[i + 4];
                    }
                } else {
                    y += a[i] + a[i + 2];
                    x += a[i + 1] + a[i + 3];
                    if last {
                        y += a[i + 4];
                    }
                }
                horiz = !horiz;
                i += 4;
            }
        }
        10 => {
            for i in 0..12 {
                if i % 2 == 0 {
                    x += a[i]
                } else {
                    y += a[i]
                }
            }
        }
        11 => {
            x = a[0] + a[1] + a[3] + a[4] + a[5] + a[6];
        }
        12 => {
            x = a[0] + a[2] + a[4] + a[5] + a[6] + a[8];
        }
        _ => {
            let (mut dx, mut dy) = (0i64, 0i64);
            for i in 0..10 {
                if i % 2 == 0 {
                    dx += a[i]
                } else {
                    dy += a[i]
                }
            }
            if dx.abs() > dy.abs() {
                x = dx + a[10];
            } else {
                y = dy + a[10];
            }
        }
    }
    (x, y)
}

const SEG_OPS: [(bool, u8); 14] = [(false, 5), (false, 6), (false, 7), (false, 8), (false, 27), (false, 26), (false, 31), (false, 30), (false, 24), (false, 25), (true, 35), (true, 34), (true, 36), (true, 37)];
pub const SEG_NAMES: [&str; 14] = ["rlineto", "hlineto", "vlineto", "rrcurveto", "hhcurveto", "vvcurveto", "hvcurveto", "vhcurveto", "rcurveline", "rlinecurve", "flex", "hflex", "hflex1", "flex1"];

#[derive(Default, Clone, Debug)]
pub struct GlyphFacts {
    pub nh: usize,
    pub nv: usize,
    pub masks: usize,
    pub cntrmasks: usize,
    pub ghosts: usize,
    pub overlaps: usize,
    pub snapped: usize,
    pub calls_l: usize,
    pub calls_g: usize,
    pub depth: u8,
    pub fixed_nums: usize,
    pub seg_kinds: u16,
    pub width: bool,
    pub implied_v: bool,
    pub cuts_skipped: usize,
    pub stems_in_subr: bool,
    pub repeated_masks: usize,
    pub odd_midpoints: usize,
    pub zero_lines_after_mask: usize,
    pub zero_lines: usize,
    pub closing_curves: usize,
    pub closing_curves_after_mask: usize,
}

fn blue_values(p: &Priv) -> Vec<i32> {
    let mut v = vec![];
    let mut y = p.blue_base as i32;
    for (i, (gap, h)) in p.blues.iter().take(7).enumerate() {
        if i > 0 {
            y += *gap as i32 + 3;
        }
        v.push(y);
        y += *h as i32;
        v.push(y);
        if i == 0 {
            // the remaining zones are top zones well above the baseline zone
            y += 200;
        }
    }
    v
}
fn other_blues(p: &Priv, base: i32, list: &[(u8, u8)]) -> Vec<i32> {
    // bottom zones below the baseline zone, ascending
    let _ = p;
    let mut zones: Vec<(i32, i32)> = vec![];
    let mut y = base - 60;
    for (gap, h) in list.iter().take(5) {
        y -= *gap as i32 + 3 + *h as i32;
        zones.push((y, y + *h as i32));
    }
    zones.reverse();
    zones.into_iter().flat_map(|(a, b)| [a, b]).collect()
}
fn family_values(p: &Priv) -> Vec<i32> {
    let q = Priv { blues: p.family_blues.clone(), blue_base: p.family_base, ..p.clone() };
    blue_values(&q)
}

fn stem_tokens(ops: &[StemOp], start: i16, vertical: bool, zones: &[i32], toks: &mut Vec<Tok>, facts: &mut GlyphFacts, skip_last_op: bool, budget: &mut usize) -> (usize, Vec<Tok>) {
    // returns (stem count, operands of the left-out last operator)
    let mut edge: i64 = 0; // far edge of the previous stem (16.16), relative coordinate origin 0
    let mut count = 0usize;
    let mut first = true;
    let mut prev_w: i64 = 0;
    let mut pending: Vec<Tok> = vec![];
    let nops = ops.len();
    for (oi, op) in ops.iter().enumerate() {
        let mut nums: Vec<Tok> = vec![];
        for s in op.stems.iter() {
            if *budget == 0 || nums.len() >= 40 {
                break;
            }
            let mut gap = s.gap.fx();
            if first {
                gap += (start as i64) << 16;
            }
            let width = match s.ghost {
                1 => -21i64 << 16,
                2 => -20i64 << 16,
                _ => s.width.fx().max(1),
            };
            if s.ghost == 0 && !vertical {
                if let (Some((zi, jit, top)), false) = (s.snap, zones.is_empty()) {
                    let target = ((zones[zi as usize % zones.len()] + jit as i32) as i64) << 16;
                    let bottom = if top { target - width } else { target };
                    if bottom >= edge {
                        gap = bottom - edge;
                        facts.snapped += 1;
                    }
                }
            }
            if s.ghost != 0 {
                facts.ghosts += 1;
                // ghost stems: the delta names the edge itself; keep sorted
                gap = gap.max(if s.ghost == 1 { 21 << 16 } else { 20 << 16 });
            } else if gap < 0 && !first {
                // overlapping stem: starts inside the previous stem (never before its near edge: stems stay sorted)
                gap = gap.max(-(prev_w - (1 << 16)).max(0));
                if gap < 0 {
                    facts.overlaps += 1;
                }
            }
            if !vertical && s.ghost == 0 {
                // bottom + top negative and odd in 16.16 bits: the stem centre is not representable
                let sum = 2 * (edge + gap) + width;
                if sum < 0 && sum & 1 != 0 {
                    facts.odd_midpoints += 1;
                }
            }
            prev_w = width.max(0);
            first = false;
            nums.push(Tok::Num(Num::from_fx(gap)));
            nums.push(Tok::Num(Num::from_fx(width)));
            edge += gap + width;
            count += 1;
            *budget -= 1;
        }
        if nums.is_empty() {
            continue;
        }
        if skip_last_op && oi + 1 == nops {
            pending = nums;
        } else {
            toks.extend(nums);
            toks.push(Tok::Op(match (vertical, op.hm) {
                (false, false) => 1,
                (false, true) => 18,
                (true, false) => 3,
                (true, true) => 23,
            }));
        }
    }
    (count, pending)
}

fn mask_bytes(raw: &[u8; 4], nstems: usize) -> Vec<u8> {
    let len = (nstems + 7) / 8;
    (0..len).map(|i| raw[i % 4].rotate_left((i / 4) as u32)).collect()
}

struct SubrSpace {
    count: usize,
    used: BTreeSet<usize>,
    progs: BTreeMap<usize, Vec<Tok>>,
}
impl SubrSpace {
    fn new(count: usize) -> Self {
        SubrSpace { count, used: BTreeSet::new(), progs: BTreeMap::new() }
    }
    fn alloc(&mut self, sel: u8, raw: u16) -> Option<usize> {
        if self.used.len() >= self.count {
            return None;
        }
        let n = self.count;
        let want = match sel {
            0 => 0,
            1 => n - 1,
            2 => 107,
            3 => 1131,
            4 => bias(n) as usize,
            5 => 32768,
            6 => 106,
            7 => 1130,
            _ => (raw as usize * n) >> 16,
        };
        let mut s = if want < n { want } else { (raw as usize * n) >> 16 };
        while self.used.contains(&s) {
            s = (s + 1) % n;
        }
        self.used.insert(s);
        Some(s)
    }
}

fn flatten_depth(toks: &[Tok]) -> u8 {
    toks.iter().map(|t| if let Tok::Call(_, _, d, _) = t { *d } else { 0 }).max().unwrap_or(0)
}

fn encode_toks(toks: &[Tok], nl: usize, ng: usize, subr: bool) -> Vec<u8> {
    let mut out = vec![];
    for t in toks {
        match t {
            Tok::Num(n) => cs_num(&mut out, n),
            Tok::Op(o) => out.push(*o),
            Tok::Esc(o) => {
                out.push(12);
                out.push(*o);
            }
            Tok::Mask(cntr, b) => {
                out.push(if *cntr { 20 } else { 19 });
                out.extend_from_slice(b);
            }
            Tok::Call(global, slot, _, wide) => {
                let v = *slot as i32 - bias(if *global { ng } else { nl });
                if *wide {
                    cs_num(&mut out, &Num::W(v as i16));
                } else {
                    cs_int(&mut out, v);
                }
                out.push(if *global { 29 } else { 10 });
            }
        }
    }
    if subr {
        out.push(11);
    }
    out
}

/// charstring tokens of one glyph (before subroutine extraction)
fn glyph_tokens(g: &Glyph, p: &Priv, _f: &CffSynth, facts: &mut GlyphFacts) -> Vec<Tok> {
    let mut cur_mask: Option<Vec<u8>> = None;
    let mut push_mask = |toks: &mut Vec<Tok>, facts: &mut GlyphFacts, b: Vec<u8>| {
        if cur_mask.as_ref() == Some(&b) {
            facts.repeated_masks += 1;
        }
        cur_mask = Some(b.clone());
        toks.push(Tok::Mask(false, b));
        facts.masks += 1;
    };
    let mut toks: Vec<Tok> = vec![];
    if let Some(w) = &g.width {
        toks.push(Tok::Num(w.clone()));
        facts.width = true;
    }
    let mut zones = blue_values(p);
    zones.extend(other_blues(p, p.blue_base as i32, &p.other_blues));
    let mut budget = 24usize;
    let want_mask = g.init_mask.is_some() || !g.cntrmasks.is_empty();
    let (nh, _) = stem_tokens(&g.hstems, g.hstart, false, &zones, &mut toks, facts, false, &mut budget);
    let implied = g.implied_v && want_mask;
    let (nv, pending) = stem_tokens(&g.vstems, g.vstart, true, &zones, &mut toks, facts, implied, &mut budget);
    facts.nh = nh;
    facts.nv = nv;
    let ns = nh + nv;
    let mut pending = Some(pending);
    facts.implied_v = implied && pending.as_ref().map(|p| !p.is_empty()).unwrap_or(false);
    if ns > 0 {
        for m in g.cntrmasks.iter().take(3) {
            if let Some(p) = pending.take() {
                toks.extend(p);
            }
            toks.push(Tok::Mask(true, mask_bytes(m, ns)));
            facts.cntrmasks += 1;
        }
        if let Some(m) = &g.init_mask {
            if let Some(p) = pending.take() {
                toks.extend(p);
            }
            push_mask(&mut toks, facts, mask_bytes(m, ns));
        }
    }
    let (mut x, mut y) = (0i64, 0i64);
    const LIM: i64 = 1000 << 16;
    for c in g.contours.iter() {
        if let (Some(m), true) = (&c.mask, ns > 0) {
            push_mask(&mut toks, facts, mask_bytes(m, ns));
        }
        let (mut dx, mut dy) = (c.at.0.clone(), c.at.1.clone());
        if (x + dx.fx()).abs() > LIM {
            dx = dx.neg();
        }
        if (y + dy.fx()).abs() > LIM {
            dy = dy.neg();
        }
        match c.mv {
            0 => {
                x += dx.fx();
                y += dy.fx();
                toks.push(Tok::Num(dx));
                toks.push(Tok::Num(dy));
                toks.push(Tok::Op(21));
            }
            1 => {
                x += dx.fx();
                toks.push(Tok::Num(dx));
                toks.push(Tok::Op(22));
            }
            _ => {
                y += dy.fx();
                toks.push(Tok::Num(dy));
                toks.push(Tok::Op(4));
            }
        }
        let (sx, sy) = (x, y);
        let mut mid_mask = false;
        for s in c.segs.iter() {
            if let (Some(m), true) = (&s.mask, ns > 0) {
                push_mask(&mut toks, facts, mask_bytes(m, ns));
                mid_mask = true;
            }
            let kind = s.kind % 14;
            let s2 = Seg { kind, ..s.clone() };
            let (_, cnt) = operand_count(&s2);
            let pool: Vec<Num> = if s.vals.is_empty() { vec![Num::I(10)] } else { s.vals.clone() };
            let mut ops: Vec<Num> = (0..cnt).map(|i| pool[i % pool.len()].clone()).collect();
            if kind == 10 {
                ops[12] = Num::I(s.fd);
            }
            {
                // zero-length line pieces
                let mut zero_at: Vec<usize> = vec![];
                let z = |n: &Num| n.fx() == 0;
                match kind {
                    0 => zero_at.extend((0..cnt / 2).filter(|i| z(&ops[2 * i]) && z(&ops[2 * i + 1])).map(|i| 2 * i)),
                    1 | 2 => zero_at.extend((0..cnt).filter(|i| z(&ops[*i]))),
                    8 => zero_at.extend((z(&ops[cnt - 2]) && z(&ops[cnt - 1])).then_some(cnt - 2)),
                    9 => zero_at.extend((0..(cnt - 6) / 2).filter(|i| z(&ops[2 * i]) && z(&ops[2 * i + 1])).map(|i| 2 * i)),
                    _ => {}
                }
                facts.zero_lines += zero_at.len();
                if mid_mask {
                    facts.zero_lines_after_mask += zero_at.len();
                }
            }
            let fx: Vec<i64> = ops.iter().map(|n| n.fx()).collect();
            let (dx, dy) = displacement(kind, s.extra, &fx);
            // reflect the operator through the current point when that keeps the pen closer to the origin
            let far = |px: i64, py: i64| px.abs().max(py.abs());
            if far(x + dx, y + dy) > LIM && far(x - dx, y - dy) < far(x + dx, y + dy) {
                for (i, o) in ops.iter_mut().enumerate() {
                    if !(kind == 10 && i == 12) {
                        *o = o.neg();
                    }
                }
                x -= dx;
                y -= dy;
            } else {
                x += dx;
                y += dy;
            }
            facts.seg_kinds |= 1 << kind;
            for o in ops {
                if matches!(o, Num::F(_)) {
                    facts.fixed_nums += 1;
                }
                toks.push(Tok::Num(o));
            }
            let (esc, op) = SEG_OPS[kind as usize];
            toks.push(if esc { Tok::Esc(op) } else { Tok::Op(op) });
        }
        let close = c.close % 3;
        if close == 2 {
            facts.closing_curves += 1;
            if mid_mask {
                facts.closing_curves_after_mask += 1;
            }
        }
        if close == 2 {
            // control points from the move operands (any values do), end point on the contour's start
            let (ax, ay) = (c.at.1.fx() / 2, c.at.0.fx() / 2);
            let (bx, by) = (-c.at.0.fx() / 4, c.at.1.fx() / 4);
            for v in [ax, ay, bx, by, sx - x - ax - bx, sy - y - ay - by] {
                toks.push(Tok::Num(Num::from_fx(v)));
            }
            toks.push(Tok::Op(8));
            x = sx;
            y = sy;
        } else if close == 1 && (x != sx || y != sy) {
            toks.push(Tok::Num(Num::from_fx(sx - x)));
            toks.push(Tok::Num(Num::from_fx(sy - y)));
            toks.push(Tok::Op(5));
            x = sx;
            y = sy;
        }
    }
    toks.push(Tok::Op(14));
    toks
}

pub struct Built {
    pub bytes: Vec<u8>,
    pub num_glyphs: u16,
    pub facts: Vec<GlyphFacts>,
    pub nl: Vec<usize>,
    pub ng: usize,
    pub upem: u16,
}

fn encode_private(p: &Priv, have_subrs: bool) -> Vec<u8> {
    let mut d = vec![];
    let delta = |d: &mut Vec<u8>, vals: &[i32], op: u16| {
        if vals.is_empty() {
            return;
        }
        let mut last = 0i32;
        for v in vals {
            dict_int(d, v - last);
            last = *v;
        }
        dict_op(d, op);
    };
    let bv = blue_values(p);
    delta(&mut d, &bv, 6);
    if !bv.is_empty() {
        delta(&mut d, &other_blues(p, p.blue_base as i32, &p.other_blues), 7);
    }
    let fv = family_values(p);
    delta(&mut d, &fv, 8);
    if !fv.is_empty() {
        delta(&mut d, &other_blues(p, p.family_base as i32, &p.family_other_blues), 9);
    }
    if let Some(v) = p.std_hw {
        dict_int(&mut d, v as i32 + 1);
        dict_op(&mut d, 10);
    }
    if let Some(v) = p.std_vw {
        dict_int(&mut d, v as i32 + 1);
        dict_op(&mut d, 11);
    }
    let snaps = |v: &[u8]| {
        let mut acc = 0i32;
        v.iter()
            .take(12)
            .map(|x| {
                acc += *x as i32 + 1;
                acc
            })
            .collect::<Vec<i32>>()
    };
    delta(&mut d, &snaps(&p.snap_h), 0x0C0C);
    delta(&mut d, &snaps(&p.snap_v), 0x0C0D);
    if p.blue_scale != 0 {
        dict_real(&mut d, BLUE_SCALES[p.blue_scale as usize % BLUE_SCALES.len()]);
        dict_op(&mut d, 0x0C09);
    }
    if let Some(v) = p.blue_shift {
        dict_int(&mut d, v as i32);
        dict_op(&mut d, 0x0C0A);
    }
    if let Some(v) = p.blue_fuzz {
        dict_int(&mut d, v as i32);
        dict_op(&mut d, 0x0C0B);
    }
    if p.force_bold_zero {
        dict_int(&mut d, 0);
        dict_op(&mut d, 0x0C0E);
    }
    if p.lang_group != 0 {
        dict_int(&mut d, p.lang_group as i32 - 1);
        dict_op(&mut d, 0x0C11);
    }
    if let Some((dw, nw)) = p.widths {
        dict_int(&mut d, dw as i32);
        dict_op(&mut d, 20);
        dict_int(&mut d, nw as i32);
        dict_op(&mut d, 21);
    }
    if have_subrs {
        // Subrs offset is relative to the start of the Private DICT; the local subr INDEX follows the DICT
        let len = d.len() + 6;
        dict_long(&mut d, len as i32);
        dict_op(&mut d, 19);
    }
    d
}

fn cmap_bytes(num_glyphs: usize) -> Vec<u8> {
    // format 12, one group: 'A'.. -> glyphs 1..
    let n = num_glyphs.saturating_sub(1).max(1) as u32;
    let mut v = vec![];
    v.extend_from_slice(&0u16.to_be_bytes());
    v.extend_from_slice(&1u16.to_be_bytes());
    v.extend_from_slice(&3u16.to_be_bytes());
    v.extend_from_slice(&10u16.to_be_bytes());
    v.extend_from_slice(&12u32.to_be_bytes());
    v.extend_from_slice(&12u16.to_be_bytes());
    v.extend_from_slice(&0u16.to_be_bytes());
    v.extend_from_slice(&28u32.to_be_bytes());
    v.extend_from_slice(&0u32.to_be_bytes());
    v.extend_from_slice(&1u32.to_be_bytes());
    v.extend_from_slice(&65u32.to_be_bytes());
    v.extend_from_slice(&(65 + n - 1).to_be_bytes());
    v.extend_from_slice(&1u32.to_be_bytes());
    v
}

pub fn upem_of(f: &CffSynth) -> u16 {
    match f.matrix % 4 {
        2 => 2000,
        3 => 500,
        _ => 1000,
    }
}

pub fn build(f: &CffSynth) -> Built {
    let nfd = if f.cid { f.privs.len().clamp(1, 2) } else { 1 };
    let ng = SUBR_COUNTS[f.gsubr_count as usize % SUBR_COUNTS.len()];
    let nl: Vec<usize> = (0..nfd).map(|i| SUBR_COUNTS[f.privs[i].lsubr_count as usize % SUBR_COUNTS.len()]).collect();
    let mut gspace = SubrSpace::new(ng);
    let mut lspaces: Vec<SubrSpace> = nl.iter().map(|n| SubrSpace::new(*n)).collect();
    let mut facts_all = vec![];
    let mut charstrings: Vec<Vec<Tok>> = vec![];
    let fd_of = |g: &Glyph| if f.cid { g.fd as usize % nfd } else { 0 };
    for g in f.glyphs.iter() {
        let fd = fd_of(g);
        let mut facts = GlyphFacts::default();
        let mut toks = glyph_tokens(g, &f.privs[fd], f, &mut facts);
        for c in g.cuts.iter() {
            let l = toks.len();
            let a = (c.start as usize * l) >> 16;
            let b = (a + (c.len as usize).max(1)).min(l);
            let depth = flatten_depth(&toks[a..b]).saturating_add(1);
            if depth > 6 {
                facts.cuts_skipped += 1;
                continue;
            }
            let space = if c.global { &mut gspace } else { &mut lspaces[fd] };
            let Some(slot) = space.alloc(c.slot_sel, c.slot_raw) else {
                facts.cuts_skipped += 1;
                continue;
            };
            let body: Vec<Tok> = toks.drain(a..b).collect();
            if body.iter().any(|t| matches!(t, Tok::Op(1 | 3 | 18 | 23) | Tok::Mask(..))) {
                facts.stems_in_subr = true;
            }
            space.progs.insert(slot, body);
            toks.insert(a, Tok::Call(c.global, slot, depth, c.wide));
            facts.depth = facts.depth.max(depth);
            if c.global {
                facts.calls_g += 1;
            } else {
                facts.calls_l += 1;
            }
        }
        charstrings.push(toks);
        facts_all.push(facts);
    }
    // encode
    let cs: Vec<Vec<u8>> = f.glyphs.iter().zip(&charstrings).map(|(g, t)| encode_toks(t, nl[fd_of(g)], ng, false)).collect();
    // a global subr may call local subrs of the glyph's font DICT: each global subr belongs to one glyph, hence one fd
    let mut g_fd: BTreeMap<usize, usize> = BTreeMap::new();
    fn mark(toks: &[Tok], fd: usize, gspace: &SubrSpace, lspace: &SubrSpace, g_fd: &mut BTreeMap<usize, usize>) {
        for t in toks {
            if let Tok::Call(global, slot, _, _) = t {
                if *global {
                    g_fd.insert(*slot, fd);
                    mark(&gspace.progs[slot], fd, gspace, lspace, g_fd);
                } else {
                    mark(&lspace.progs[slot], fd, gspace, lspace, g_fd);
                }
            }
        }
    }
    for (g, t) in f.glyphs.iter().zip(&charstrings) {
        let fd = fd_of(g);
        mark(t, fd, &gspace, &lspaces[fd], &mut g_fd);
    }
    let genc: BTreeMap<usize, Vec<u8>> = gspace.progs.iter().map(|(s, t)| (*s, encode_toks(t, nl[g_fd.get(s).copied().unwrap_or(0)], ng, true))).collect();
    let gsubr_index = index_sparse(ng, &genc, &[11], f.off4);
    let cs_index = index(&cs, f.off4);
    let priv_blobs: Vec<(Vec<u8>, Vec<u8>)> = (0..nfd)
        .map(|i| {
            let lenc: BTreeMap<usize, Vec<u8>> = lspaces[i].progs.iter().map(|(s, t)| (*s, encode_toks(t, nl[i], ng, true))).collect();
            let d = encode_private(&f.privs[i], nl[i] > 0);
            (d, if nl[i] > 0 { index_sparse(nl[i], &lenc, &[11], f.off4) } else { vec![] })
        })
        .collect();
    let n = f.glyphs.len();
    // charset format 0: SIDs / CIDs 1..n-1
    let mut charset = vec![0u8];
    for i in 1..n {
        charset.extend_from_slice(&(i as u16).to_be_bytes());
    }
    let fdselect: Vec<u8> = if f.cid {
        if f.fdsel3 {
            let mut v = vec![3u8];
            let mut ranges: Vec<(u16, u8)> = vec![];
            for (i, g) in f.glyphs.iter().enumerate() {
                let fd = fd_of(g) as u8;
                if ranges.last().map(|r| r.1 != fd).unwrap_or(true) {
                    ranges.push((i as u16, fd));
                }
            }
            v.extend_from_slice(&(ranges.len() as u16).to_be_bytes());
            for (first, fd) in &ranges {
                v.extend_from_slice(&first.to_be_bytes());
                v.push(*fd);
            }
            v.extend_from_slice(&(n as u16).to_be_bytes());
            v
        } else {
            let mut v = vec![0u8];
            v.extend(f.glyphs.iter().map(|g| fd_of(g) as u8));
            v
        }
    } else {
        vec![]
    };
    let name_index = index(&[b"Gen".to_vec()], f.off4);
    let string_index = index(&[b"Adobe".to_vec(), b"Identity".to_vec()], f.off4);
    let upem = upem_of(f);
    let top = |charset_off: usize, fds_off: usize, cs_off: usize, fda_off: usize, priv_len: usize, priv_off: usize| -> Vec<u8> {
        let mut t = vec![];
        if f.cid {
            dict_int(&mut t, 391);
            dict_int(&mut t, 392);
            dict_int(&mut t, 0);
            dict_op(&mut t, 0x0C1E);
        }
        let m = match f.matrix % 4 {
            1 => Some("0.001"),
            2 => Some("0.0005"),
            3 => Some("0.002"),
            _ => None,
        };
        if let Some(m) = m {
            for s in [m, "0", "0", m, "0", "0"] {
                if s == "0" {
                    dict_int(&mut t, 0);
                } else {
                    dict_real(&mut t, s);
                }
            }
            dict_op(&mut t, 0x0C07);
        }
        for v in [-1500i16, -1500, 1500, 1500] {
            t.push(28);
            t.extend_from_slice(&v.to_be_bytes());
        }
        dict_op(&mut t, 5);
        dict_long(&mut t, charset_off as i32);
        dict_op(&mut t, 15);
        dict_long(&mut t, cs_off as i32);
        dict_op(&mut t, 17);
        if f.cid {
            dict_long(&mut t, fda_off as i32);
            dict_op(&mut t, 0x0C24);
            dict_long(&mut t, fds_off as i32);
            dict_op(&mut t, 0x0C25);
        } else {
            dict_long(&mut t, priv_len as i32);
            dict_long(&mut t, priv_off as i32);
            dict_op(&mut t, 18);
        }
        t
    };
    let top_len = top(0, 0, 0, 0, 0, 0).len();
    let top_index_len = index(&[vec![0u8; top_len]], f.off4).len();
    let fdarray_len = if f.cid { index(&vec![vec![0u8; 11]; nfd], f.off4).len() } else { 0 };
    let mut off = 4 + name_index.len() + top_index_len + string_index.len() + gsubr_index.len();
    let charset_off = off;
    off += charset.len();
    let fds_off = off;
    off += fdselect.len();
    let cs_off = off;
    off += cs_index.len();
    let fda_off = off;
    off += fdarray_len;
    let mut priv_offs = vec![];
    for (d, l) in &priv_blobs {
        priv_offs.push(off);
        off += d.len() + l.len();
    }
    let topd = top(charset_off, fds_off, cs_off, fda_off, priv_blobs[0].0.len(), priv_offs[0]);
    debug_assert_eq!(topd.len(), top_len);
    let mut t = vec![1u8, 0, 4, 4];
    t.extend_from_slice(&name_index);
    t.extend_from_slice(&index(&[topd], f.off4));
    t.extend_from_slice(&string_index);
    t.extend_from_slice(&gsubr_index);
    t.extend_from_slice(&charset);
    t.extend_from_slice(&fdselect);
    t.extend_from_slice(&cs_index);
    if f.cid {
        let fds: Vec<Vec<u8>> = (0..nfd)
            .map(|i| {
                let mut d = vec![];
                dict_long(&mut d, priv_blobs[i].0.len() as i32);
                dict_long(&mut d, priv_offs[i] as i32);
                dict_op(&mut d, 18);
                d
            })
            .collect();
        t.extend_from_slice(&index(&fds, f.off4));
    }
    for (d, l) in &priv_blobs {
        t.extend_from_slice(d);
        t.extend_from_slice(l);
    }
    t.extend_from_slice(&[0; 4]);

    let num_glyphs = n as u16;
    let hm: Vec<(u16, i16)> = f.glyphs.iter().map(|g| (g.advance, 0)).collect();
    let mut maxp = vec![];
    maxp.extend_from_slice(&0x0000_5000u32.to_be_bytes());
    maxp.extend_from_slice(&num_glyphs.to_be_bytes());
    let mut post = vec![];
    post.extend_from_slice(&0x0003_0000u32.to_be_bytes());
    post.extend_from_slice(&[0; 28]);
    let extra: Vec<([u8; 4], Vec<u8>)> = vec![(*b"maxp", maxp), (*b"CFF ", t), (*b"cmap", cmap_bytes(n)), (*b"post", post)];
    let kit = fontkit::Kit { num_glyphs, upem, h_metrics: hm, extra, ..Default::default() };
    let bytes = vcore::sfnt::assemble(0x4F54_544F, &kit.tables());
    Built { bytes, num_glyphs, facts: facts_all, nl, ng, upem }
}

// ---------------------------------------------------------------------------------------------
// strategies

fn coord() -> impl Strategy<Value = Num> {
    prop_oneof![
        10 => (-150i16..=150).prop_map(Num::I),
        2 => (-400i16..=400).prop_map(Num::I),
        1 => (-150i16..=150).prop_map(Num::W),
        1 => Just(Num::I(0)),
        2 => (-150i32 * 65536..=150 * 65536).prop_map(Num::F),
        1 => ((-150i32..=150), prop::sample::select(vec![0x8000i32, 0x4000, 0xC000, 0x0001, 0xFFFF])).prop_map(|(i, f)| Num::F(i * 65536 + f)),
    ]
}
fn small_coord() -> impl Strategy<Value = Num> {
    prop_oneof![4 => (-4i16..=4).prop_map(Num::I), 1 => (-4i32 * 65536..=4 * 65536).prop_map(Num::F)]
}
fn mask4() -> impl Strategy<Value = [u8; 4]> {
    prop_oneof![3 => any::<[u8; 4]>(), 1 => Just([0xFF; 4]), 1 => Just([0; 4]), 1 => Just([0xAA, 0x55, 0xAA, 0x55])]
}
fn seg() -> impl Strategy<Value = Seg> {
    (
        0u8..14,
        prop_oneof![8 => 1u8..=3, 2 => 4u8..=8, 1 => 9u8..=40],
        any::<bool>(),
        prop_oneof![3 => prop::collection::vec(coord(), 1..=9), 1 => prop::collection::vec(prop_oneof![coord(), small_coord()], 3..=13)],
        prop_oneof![Just(50i16), 40i16..=60, 0i16..=200, Just(0i16)],
        prop::option::weighted(0.12, mask4()),
    )
        .prop_map(|(kind, n, extra, vals, fd, mask)| Seg { kind, n, extra, vals, fd, mask })
}
fn contour() -> impl Strategy<Value = Contour> {
    (0u8..3, (coord(), coord()), prop::collection::vec(seg(), 1..=4), prop_oneof![5 => Just(0u8), 3 => Just(1u8), 2 => Just(2u8)], prop::option::weighted(0.15, mask4()))
        .prop_map(|(mv, at, segs, close, mask)| Contour { mv, at, segs, close, mask })
}
fn stem() -> impl Strategy<Value = Stem> {
    (
        prop_oneof![8 => (1i16..=200).prop_map(Num::I), 1 => (-60i16..=0).prop_map(Num::I), 1 => (0i32..=200 * 65536).prop_map(Num::F)],
        prop_oneof![8 => (1i16..=150).prop_map(Num::I), 1 => (1i16..=150).prop_map(Num::W), 1 => (65536i32..=150 * 65536).prop_map(Num::F)],
        prop_oneof![10 => Just(0u8), 1 => Just(1u8), 1 => Just(2u8)],
        prop::option::weighted(0.4, (any::<u8>(), -3i8..=3, any::<bool>())),
    )
        .prop_map(|(gap, width, ghost, snap)| Stem { gap, width, ghost, snap })
}
fn stem_ops() -> impl Strategy<Value = Vec<StemOp>> {
    prop_oneof![
        2 => Just(vec![]),
        6 => prop::collection::vec((any::<bool>(), prop::collection::vec(stem(), 1..=4)).prop_map(|(hm, stems)| StemOp { hm, stems }), 1..=2),
        2 => prop::collection::vec((any::<bool>(), prop::collection::vec(stem(), 1..=12)).prop_map(|(hm, stems)| StemOp { hm, stems }), 1..=3),
    ]
}
fn cut() -> impl Strategy<Value = Cut> {
    (any::<u16>(), prop_oneof![3 => 1u8..=6, 2 => 7u8..=30, 1 => 31u8..=120], any::<bool>(), 0u8..12, any::<u16>(), prop::bool::weighted(0.2))
        .prop_map(|(start, len, global, slot_sel, slot_raw, wide)| Cut { start, len, global, slot_sel, slot_raw, wide })
}
fn glyph() -> impl Strategy<Value = Glyph> {
    (
        (0u8..2, 100u16..1500, prop::option::weighted(0.5, prop_oneof![(-500i16..=900).prop_map(Num::I), (-500i16..=900).prop_map(Num::W), (-500i32 * 65536..=900 * 65536).prop_map(Num::F)])),
        (-300i16..=100, -50i16..=300),
        (stem_ops(), stem_ops(), prop::bool::weighted(0.3)),
        (prop::collection::vec(mask4(), 0..=2), prop::option::weighted(0.5, mask4())),
        prop_oneof![1 => Just(vec![]), 12 => prop::collection::vec(contour(), 1..=3)],
        prop_oneof![2 => Just(vec![]), 5 => prop::collection::vec(cut(), 1..=3), 3 => prop::collection::vec(cut(), 4..=10)],
    )
        .prop_map(|((fd, advance, width), (hstart, vstart), (hstems, vstems, implied_v), (cntrmasks, init_mask), contours, cuts)| Glyph {
            fd,
            advance,
            width,
            hstart,
            vstart,
            hstems,
            vstems,
            implied_v,
            cntrmasks,
            init_mask,
            contours,
            cuts,
        })
}
fn zones(max: usize) -> impl Strategy<Value = Vec<(u8, u8)>> {
    prop::collection::vec((prop_oneof![3 => 0u8..=40, 2 => 40u8..=255], prop_oneof![4 => 0u8..=20, 1 => 20u8..=60]), 0..=max)
}
fn private() -> impl Strategy<Value = Priv> {
    (
        (zones(7), prop_oneof![Just(-15i16), Just(-12i16), -30i16..=0], zones(5)),
        (prop_oneof![2 => Just(vec![]), 1 => zones(7)], prop_oneof![Just(-15i16), -30i16..=0], prop_oneof![2 => Just(vec![]), 1 => zones(5)]),
        (prop_oneof![2 => Just(0u8), 3 => 1u8..7], prop::option::weighted(0.5, 0u8..=12), prop::option::weighted(0.5, 0u8..=4)),
        (prop::option::of(10u8..200), prop::option::of(10u8..200), prop::collection::vec(any::<u8>(), 0..=4), prop::collection::vec(any::<u8>(), 0..=4)),
        (prop_oneof![3 => Just(0u8), 1 => Just(1u8), 2 => Just(2u8)], prop::bool::weighted(0.2), prop::option::of((0i16..1000, -200i16..800))),
        prop_oneof![2 => 0u8..5, 2 => 5u8..9, 3 => 9u8..14, 1 => 14u8..18],
    )
        .prop_map(|((blues, blue_base, other_blues), (family_blues, family_base, family_other_blues), (blue_scale, blue_shift, blue_fuzz), (std_hw, std_vw, snap_h, snap_v), (lang_group, force_bold_zero, widths), lsubr_count)| Priv {
            blues,
            blue_base,
            other_blues,
            family_blues,
            family_base,
            family_other_blues,
            blue_scale,
            blue_shift,
            blue_fuzz,
            std_hw,
            std_vw,
            snap_h,
            snap_v,
            lang_group,
            force_bold_zero,
            widths,
            lsubr_count,
        })
}
pub fn strategy() -> impl Strategy<Value = CffSynth> {
    (
        prop_oneof![3 => Just(0u8), 1 => Just(1u8), 1 => Just(2u8), 1 => Just(3u8)],
        prop::bool::weighted(0.25),
        any::<bool>(),
        prop::collection::vec(private(), 2..=2),
        prop_oneof![2 => 0u8..5, 2 => 5u8..9, 3 => 9u8..14, 1 => 14u8..18],
        prop::collection::vec(glyph(), 3..=8),
        prop::bool::weighted(0.15),
    )
        .prop_map(|(matrix, cid, fdsel3, privs, gsubr_count, mut glyphs, off4)| {
            // glyph 0: .notdef, kept simple
            glyphs.insert(0, Glyph { fd: 0, advance: 500, width: None, hstart: 0, vstart: 0, hstems: vec![], vstems: vec![], implied_v: false, cntrmasks: vec![], init_mask: None, contours: vec![], cuts: vec![] });
            CffSynth { matrix, cid, fdsel3, privs, gsubr_count, glyphs, off4, ppems: vec![] }
        })
}

// ---------------------------------------------------------------------------------------------
// development aid: structural minimiser (the engine's shrinker works on the proptest value tree and stops early on
// cases of this size)

fn candidates(f: &CffSynth) -> Vec<CffSynth> {
    let mut out: Vec<CffSynth> = vec![];
    let mut push = |g: &dyn Fn(&mut CffSynth) -> bool| {
        let mut c = f.clone();
        if g(&mut c) && c != *f {
            out.push(c);
        }
    };
    for i in (1..f.glyphs.len()).rev() {
        push(&|c| {
            c.glyphs.remove(i);
            true
        });
    }
    push(&|c| { c.matrix = 0; true });
    push(&|c| { c.cid = false; true });
    push(&|c| { c.off4 = false; true });
    push(&|c| { c.gsubr_count = 0; true });
    push(&|c| { c.gsubr_count = 4; true });
    for pi in 0..f.privs.len() {
        push(&|c| { c.privs[pi].lsubr_count = 0; true });
        push(&|c| { c.privs[pi].lsubr_count = 4; true });
        push(&|c| { c.privs[pi].blues.clear(); true });
        push(&|c| { c.privs[pi].other_blues.clear(); true });
        push(&|c| { c.privs[pi].family_blues.clear(); true });
        push(&|c| { c.privs[pi].family_other_blues.clear(); true });
        for k in (0..f.privs[pi].blues.len()).rev() {
            push(&|c| { c.privs[pi].blues.remove(k); true });
        }
        for k in (0..f.privs[pi].other_blues.len()).rev() {
            push(&|c| { c.privs[pi].other_blues.remove(k); true });
        }
        for k in (0..f.privs[pi].family_blues.len()).rev() {
            push(&|c| { c.privs[pi].family_blues.remove(k); true });
        }
        push(&|c| { c.privs[pi].blue_scale = 0; true });
        push(&|c| { c.privs[pi].blue_shift = None; true });
        push(&|c| { c.privs[pi].blue_fuzz = None; true });
        push(&|c| { c.privs[pi].std_hw = None; true });
        push(&|c| { c.privs[pi].std_vw = None; true });
        push(&|c| { c.privs[pi].snap_h.clear(); true });
        push(&|c| { c.privs[pi].snap_v.clear(); true });
        push(&|c| { c.privs[pi].lang_group = 0; true });
        push(&|c| { c.privs[pi].force_bold_zero = false; true });
        push(&|c| { c.privs[pi].widths = None; true });
    }
    for gi in 1..f.glyphs.len() {
        let g = &f.glyphs[gi];
        push(&|c| { c.glyphs[gi].cuts.clear(); true });
        for k in (0..g.cuts.len()).rev() {
            push(&|c| { c.glyphs[gi].cuts.remove(k); true });
        }
        push(&|c| { c.glyphs[gi].width = None; true });
        push(&|c| { c.glyphs[gi].fd = 0; true });
        push(&|c| { c.glyphs[gi].implied_v = false; true });
        push(&|c| { c.glyphs[gi].init_mask = None; true });
        push(&|c| { c.glyphs[gi].cntrmasks.clear(); true });
        push(&|c| { c.glyphs[gi].hstems.clear(); true });
        push(&|c| { c.glyphs[gi].vstems.clear(); true });
        for vert in [false, true] {
            let ops = if vert { &g.vstems } else { &g.hstems };
            for oi in (0..ops.len()).rev() {
                push(&|c| { let o = if vert { &mut c.glyphs[gi].vstems } else { &mut c.glyphs[gi].hstems }; o.remove(oi); true });
                push(&|c| { let o = if vert { &mut c.glyphs[gi].vstems } else { &mut c.glyphs[gi].hstems }; o[oi].hm = false; true });
                for si in (0..ops[oi].stems.len()).rev() {
                    push(&|c| { let o = if vert { &mut c.glyphs[gi].vstems } else { &mut c.glyphs[gi].hstems }; o[oi].stems.remove(si); true });
                    push(&|c| { let o = if vert { &mut c.glyphs[gi].vstems } else { &mut c.glyphs[gi].hstems }; o[oi].stems[si].snap = None; true });
                    push(&|c| { let o = if vert { &mut c.glyphs[gi].vstems } else { &mut c.glyphs[gi].hstems }; o[oi].stems[si].ghost = 0; true });
                }
            }
        }
        for ci in (0..g.contours.len()).rev() {
            push(&|c| { c.glyphs[gi].contours.remove(ci); true });
            push(&|c| { c.glyphs[gi].contours[ci].mask = None; true });
            push(&|c| { c.glyphs[gi].contours[ci].close = 0; true });
            push(&|c| { c.glyphs[gi].contours[ci].mv = 0; true });
            for si in (0..g.contours[ci].segs.len()).rev() {
                push(&|c| { c.glyphs[gi].contours[ci].segs.remove(si); true });
                push(&|c| { c.glyphs[gi].contours[ci].segs[si].mask = None; true });
                push(&|c| { c.glyphs[gi].contours[ci].segs[si].n = 1; true });
                push(&|c| { c.glyphs[gi].contours[ci].segs[si].kind = 0; true });
                push(&|c| { c.glyphs[gi].contours[ci].segs[si].extra = false; true });
                push(&|c| { let v = &mut c.glyphs[gi].contours[ci].segs[si].vals; if v.len() > 2 { v.truncate(2); true } else { false } });
                push(&|c| {
                    let v = &mut c.glyphs[gi].contours[ci].segs[si].vals;
                    let mut ch = false;
                    for x in v.iter_mut() {
                        if let Num::F(b) = x { *x = Num::I((*b >> 16) as i16); ch = true; }
                        if let Num::W(b) = x { *x = Num::I(*b); ch = true; }
                    }
                    ch
                });
            }
        }
    }
    out
}

pub fn minimise(f: &CffSynth, pred: &dyn Fn(&CffSynth) -> bool) -> CffSynth {
    let mut cur = f.clone();
    let mut rounds = 0;
    'outer: loop {
        rounds += 1;
        if rounds > 400 {
            break;
        }
        for c in candidates(&cur) {
            if pred(&c) {
                cur = c;
                continue 'outer;
            }
        }
        break;
    }
    cur
}

/// readable charstring listing (development aid)
pub fn listing(f: &CffSynth) -> String {
    let nfd = if f.cid { f.privs.len().clamp(1, 2) } else { 1 };
    let mut s = String::new();
    for (gi, g) in f.glyphs.iter().enumerate() {
        let fd = if f.cid { g.fd as usize % nfd } else { 0 };
        let mut facts = GlyphFacts::default();
        let toks = glyph_tokens(g, &f.privs[fd], f, &mut facts);
        s.push_str(&format!("glyph {gi} (fd {fd}, before subr extraction):"));
        for t in toks {
            match t {
                Tok::Num(Num::F(b)) => s.push_str(&format!(" {:.5}", b as f64 / 65536.0)),
                Tok::Num(Num::I(v)) | Tok::Num(Num::W(v)) => s.push_str(&format!(" {v}")),
                Tok::Op(o) => s.push_str(&format!(" op{o}")),
                Tok::Esc(o) => s.push_str(&format!(" esc{o}")),
                Tok::Mask(c, b) => s.push_str(&format!(" {}{:02x?}", if c { "cntrmask" } else { "hintmask" }, b)),
                Tok::Call(..) => {}
            }
        }
        s.push('\n');
    }
    for (i, p) in f.privs.iter().take(nfd).enumerate() {
        s.push_str(&format!("private {i}: BlueValues {:?} OtherBlues {:?} FamilyBlues {:?} FamilyOtherBlues {:?} scale {} shift {:?} fuzz {:?} lang {}\n", blue_values(p), other_blues(p, p.blue_base as i32, &p.other_blues), family_values(p), other_blues(p, p.family_base as i32, &p.family_other_blues), BLUE_SCALES[p.blue_scale as usize % BLUE_SCALES.len()], p.blue_shift, p.blue_fuzz, p.lang_group));
    }
    s
}

// ---------------------------------------------------------------------------------------------
// stage `synthetic-cff-focus`: four constructs on which skrifa once differed from FreeType, made frequent

/// k 0: FamilyBlues + FamilyOtherBlues; 1: hintmask operators repeating the mask in effect; 2: zero-length lines after
/// a hintmask inside a contour; 3: the minimised font (with its size) on which the stem-centre rounding decided a tie
pub fn focus(mut f: CffSynth, k: u8) -> CffSynth {
    match k % 4 {
        0 => {
            for p in f.privs.iter_mut() {
                if p.family_blues.is_empty() {
                    p.family_blues = if p.blues.is_empty() { vec![(0, 8)] } else { p.blues.clone() };
                    p.family_base = p.blue_base.saturating_sub(2);
                }
                p.family_other_blues = vec![(20, 6), (40, 4)];
            }
        }
        1 => {
            for g in f.glyphs.iter_mut().skip(1) {
                let m = g.init_mask.unwrap_or([0xAA, 0x55, 0xAA, 0x55]);
                g.init_mask = Some(m);
                for c in g.contours.iter_mut() {
                    c.mask = Some(m);
                    for s in c.segs.iter_mut() {
                        if s.mask.is_some() {
                            s.mask = Some(m);
                        }
                    }
                }
            }
        }
        3 => {
            f = serde_json::from_str::<CffSynth>(FOCUS_MIDPOINT_CASE).expect("literal case");
        }
        _ => {
            for g in f.glyphs.iter_mut().skip(1) {
                for c in g.contours.iter_mut() {
                    // moveto, hintmask, zero-length lines ...
                    c.segs.insert(0, Seg { kind: 1, n: 2, extra: false, vals: vec![Num::I(0)], fd: 50, mask: Some(c.mask.unwrap_or([0x5A, 0xA5, 0x33, 0xCC])) });
                    c.segs.truncate(2);
                    if c.segs.len() > 1 {
                        c.segs[1].mask = None;
                    }
                    c.close = 1;
                }
            }
        }
    }
    f
}

const FOCUS_MIDPOINT_CASE: &str = r#"{"matrix":0,"cid":false,"fdsel3":true,"privs":[{"blues":[[25,8],[8,0],[55,60]],"blue_base":0,"other_blues":[[34,47],[17,8],[40,5],[210,17]],"family_blues":[],"family_base":-15,"family_other_blues":[],"blue_scale":0,"blue_shift":null,"blue_fuzz":null,"std_hw":156,"std_vw":156,"snap_h":[],"snap_v":[],"lang_group":0,"force_bold_zero":false,"widths":null,"lsubr_count":0},{"blues":[[15,13],[6,11],[245,47],[14,20],[14,9],[2,10],[139,15]],"blue_base":-24,"other_blues":[[21,17]],"family_blues":[],"family_base":-15,"family_other_blues":[],"blue_scale":0,"blue_shift":12,"blue_fuzz":null,"std_hw":null,"std_vw":179,"snap_h":[146],"snap_v":[214,4],"lang_group":0,"force_bold_zero":false,"widths":null,"lsubr_count":0}],"gsubr_count":0,"glyphs":[{"fd":0,"advance":500,"width":null,"hstart":0,"vstart":0,"hstems":[],"vstems":[],"implied_v":false,"cntrmasks":[],"init_mask":null,"contours":[],"cuts":[]},{"fd":0,"advance":993,"width":null,"hstart":-182,"vstart":141,"hstems":[{"hm":false,"stems":[{"gap":{"I":163},"width":{"F":590773},"ghost":0,"snap":null}]},{"hm":false,"stems":[{"gap":{"I":15},"width":{"W":42},"ghost":1,"snap":null},{"gap":{"I":21},"width":{"W":147},"ghost":0,"snap":[186,0,true]}]}],"vstems":[],"implied_v":false,"cntrmasks":[],"init_mask":null,"contours":[{"mv":2,"at":[{"I":-22},{"F":-3972294}],"segs":[{"kind":13,"n":2,"extra":true,"vals":[{"W":-62},{"I":-114},{"F":2349286},{"I":-83},{"F":5734566},{"I":46}],"fd":0,"mask":null}],"close":2,"mask":[255,255,255,255]}],"cuts":[]}],"off4":false,"repeat_masks":false,"zero_lines":false,"odd_midpoints":true,"ppems":[138]}"#;
