//! Synthetic instructed TrueType fonts for the FreeType differential (C03, stage `synthetic`): the frozen corpus
//! exercises only the instructions / composite features its fonts happen to use; generated fonts with *valid* glyph
//! programs (every operand in range for the zone it is read through, balanced stack, forward jumps only, bounded
//! arithmetic) and composites (offsets, point anchors, nesting, scales, component instructions) reach the rest of the
//! interpreter and the composite loader.
//!
//! Domain rules enforced by the encoder (both engines define the result; FreeType's result must not depend on the order
//! in which glyphs were loaded before):
//! * the encoder tracks zp0/zp1/zp2 and rp0/rp1/rp2 and emits SZPn / SRPn fix-ups so that every point operand and every
//!   reference point is in range for the zone it is read through; IF / jump bodies restore the tracked state at their end;
//! * FreeType keeps glyph-program writes to the twilight zone for the following glyphs of the same size object (skrifa
//!   restarts every glyph from the state the control value program left): twilight points `< own_from` are written by
//!   the control value program only, the others are fully re-initialised (position, original position, both touch flags)
//!   by a prologue of every glyph program that uses the twilight zone;
//! * FreeType 2.12.1's WCVTF writes the size's CVT directly unless an earlier WCVTP/DELTAC of the same glyph program
//!   made the per-glyph copy: in glyph programs WCVTF is preceded by an identity WCVTP when no copy exists yet;
//! * FreeType's interpreter stack is 64 bits wide on LP64, skrifa's 32: arithmetic is clamped (MIN/MAX) so that no
//!   intermediate leaves the 32-bit range; divisors are non-zero constants.
use proptest::prelude::*;
use serde::{Deserialize, Serialize};
use std::collections::BTreeMap;
use vcore::fontkit;

/// a value computed on the interpreter stack
#[derive(Clone, Debug, Serialize, Deserialize, PartialEq)]
pub enum Expr {
    Const(i16),
    Mppem,
    Mps,
    /// GC[orig] of a point read through zp2
    Gc { orig: bool, p: u8 },
    /// MD[orig]: p0 read through zp0, p1 through zp1
    Md { orig: bool, p0: u8, p1: u8 },
    Rs(u8),
    Rcvt(u8),
    GetInfo(u16),
    /// GPV / GFV component
    VecComp { fv: bool, y: bool },
    Depth,
    /// 0 ABS 1 NEG 2 FLOOR 3 CEILING 4..=7 ROUND[0..3] 8..=11 NROUND[0..3] 12 NOT 13 ODD 14 EVEN
    Un(u8, Box<Expr>),
    /// 0 ADD 1 SUB 2 MUL 3 MAX 4 MIN 5 LT 6 LTEQ 7 GT 8 GTEQ 9 EQ 10 NEQ 11 AND 12 OR
    Bin(u8, Box<Expr>, Box<Expr>),
    /// DIV by a non-zero constant
    DivC(Box<Expr>, i16),
    /// stack manipulation: 0 ROLL POP SWAP POP (= c)  1 3 CINDEX ADD SWAP POP SWAP POP (= c+a)  2 2 MINDEX SUB SWAP POP (= c-b)
    /// 3 a DUP b MAX ADD  4 DEPTH a ADD
    Shuf(u8, Box<Expr>, Box<Expr>, Box<Expr>),
    /// call of an arithmetic function of the font program
    Call(u8, Box<Expr>),
}

#[derive(Clone, Debug, Serialize, Deserialize, PartialEq, Default)]
pub struct CallArg {
    pub a: u8,
    pub b: u8,
    pub v: i16,
}

#[derive(Clone, Debug, Serialize, Deserialize, PartialEq)]
pub enum GOp {
    Svtca(bool),
    /// 0 RTG 1 RTHG 2 RTDG 3 RDTG 4 RUTG 5 ROFF 6 SROUND(arg) 7 S45ROUND(arg)
    Round(u8, u8),
    Mdap { r: bool, p: u8 },
    Miap { r: bool, p: u8, c: u8 },
    Mdrp { fl: u8, p: u8 },
    Mirp { fl: u8, p: u8, c: u8 },
    Srp { which: u8, p: u8 },
    Ip { p: u8 },
    AlignRp { p: u8 },
    Shp { a: bool, p: u8 },
    Shpix { p: u8, amt: i8 },
    Msirp { a: bool, p: u8, d: i16 },
    Deltap { arg: u8, p: u8 },
    Wcvtp { c: u8, v: i16 },
    Smd(u8),
    Scvtci(u8),
    Ssw(u8),
    Sswci(u8),
    Flip(bool),
    Isect { p: u8, a0: u8, a1: u8, b0: u8, b1: u8 },
    /// IF (MPPEM < k) body EIF
    IfPpemLt { k: u8, body: Vec<GOp> },
    Iup(bool),
    // ---- second generation -------------------------------------------------------------------------------------
    /// which: 0 SZP0 1 SZP1 2 SZP2 3 SZPS; glyph: true = zone 1
    Szp { which: u8, glyph: bool },
    Shc { a: bool, c: u8 },
    Shz { a: bool, e: bool },
    AlignPts { p1: u8, p2: u8 },
    Utp { p: u8 },
    /// kind: 0 SPVTL 1 SFVTL 2 SDPVTL; p1 read through zp1, p2 through zp2
    VecLine { kind: u8, perp: bool, p1: u8, p2: u8 },
    Sfvtpv,
    /// SPVFS / SFVFS
    VecFs { fv: bool, x: i16, y: i16 },
    /// SPVTCA / SFVTCA
    Vtca { fv: bool, x: bool },
    /// SLOOP n + kind: 0 IP 1 ALIGNRP 2 SHP[0] 3 SHP[1] 4 SHPIX(amt) 5 FLIPPT
    Loop { kind: u8, pts: Vec<u8>, amt: i8 },
    FlipRg { on: bool, lo: u8, hi: u8 },
    ShpixE { p: u8, e: Expr },
    MsirpE { a: bool, p: u8, e: Expr },
    WcvtpE { c: u8, e: Expr },
    Scfs { p: u8, e: Expr },
    Ws { s: u8, e: Expr },
    Wcvtf { c: u8, v: i16 },
    If { cond: Expr, then: Vec<GOp>, els: Vec<GOp> },
    /// kind: 0 JMPR 1 JROT 2 JROF over `skip` (forward)
    Jmp { kind: u8, cond: Expr, skip: Vec<GOp> },
    /// CALL (first argument set) or LOOPCALL (one iteration per argument set) of font-program function f
    Call { f: u8, looped: bool, args: Vec<CallArg> },
    ScanCtrl(u16),
    ScanType(u16),
    /// INSTCTRL: selector 1..=3 (control value program; selector 3 also in glyph programs)
    InstCtrl { sel: u8, on: bool },
    Sdb(u8),
    Sds(u8),
    /// which: 0..=2 DELTAP1..3; items (arg, point)
    DeltaPn { which: u8, items: Vec<(u8, u8)> },
    /// which: 0..=2 DELTAC1..3; items (arg, cvt)
    DeltaCn { which: u8, items: Vec<(u8, u8)> },
    Sangw(u16),
    Aa(u8),
    /// pushes + DUP/SWAP/ROLL/CINDEX/MINDEX/POP (kind 0) or CLEAR (kind 1), net stack effect zero
    StackJunk { kind: u8, vals: Vec<i16> },
}

/// a function of the font program
#[derive(Clone, Debug, Serialize, Deserialize, PartialEq)]
pub enum FDef {
    /// body = the opcode of this op only; its operands come from the caller's stack (`GOp::Call` args)
    Tpl(GOp),
    /// unary pipeline on the top of the stack: (kind, constant)
    /// 0 ABS 1 NEG 2 FLOOR 3 CEILING 4 ROUND[0] 5 NROUND[1] 6 +c 7 -c 8 MAX c 9 MIN c 10 DUP ADD 11 MUL c 12 DIV c
    /// 13 DUP 0 LT IF NEG EIF   14 DUP c GT IF c ADD ELSE c SUB EIF
    Arith(Vec<(u8, i16)>),
    /// graphics-state setters with inline operands
    State(Vec<GOp>),
    /// calls a lower-numbered function
    Chain(u8),
}

#[derive(Clone, Debug, Serialize, Deserialize, PartialEq)]
pub struct SimpleGlyph {
    pub contours: Vec<Vec<(i16, i16, bool)>>,
    pub program: Vec<GOp>,
    pub advance: u16,
    /// how flags and coordinates are written (all are valid encodings of the same points): 0 one flag byte per point and
    /// 16-bit deltas; 1 every flag carries REPEAT with count 0 (two bytes per point); 2 runs of equal flags compressed with
    /// REPEAT; 3 short vectors / same-as-previous bits where possible plus compressed runs; 4 a mixture by position
    #[serde(default)]
    pub enc: u8,
}

/// flag bytes, x bytes, y bytes for the points of a simple glyph in encoding style `enc`
fn encode_points(pts: &[(i32, i32, bool)], enc: u8) -> (Vec<u8>, Vec<u8>, Vec<u8>) {
    let (mut xs, mut ys) = (vec![], vec![]);
    let mut flags: Vec<u8> = vec![];
    let (mut lx, mut ly) = (0i32, 0i32);
    for (i, (x, y, on)) in pts.iter().enumerate() {
        let style = if enc == 4 { [0u8, 3, 1, 3][i % 4] } else { enc };
        let short = style == 3;
        let mut f = *on as u8;
        let (dx, dy) = (x - lx, y - ly);
        lx = *x;
        ly = *y;
        for (d, out, short_bit, same_bit) in [(dx, &mut xs, 0x02u8, 0x10u8), (dy, &mut ys, 0x04u8, 0x20u8)] {
            if short && d == 0 {
                f |= same_bit;
            } else if short && (-255..=255).contains(&d) {
                f |= short_bit | if d >= 0 { same_bit } else { 0 };
                out.push(d.unsigned_abs() as u8);
            } else {
                out.extend_from_slice(&(d as i16).to_be_bytes());
            }
        }
        flags.push(f);
    }
    let mut fb: Vec<u8> = vec![];
    let mut i = 0;
    while i < flags.len() {
        let style = if enc == 4 { [0u8, 3, 1, 3][i % 4] } else { enc };
        match style {
            1 => {
                fb.extend_from_slice(&[flags[i] | 0x08, 0]);
                i += 1;
            }
            2 | 3 => {
                let mut run = 1;
                while i + run < flags.len() && flags[i + run] == flags[i] && run < 256 {
                    run += 1;
                }
                if run >= 2 {
                    fb.extend_from_slice(&[flags[i] | 0x08, (run - 1) as u8]);
                } else {
                    fb.push(flags[i]);
                }
                i += run;
            }
            _ => {
                fb.push(flags[i]);
                i += 1;
            }
        }
    }
    (fb, xs, ys)
}

#[derive(Clone, Debug, Serialize, Deserialize, PartialEq)]
pub struct Component {
    /// index into the glyphs defined before this one
    pub target: u8,
    /// offsets, or (parent point, child point) when `by_points`
    pub a: i16,
    pub b: i16,
    pub by_points: bool,
    pub round_to_grid: bool,
    /// 0 none, 1 uniform scale, 2 x/y scale, 3 2x2
    pub scale_kind: u8,
    pub scale: [i16; 4],
    pub use_my_metrics: bool,
    /// 0 neither flag, 1 SCALED_COMPONENT_OFFSET, 2 UNSCALED_COMPONENT_OFFSET, 3 both
    #[serde(default)]
    pub offset_mode: u8,
}

/// instructions of a composite glyph (WE_HAVE_INSTRUCTIONS), run over the assembled points
#[derive(Clone, Debug, Serialize, Deserialize, PartialEq, Default)]
pub struct CompProg {
    pub ops: Vec<GOp>,
    /// flag on every component (else on the last one only)
    pub flag_on_all: bool,
}

#[derive(Clone, Debug, Serialize, Deserialize, PartialEq)]
pub struct SynthFont {
    pub upem: u16,
    pub cvt: Vec<i16>,
    pub simple: Vec<SimpleGlyph>,
    pub composites: Vec<Vec<Component>>,
    pub prep: Vec<GOp>,
    /// maxp.maxTwilightPoints (0: first-generation font, twilight zone never used, default maxp)
    #[serde(default)]
    pub twilight: u8,
    /// twilight points below (this % (twilight + 1)) are written by the control value program only
    #[serde(default)]
    pub tw_prep_owned: u8,
    #[serde(default)]
    pub fdefs: Vec<FDef>,
    /// parallel to `composites`
    #[serde(default)]
    pub comp_programs: Vec<CompProg>,
}

fn push(out: &mut Vec<u8>, vals: &[i32]) {
    if vals.is_empty() {
        return;
    }
    let bytes = vals.iter().all(|v| (0..=255).contains(v));
    for chunk in vals.chunks(255) {
        if bytes {
            if chunk.len() <= 8 {
                out.push(0xB0 + chunk.len() as u8 - 1);
            } else {
                out.push(0x40);
                out.push(chunk.len() as u8);
            }
            out.extend(chunk.iter().map(|v| *v as u8));
        } else {
            if chunk.len() <= 8 {
                out.push(0xB8 + chunk.len() as u8 - 1);
            } else {
                out.push(0x41);
                out.push(chunk.len() as u8);
            }
            for v in chunk {
                out.extend_from_slice(&(*v as i16).to_be_bytes());
            }
        }
    }
}

pub type Classes = BTreeMap<(&'static str, u8), u32>;

#[derive(Clone, Copy, Debug)]
struct St {
    zp: [usize; 3],
    rp: [usize; 3],
    cvt_copied: bool,
}

const CLAMP: i64 = 16384;

/// zone-aware program encoder (see the module documentation for the rules)
pub struct Enc<'a> {
    pub out: Vec<u8>,
    /// points of zone 0 (twilight) and zone 1 (glyph, incl. the two horizontal phantom points)
    n: [usize; 2],
    own_from: usize,
    ncontours: usize,
    ncvt: usize,
    nstore: usize,
    fdefs: &'a [FDef],
    is_prep: bool,
    st: St,
    nest: u32,
    /// unscaled coordinates of a simple glyph's own points (empty elsewhere)
    pub coords: Vec<(i32, i32)>,
    pub classes: Classes,
}

fn is_state_op(op: &GOp) -> bool {
    matches!(
        op,
        GOp::Svtca(_) | GOp::Round(..) | GOp::Smd(_) | GOp::Scvtci(_) | GOp::Ssw(_) | GOp::Sswci(_) | GOp::Flip(_) | GOp::Sdb(_) | GOp::Sds(_) | GOp::ScanCtrl(_) | GOp::ScanType(_) | GOp::Vtca { .. } | GOp::VecFs { .. } | GOp::Sfvtpv | GOp::Sangw(_) | GOp::Aa(_)
    )
}

fn is_template_op(op: &GOp) -> bool {
    matches!(
        op,
        GOp::Mdap { .. } | GOp::Miap { .. } | GOp::Mdrp { .. } | GOp::Mirp { .. } | GOp::Msirp { .. } | GOp::Ip { .. } | GOp::AlignRp { .. } | GOp::Shp { .. } | GOp::Shpix { .. } | GOp::Wcvtp { .. } | GOp::Utp { .. } | GOp::AlignPts { .. } | GOp::Deltap { .. }
    )
}

fn instantiate(t: &GOp, a: &CallArg) -> GOp {
    match t {
        GOp::Mdap { r, .. } => GOp::Mdap { r: *r, p: a.a },
        GOp::Miap { r, .. } => GOp::Miap { r: *r, p: a.a, c: a.b },
        GOp::Mdrp { fl, .. } => GOp::Mdrp { fl: *fl, p: a.a },
        GOp::Mirp { fl, .. } => GOp::Mirp { fl: *fl, p: a.a, c: a.b },
        GOp::Msirp { a: f, .. } => GOp::Msirp { a: *f, p: a.a, d: a.v.clamp(-300, 300) },
        GOp::Ip { .. } => GOp::Ip { p: a.a },
        GOp::AlignRp { .. } => GOp::AlignRp { p: a.a },
        GOp::Shp { a: f, .. } => GOp::Shp { a: *f, p: a.a },
        GOp::Shpix { .. } => GOp::Shpix { p: a.a, amt: a.v.clamp(-64, 64) as i8 },
        GOp::Wcvtp { .. } => GOp::Wcvtp { c: a.a, v: a.v },
        GOp::Utp { .. } => GOp::Utp { p: a.a },
        GOp::AlignPts { .. } => GOp::AlignPts { p1: a.a, p2: a.b },
        GOp::Deltap { .. } => GOp::Deltap { arg: a.b, p: a.a },
        other => other.clone(),
    }
}

fn arith_bound(steps: &[(u8, i16)], mut b: i64) -> i64 {
    for (k, c) in steps.iter().take(4) {
        let c = (*c as i64).abs().min(2000);
        b = match k % 15 {
            4 | 5 => b + 1024,
            6 | 7 | 14 => b + c,
            8 | 9 => b.max(c),
            10 | 11 | 12 => b * 2 + 1,
            _ => b,
        };
    }
    b
}

fn encode_arith(steps: &[(u8, i16)], out: &mut Vec<u8>) {
    for (k, c) in steps.iter().take(4) {
        let c = (*c as i32).clamp(-2000, 2000);
        let cc = 32 + (c.abs() % 97);
        match k % 15 {
            0 => out.push(0x64),
            1 => out.push(0x65),
            2 => out.push(0x66),
            3 => out.push(0x67),
            4 => out.push(0x68),
            5 => out.push(0x6D),
            6 => {
                push(out, &[c]);
                out.push(0x60)
            }
            7 => {
                push(out, &[c]);
                out.push(0x61)
            }
            8 => {
                push(out, &[c]);
                out.push(0x8B)
            }
            9 => {
                push(out, &[c]);
                out.push(0x8C)
            }
            10 => out.extend_from_slice(&[0x20, 0x60]),
            11 => {
                push(out, &[cc]);
                out.push(0x63)
            }
            12 => {
                push(out, &[cc]);
                out.push(0x62)
            }
            13 => {
                out.push(0x20);
                push(out, &[0]);
                out.extend_from_slice(&[0x50, 0x58, 0x65, 0x59]);
            }
            _ => {
                out.push(0x20);
                push(out, &[c]);
                out.extend_from_slice(&[0x52, 0x58]);
                push(out, &[c]);
                out.push(0x60);
                out.push(0x1B);
                push(out, &[c]);
                out.push(0x61);
                out.push(0x59);
            }
        }
    }
}

/// the font program: one FDEF per entry
pub fn encode_fpgm(fdefs: &[FDef], ncvt: usize) -> Vec<u8> {
    let mut out = vec![];
    for (i, f) in fdefs.iter().enumerate() {
        push(&mut out, &[i as i32]);
        out.push(0x2C);
        match f {
            FDef::Tpl(op) if is_template_op(op) => {
                // operands come from the caller; DELTAP1's count is part of the body
                match op {
                    GOp::Mdap { r, .. } => out.push(0x2E + *r as u8),
                    GOp::Miap { r, .. } => out.push(0x3E + *r as u8),
                    GOp::Mdrp { fl, .. } => out.push(0xC0 + (fl & 0x1F)),
                    GOp::Mirp { fl, .. } => out.push(0xE0 + (fl & 0x1F)),
                    GOp::Msirp { a, .. } => out.push(0x3A + *a as u8),
                    GOp::Ip { .. } => out.push(0x39),
                    GOp::AlignRp { .. } => out.push(0x3C),
                    GOp::Shp { a, .. } => out.push(0x32 + *a as u8),
                    GOp::Shpix { .. } => out.push(0x38),
                    GOp::Wcvtp { .. } => out.push(0x44),
                    GOp::Utp { .. } => out.push(0x29),
                    GOp::AlignPts { .. } => out.push(0x27),
                    _ => {
                        push(&mut out, &[1]);
                        out.push(0x5D)
                    }
                }
            }
            FDef::Tpl(op) => {
                if is_state_op(op) {
                    let mut e = Enc::new(&[], [0, 0], 0, 0, ncvt, true);
                    e.op(op);
                    out.extend_from_slice(&e.out);
                }
            }
            FDef::Arith(steps) => encode_arith(steps, &mut out),
            FDef::State(ops) => {
                let mut e = Enc::new(&[], [0, 0], 0, 0, ncvt, true);
                for op in ops.iter().filter(|o| is_state_op(o)).take(4) {
                    e.op(op);
                }
                out.extend_from_slice(&e.out);
            }
            FDef::Chain(t) => {
                if i > 0 {
                    push(&mut out, &[(*t as usize % i) as i32]);
                    out.push(0x2B);
                }
            }
        }
        out.push(0x2D);
    }
    out
}

/// what a call of function `f` ends up executing
fn resolve(fdefs: &[FDef], f: usize) -> Option<&FDef> {
    let mut i = f;
    loop {
        match &fdefs[i] {
            FDef::Chain(t) => {
                if i == 0 {
                    return None;
                }
                i = *t as usize % i;
            }
            other => return Some(other),
        }
    }
}

impl<'a> Enc<'a> {
    pub fn new(fdefs: &'a [FDef], n: [usize; 2], own_from: usize, ncontours: usize, ncvt: usize, is_prep: bool) -> Self {
        Enc { out: vec![], n, own_from, ncontours, ncvt, nstore: if n[0] > 0 { 8 } else { 64 }, fdefs, is_prep, st: St { zp: [1, 1, 1], rp: [0, 0, 0], cvt_copied: false }, nest: 0, coords: vec![], classes: Classes::new() }
    }

    fn hit(&mut self, name: &'static str) {
        let code = (self.st.zp[0] | self.st.zp[1] << 1 | self.st.zp[2] << 2) as u8;
        *self.classes.entry((name, code)).or_insert(0) += 1;
    }
    fn hit0(&mut self, name: &'static str) {
        *self.classes.entry((name, 0xFF)).or_insert(0) += 1;
    }

    fn emit_szp(&mut self, i: usize, z: usize) {
        push(&mut self.out, &[z as i32]);
        self.out.push(0x13 + i as u8);
        self.st.zp[i] = z;
    }
    fn emit_srp(&mut self, k: usize, p: usize) {
        push(&mut self.out, &[p as i32]);
        self.out.push(0x10 + k as u8);
        self.st.rp[k] = p;
    }
    /// zone pointer i must address a non-empty zone
    fn need_zone(&mut self, i: usize) -> bool {
        if self.n[self.st.zp[i]] > 0 {
            return true;
        }
        let other = 1 - self.st.zp[i];
        if self.n[other] == 0 {
            return false;
        }
        self.emit_szp(i, other);
        true
    }
    /// reference point k, read through zone pointer i, must be in range
    fn need_rp(&mut self, k: usize, i: usize, raw: u8) {
        let n = self.n[self.st.zp[i]];
        if self.st.rp[k] >= n {
            self.emit_srp(k, raw as usize % n);
        }
    }
    /// point operand read (or written) through zone pointer i
    fn pt(&self, i: usize, raw: u8, write: bool) -> i32 {
        let z = self.st.zp[i];
        let n = self.n[z];
        if z == 0 && write && !self.is_prep && self.own_from < n {
            (self.own_from + raw as usize % (n - self.own_from)) as i32
        } else {
            (raw as usize % n) as i32
        }
    }
    fn cv(&self, c: u8) -> i32 {
        (c as usize % self.ncvt) as i32
    }
    /// whole-zone writes through zp2 (SHC, SHZ) are allowed on the twilight zone only where nothing the control value
    /// program owns can be modified
    fn zp2_whole_zone_ok(&mut self) -> bool {
        if self.st.zp[2] == 0 && !(self.is_prep || self.own_from == 0) {
            if self.n[1] == 0 {
                return false;
            }
            self.emit_szp(2, 1);
        }
        true
    }

    fn clamp(&mut self, l: i64) {
        push(&mut self.out, &[l as i32]);
        self.out.push(0x8C);
        push(&mut self.out, &[-(l as i32)]);
        self.out.push(0x8B);
        self.hit0("MIN");
        self.hit0("MAX");
    }

    /// emits code leaving one value on the stack; returns a bound of its magnitude
    fn ex(&mut self, e: &Expr, depth: u32) -> i64 {
        if depth > 4 {
            push(&mut self.out, &[0]);
            return 0;
        }
        let d = depth + 1;
        match e {
            Expr::Const(v) => {
                push(&mut self.out, &[*v as i32]);
                (*v as i64).abs()
            }
            Expr::Mppem => {
                self.out.push(0x4B);
                self.hit0("MPPEM");
                4096
            }
            Expr::Mps => {
                self.out.push(0x4C);
                self.hit0("MPS");
                1 << 18
            }
            Expr::Gc { orig, p } => {
                if !self.need_zone(2) {
                    push(&mut self.out, &[0]);
                    return 0;
                }
                let q = self.pt(2, *p, false);
                push(&mut self.out, &[q]);
                self.out.push(0x46 + *orig as u8);
                self.hit(if *orig { "GC[orig]" } else { "GC[cur]" });
                1 << 24
            }
            Expr::Md { orig, p0, p1 } => {
                if !(self.need_zone(0) && self.need_zone(1)) {
                    push(&mut self.out, &[0]);
                    return 0;
                }
                let a = self.pt(0, *p0, false);
                let b = self.pt(1, *p1, false);
                push(&mut self.out, &[a, b]);
                self.out.push(if *orig { 0x4A } else { 0x49 });
                self.hit(if *orig { "MD[orig]" } else { "MD[cur]" });
                1 << 24
            }
            Expr::Rs(s) => {
                push(&mut self.out, &[(*s as usize % self.nstore) as i32]);
                self.out.push(0x43);
                self.hit0("RS");
                1 << 15
            }
            Expr::Rcvt(c) => {
                if self.ncvt == 0 {
                    push(&mut self.out, &[0]);
                    return 0;
                }
                let cvi = self.cv(*c);
                    push(&mut self.out, &[cvi]);
                self.out.push(0x45);
                self.hit0("RCVT");
                1 << 18
            }
            Expr::GetInfo(sel) => {
                push(&mut self.out, &[(*sel & 0x3FFF) as i32]);
                self.out.push(0x88);
                self.hit0("GETINFO");
                1 << 20
            }
            Expr::VecComp { fv, y } => {
                self.out.push(0x0C + *fv as u8);
                if *y {
                    self.out.extend_from_slice(&[0x23, 0x21]);
                } else {
                    self.out.push(0x21);
                }
                self.hit0(if *fv { "GFV" } else { "GPV" });
                16384
            }
            Expr::Depth => {
                self.out.push(0x24);
                self.hit0("DEPTH");
                1024
            }
            Expr::Un(k, a) => {
                let b = self.ex(a, d);
                let k = k % 15;
                let (opc, name): (u8, &'static str) = match k {
                    0 => (0x64, "ABS"),
                    1 => (0x65, "NEG"),
                    2 => (0x66, "FLOOR"),
                    3 => (0x67, "CEILING"),
                    4..=7 => (0x68 + (k - 4), "ROUND"),
                    8..=11 => (0x6C + (k - 8), "NROUND"),
                    12 => (0x5C, "NOT"),
                    13 => (0x56, "ODD"),
                    _ => (0x57, "EVEN"),
                };
                self.out.push(opc);
                self.hit0(name);
                match k {
                    12..=14 => 1,
                    _ => b + 1024,
                }
            }
            Expr::Bin(k, a, b) => {
                let k = k % 13;
                let mut ba = self.ex(a, d);
                if k == 2 && ba > CLAMP {
                    self.clamp(CLAMP);
                    ba = CLAMP;
                }
                let mut bb = self.ex(b, d);
                if k == 2 && bb > CLAMP {
                    self.clamp(CLAMP);
                    bb = CLAMP;
                }
                let (opc, name): (u8, &'static str) = match k {
                    0 => (0x60, "ADD"),
                    1 => (0x61, "SUB"),
                    2 => (0x63, "MUL"),
                    3 => (0x8B, "MAX"),
                    4 => (0x8C, "MIN"),
                    5 => (0x50, "LT"),
                    6 => (0x51, "LTEQ"),
                    7 => (0x52, "GT"),
                    8 => (0x53, "GTEQ"),
                    9 => (0x54, "EQ"),
                    10 => (0x55, "NEQ"),
                    11 => (0x5A, "AND"),
                    _ => (0x5B, "OR"),
                };
                self.out.push(opc);
                self.hit0(name);
                let mut r = match k {
                    0 | 1 => ba + bb,
                    2 => ba * bb / 64 + 1,
                    3 | 4 => ba.max(bb),
                    _ => 1,
                };
                if r > 1 << 28 {
                    self.clamp(CLAMP);
                    r = CLAMP;
                }
                r
            }
            Expr::DivC(a, c) => {
                let mut ba = self.ex(a, d);
                if ba > CLAMP {
                    self.clamp(CLAMP);
                    ba = CLAMP;
                }
                let c = if *c == 0 { 64 } else { *c as i32 };
                push(&mut self.out, &[c]);
                self.out.push(0x62);
                self.hit0("DIV");
                ba * 64 / (c as i64).abs() + 1
            }
            Expr::Shuf(k, a, b, c) => match k % 5 {
                0 => {
                    self.ex(a, d);
                    self.ex(b, d);
                    let bc = self.ex(c, d);
                    self.out.extend_from_slice(&[0x8A, 0x21, 0x23, 0x21]);
                    self.hit0("ROLL");
                    self.hit0("SWAP");
                    self.hit0("POP");
                    bc
                }
                1 => {
                    let ba = self.ex(a, d);
                    self.ex(b, d);
                    let bc = self.ex(c, d);
                    push(&mut self.out, &[3]);
                    self.out.extend_from_slice(&[0x25, 0x60, 0x23, 0x21, 0x23, 0x21]);
                    self.hit0("CINDEX");
                    ba + bc
                }
                2 => {
                    self.ex(a, d);
                    let bb = self.ex(b, d);
                    let bc = self.ex(c, d);
                    push(&mut self.out, &[2]);
                    self.out.extend_from_slice(&[0x26, 0x61, 0x23, 0x21]);
                    self.hit0("MINDEX");
                    bb + bc
                }
                3 => {
                    let ba = self.ex(a, d);
                    self.out.push(0x20);
                    let bb = self.ex(b, d);
                    self.out.extend_from_slice(&[0x8B, 0x60]);
                    self.hit0("DUP");
                    ba + ba.max(bb)
                }
                _ => {
                    self.out.push(0x24);
                    let ba = self.ex(a, d);
                    self.out.push(0x60);
                    self.hit0("DEPTH");
                    ba + 1024
                }
            },
            Expr::Call(f, a) => {
                let mut ba = self.ex(a, d);
                if self.fdefs.is_empty() {
                    return ba;
                }
                let fi = *f as usize % self.fdefs.len();
                let fdefs = self.fdefs;
                if let Some(FDef::Arith(steps)) = resolve(fdefs, fi) {
                    if ba > CLAMP {
                        self.clamp(CLAMP);
                        ba = CLAMP;
                    }
                    push(&mut self.out, &[fi as i32]);
                    self.out.push(0x2B);
                    self.hit0("CALL(arith)");
                    if matches!(fdefs[fi], FDef::Chain(_)) {
                        self.hit0("CALL(chained)");
                    }
                    arith_bound(steps, ba)
                } else {
                    ba
                }
            }
        }
    }

    fn expr(&mut self, e: &Expr, limit: Option<i64>) {
        let b = self.ex(e, 0);
        if let Some(l) = limit {
            if b > l {
                self.clamp(l);
            }
        }
    }

    /// ops whose operands can also come from a caller's stack: fix-ups, operands, opcode, tracked effects
    fn simple_inner(&mut self, op: &GOp) -> Option<(Vec<i32>, u8, &'static str)> {
        match op {
            GOp::Mdap { r, p } => {
                if !self.need_zone(0) {
                    return None;
                }
                let q = self.pt(0, *p, true);
                self.st.rp[0] = q as usize;
                self.st.rp[1] = q as usize;
                Some((vec![q], 0x2E + *r as u8, "MDAP"))
            }
            GOp::Miap { r, p, c } => {
                if self.ncvt == 0 || !self.need_zone(0) {
                    return None;
                }
                let q = self.pt(0, *p, true);
                self.st.rp[0] = q as usize;
                self.st.rp[1] = q as usize;
                Some((vec![q, self.cv(*c)], 0x3E + *r as u8, "MIAP"))
            }
            GOp::Mdrp { fl, p } => {
                if !(self.need_zone(0) && self.need_zone(1)) {
                    return None;
                }
                self.need_rp(0, 0, *p);
                let q = self.pt(1, *p, true);
                self.st.rp[1] = self.st.rp[0];
                self.st.rp[2] = q as usize;
                if fl & 16 != 0 {
                    self.st.rp[0] = q as usize;
                }
                Some((vec![q], 0xC0 + (fl & 0x1F), "MDRP"))
            }
            GOp::Mirp { fl, p, c } => {
                if self.ncvt == 0 || !(self.need_zone(0) && self.need_zone(1)) {
                    return None;
                }
                self.need_rp(0, 0, *p);
                let q = self.pt(1, *p, true);
                self.st.rp[1] = self.st.rp[0];
                self.st.rp[2] = q as usize;
                if fl & 16 != 0 {
                    self.st.rp[0] = q as usize;
                }
                // CVT index -1 is defined (distance 0)
                let c = if *c == 255 && self.n[0] > 0 { -1 } else { self.cv(*c) };
                Some((vec![q, c], 0xE0 + (fl & 0x1F), "MIRP"))
            }
            GOp::Msirp { a, p, d } => {
                if !(self.need_zone(0) && self.need_zone(1)) {
                    return None;
                }
                self.need_rp(0, 0, *p);
                let q = self.pt(1, *p, true);
                self.st.rp[1] = self.st.rp[0];
                self.st.rp[2] = q as usize;
                if *a {
                    self.st.rp[0] = q as usize;
                }
                Some((vec![q, (*d as i32).clamp(-2000, 2000)], 0x3A + *a as u8, "MSIRP"))
            }
            GOp::Ip { p } => {
                if !(self.need_zone(0) && self.need_zone(1) && self.need_zone(2)) {
                    return None;
                }
                self.need_rp(1, 0, *p);
                self.need_rp(2, 1, *p);
                Some((vec![self.pt(2, *p, true)], 0x39, "IP"))
            }
            GOp::AlignRp { p } => {
                if !(self.need_zone(0) && self.need_zone(1)) {
                    return None;
                }
                self.need_rp(0, 0, *p);
                Some((vec![self.pt(1, *p, true)], 0x3C, "ALIGNRP"))
            }
            GOp::Shp { a, p } => {
                let (k, i) = if *a { (1, 0) } else { (2, 1) };
                if !(self.need_zone(i) && self.need_zone(2)) {
                    return None;
                }
                self.need_rp(k, i, *p);
                Some((vec![self.pt(2, *p, true)], 0x32 + *a as u8, if *a { "SHP[rp1]" } else { "SHP[rp2]" }))
            }
            GOp::Shpix { p, amt } => {
                if !self.need_zone(2) {
                    return None;
                }
                Some((vec![self.pt(2, *p, true), *amt as i32], 0x38, "SHPIX"))
            }
            GOp::Wcvtp { c, v } => {
                if self.ncvt == 0 {
                    return None;
                }
                self.st.cvt_copied = true;
                Some((vec![self.cv(*c), (*v as i32).clamp(-4000, 4000)], 0x44, "WCVTP"))
            }
            GOp::Utp { p } => {
                if !self.need_zone(0) {
                    return None;
                }
                Some((vec![self.pt(0, *p, true)], 0x29, "UTP"))
            }
            GOp::AlignPts { p1, p2 } => {
                if !(self.need_zone(0) && self.need_zone(1)) {
                    return None;
                }
                Some((vec![self.pt(1, *p1, true), self.pt(0, *p2, true)], 0x27, "ALIGNPTS"))
            }
            GOp::Deltap { arg, p } => {
                if !self.need_zone(0) {
                    return None;
                }
                Some((vec![*arg as i32, self.pt(0, *p, true), 1], 0x5D, "DELTAP1"))
            }
            _ => None,
        }
    }

    fn simple(&mut self, op: &GOp, allow_fix: bool) -> Option<(Vec<i32>, u8)> {
        let snap = (self.st, self.out.len());
        match self.simple_inner(op) {
            Some((v, opc, name)) if allow_fix || self.out.len() == snap.1 => {
                // recorded with the zone pointers in effect when the instruction runs
                self.hit(name);
                Some((v, opc))
            }
            _ => {
                self.st = snap.0;
                self.out.truncate(snap.1);
                None
            }
        }
    }

    fn restore(&mut self, saved: St) {
        for i in 0..3 {
            if self.st.zp[i] != saved.zp[i] {
                self.emit_szp(i, saved.zp[i]);
            }
        }
        for k in 0..3 {
            if self.st.rp[k] != saved.rp[k] {
                self.emit_srp(k, saved.rp[k]);
            }
        }
        self.st.cvt_copied = saved.cvt_copied;
    }

    /// conditionally executed code: leaves the tracked state as it found it
    fn body(&mut self, ops: &[GOp]) {
        let saved = self.st;
        self.nest += 1;
        for op in ops.iter().take(6) {
            if self.nest > 2 && matches!(op, GOp::If { .. } | GOp::Jmp { .. } | GOp::IfPpemLt { .. }) {
                continue;
            }
            self.op(op);
        }
        self.nest -= 1;
        self.restore(saved);
    }

    /// re-initialises every twilight point a glyph program may write (position = original position on a diagonal,
    /// both touch flags set), so that nothing an earlier glyph left there can be observed
    fn twilight_prologue(&mut self) {
        if self.is_prep || self.n[0] == 0 || self.ncvt == 0 || self.own_from >= self.n[0] {
            return;
        }
        let diag: [(i32, i32); 4] = [(0x2D41, 0x2D41), (0x2D41, -0x2D41), (0x3000, 0x1000), (0x1000, 0x3C00)];
        let (x, y) = diag[(self.own_from + self.ncvt) % 4];
        push(&mut self.out, &[x, y]);
        self.out.push(0x0A); // SPVFS
        self.out.push(0x0E); // SFVTPV
        self.emit_szp(0, 0);
        let mut vals = vec![];
        for p in (self.own_from..self.n[0]).rev() {
            vals.push(p as i32);
            vals.push(((p * 7 + self.ncvt) % self.ncvt) as i32);
        }
        push(&mut self.out, &vals);
        for _ in self.own_from..self.n[0] {
            self.out.push(0x3E);
        }
        self.out.push(0x01); // SVTCA[x]: the default vectors
        self.emit_szp(0, 1);
        self.st.rp[0] = self.n[0] - 1;
        self.st.rp[1] = self.n[0] - 1;
        self.hit0("twilight-prologue");
    }

    /// FreeType runs the control value program a second time when the first glyph is loaded with a smooth hinting
    /// target (tt_loader_init: "re-executing `prep' table"), then *without* clearing the twilight zone, the storage
    /// area and the graphics state the first run left: the program must compute the same from either start. This
    /// prologue puts everything the rest of the program can observe into the clean-start state.
    fn prep_prologue(&mut self) {
        let mut v = vec![];
        for s in 0..self.nstore {
            v.push(s as i32);
            v.push(0);
        }
        push(&mut self.out, &v);
        for _ in 0..self.nstore {
            self.out.push(0x42); // WS
        }
        self.out.push(0x18); // RTG
        for (val, opc) in [(64, 0x1A), (68, 0x1D), (0, 0x1E), (0, 0x1F), (9, 0x5E), (3, 0x5F), (0, 0x85)] {
            push(&mut self.out, &[val]);
            self.out.push(opc);
        }
        self.out.push(0x4D); // FLIPON
        for sel in 1..=3 {
            push(&mut self.out, &[0, sel]);
            self.out.push(0x8E);
        }
        // every twilight point: position = original position = (0, 0), both touch flags set (MIAP with a CVT entry
        // that is zero for the moment)
        push(&mut self.out, &[0, 0]);
        self.out.push(0x45); // RCVT: [0, old value]
        push(&mut self.out, &[0, 0]);
        self.out.push(0x44); // WCVTP
        push(&mut self.out, &[0x2D41, 0x2D41]);
        self.out.push(0x0A); // SPVFS
        self.out.push(0x0E); // SFVTPV
        self.emit_szp(0, 0);
        let mut v = vec![];
        for p in (0..self.n[0]).rev() {
            v.push(p as i32);
            v.push(0);
        }
        push(&mut self.out, &v);
        for _ in 0..self.n[0] {
            self.out.push(0x3E);
        }
        self.out.push(0x44); // WCVTP: the old value back
        self.out.push(0x01); // SVTCA[x]
        self.st.rp[0] = self.n[0] - 1;
        self.st.rp[1] = self.n[0] - 1;
        self.hit0("prep-prologue");
    }

    pub fn program(&mut self, ops: &[GOp]) {
        fn uses_twilight(ops: &[GOp]) -> bool {
            ops.iter().any(|o| match o {
                GOp::Szp { glyph, .. } => !*glyph,
                GOp::If { then, els, .. } => uses_twilight(then) || uses_twilight(els),
                GOp::Jmp { skip, .. } => uses_twilight(skip),
                GOp::IfPpemLt { body, .. } => uses_twilight(body),
                _ => false,
            })
        }
        if self.is_prep {
            if self.n[0] > 0 && self.ncvt > 0 && !ops.is_empty() {
                self.prep_prologue();
            }
        } else if uses_twilight(ops) {
            self.twilight_prologue();
        }
        for op in ops {
            self.op(op);
        }
    }

    pub fn op(&mut self, op: &GOp) {
        if is_template_op(op) {
            if let Some((v, opc)) = self.simple(op, true) {
                push(&mut self.out, &v);
                self.out.push(opc);
            }
            return;
        }
        match op {
            GOp::Svtca(x) => {
                self.out.push(*x as u8);
                self.hit0("SVTCA");
            }
            GOp::Round(k, arg) => {
                match k % 8 {
                    0 => self.out.push(0x18),
                    1 => self.out.push(0x19),
                    2 => self.out.push(0x3D),
                    3 => self.out.push(0x7D),
                    4 => self.out.push(0x7C),
                    5 => self.out.push(0x7A),
                    6 => {
                        push(&mut self.out, &[*arg as i32]);
                        self.out.push(0x76)
                    }
                    _ => {
                        push(&mut self.out, &[*arg as i32]);
                        self.out.push(0x77)
                    }
                }
                self.hit0("round-state");
            }
            GOp::Srp { which, p } => {
                let k = (*which % 3) as usize;
                let n = self.n[self.st.zp[if k == 2 { 1 } else { 0 }]];
                if n > 0 {
                    self.emit_srp(k, *p as usize % n);
                    self.hit0("SRP");
                }
            }
            GOp::Smd(v) => {
                push(&mut self.out, &[*v as i32]);
                self.out.push(0x1A);
                self.hit0("SMD");
            }
            GOp::Scvtci(v) => {
                push(&mut self.out, &[*v as i32]);
                self.out.push(0x1D);
                self.hit0("SCVTCI");
            }
            GOp::Ssw(v) => {
                push(&mut self.out, &[*v as i32]);
                self.out.push(0x1F);
                self.hit0("SSW");
            }
            GOp::Sswci(v) => {
                push(&mut self.out, &[*v as i32]);
                self.out.push(0x1E);
                self.hit0("SSWCI");
            }
            GOp::Flip(on) => {
                self.out.push(if *on { 0x4D } else { 0x4E });
                self.hit0("FLIPON/OFF");
            }
            GOp::Isect { p, a0, a1, b0, b1 } => {
                if self.need_zone(0) && self.need_zone(1) && self.need_zone(2) {
                    let v = [self.pt(2, *p, true), self.pt(1, *a0, false), self.pt(1, *a1, false), self.pt(0, *b0, false), self.pt(0, *b1, false)];
                    push(&mut self.out, &v);
                    self.out.push(0x0F);
                    self.hit("ISECT");
                }
            }
            GOp::IfPpemLt { k, body } => {
                self.out.push(0x4B); // MPPEM
                push(&mut self.out, &[*k as i32]);
                self.out.push(0x50); // LT
                self.out.push(0x58); // IF
                let flat: Vec<GOp> = body.iter().filter(|o| !matches!(o, GOp::IfPpemLt { .. })).cloned().collect();
                self.body(&flat);
                self.out.push(0x59); // EIF
                self.hit0("IF");
            }
            GOp::Iup(x) => {
                if self.n[1] > 0 {
                    self.out.push(0x30 + *x as u8);
                    self.hit0("IUP");
                }
            }
            GOp::Szp { which, glyph } => {
                let z = *glyph as usize;
                if self.n[z] > 0 {
                    push(&mut self.out, &[z as i32]);
                    match which % 4 {
                        3 => {
                            self.out.push(0x16);
                            self.st.zp = [z, z, z];
                            self.hit0("SZPS");
                        }
                        i => {
                            self.out.push(0x13 + i);
                            self.st.zp[i as usize] = z;
                            self.hit0("SZP0/1/2");
                        }
                    }
                }
            }
            GOp::Shc { a, c } => {
                let (k, i) = if *a { (1, 0) } else { (2, 1) };
                if self.need_zone(i) && self.need_zone(2) && self.zp2_whole_zone_ok() {
                    self.need_rp(k, i, *c);
                    let contour = if self.st.zp[2] == 0 {
                        0
                    } else if self.ncontours == 0 {
                        return;
                    } else {
                        (*c as usize % self.ncontours) as i32
                    };
                    push(&mut self.out, &[contour]);
                    self.out.push(0x34 + *a as u8);
                    self.hit(if *a { "SHC[rp1]" } else { "SHC[rp2]" });
                }
            }
            GOp::Shz { a, e } => {
                let (k, i) = if *a { (1, 0) } else { (2, 1) };
                if self.need_zone(i) && self.need_zone(2) && self.zp2_whole_zone_ok() {
                    self.need_rp(k, i, *e as u8);
                    push(&mut self.out, &[*e as i32]);
                    self.out.push(0x36 + *a as u8);
                    self.hit(if *a { "SHZ[rp1]" } else { "SHZ[rp2]" });
                }
            }
            GOp::VecLine { kind, perp, p1, p2 } => {
                if self.need_zone(1) && self.need_zone(2) {
                    let v = [self.pt(1, *p1, false), self.pt(2, *p2, false)];
                    push(&mut self.out, &v);
                    // SDPVTL[perpendicular]: FreeType drops the rotation of the projection vector as well when the
                    // *original* positions coincide; only used where the original positions are known to differ
                    let mut perp = *perp;
                    if kind % 3 == 2 && perp {
                        let far = match (self.st.zp[1], self.st.zp[2], self.coords.get(v[0] as usize), self.coords.get(v[1] as usize)) {
                            (1, 1, Some(a), Some(b)) => (a.0 - b.0).abs() >= 64 || (a.1 - b.1).abs() >= 64,
                            _ => false,
                        };
                        perp = far;
                    }
                    let perp = &perp;
                    let (opc, name): (u8, &'static str) = match kind % 3 {
                        0 => (0x06, "SPVTL"),
                        1 => (0x08, "SFVTL"),
                        _ => (0x86, "SDPVTL"),
                    };
                    self.out.push(opc + *perp as u8);
                    self.hit(name);
                }
            }
            GOp::Sfvtpv => {
                self.out.push(0x0E);
                self.hit0("SFVTPV");
            }
            GOp::VecFs { fv, x, y } => {
                push(&mut self.out, &[*x as i32, *y as i32]);
                self.out.push(0x0A + *fv as u8);
                self.hit0(if *fv { "SFVFS" } else { "SPVFS" });
            }
            GOp::Vtca { fv, x } => {
                self.out.push(if *fv { 0x04 } else { 0x02 } + *x as u8);
                self.hit0(if *fv { "SFVTCA" } else { "SPVTCA" });
            }
            GOp::Loop { kind, pts, amt } => {
                if pts.is_empty() {
                    return;
                }
                let pts = &pts[..pts.len().min(6)];
                let kind = kind % 6;
                let ok = match kind {
                    0 => self.need_zone(0) && self.need_zone(1) && self.need_zone(2),
                    1 => self.need_zone(0) && self.need_zone(1),
                    2 => self.need_zone(1) && self.need_zone(2),
                    3 => self.need_zone(0) && self.need_zone(2),
                    4 => self.need_zone(2),
                    _ => self.n[1] > 0,
                };
                if !ok {
                    return;
                }
                match kind {
                    0 => {
                        self.need_rp(1, 0, pts[0]);
                        self.need_rp(2, 1, pts[0]);
                    }
                    1 => self.need_rp(0, 0, pts[0]),
                    2 => self.need_rp(2, 1, pts[0]),
                    3 => self.need_rp(1, 0, pts[0]),
                    _ => {}
                }
                let mut v: Vec<i32> = pts
                    .iter()
                    .map(|p| match kind {
                        0 | 2 | 3 | 4 => self.pt(2, *p, true),
                        1 => self.pt(1, *p, true),
                        _ => (*p as usize % self.n[1]) as i32,
                    })
                    .collect();
                if kind == 4 {
                    v.push(*amt as i32);
                }
                v.push(pts.len() as i32);
                push(&mut self.out, &v);
                self.out.push(0x17); // SLOOP
                let (opc, name): (u8, &'static str) = match kind {
                    0 => (0x39, "SLOOP+IP"),
                    1 => (0x3C, "SLOOP+ALIGNRP"),
                    2 => (0x32, "SLOOP+SHP[rp2]"),
                    3 => (0x33, "SLOOP+SHP[rp1]"),
                    4 => (0x38, "SLOOP+SHPIX"),
                    _ => (0x80, "SLOOP+FLIPPT"),
                };
                self.out.push(opc);
                self.hit(name);
            }
            GOp::FlipRg { on, lo, hi } => {
                if self.n[1] > 0 {
                    let a = *lo as usize % self.n[1];
                    let b = *hi as usize % self.n[1];
                    push(&mut self.out, &[a.min(b) as i32, a.max(b) as i32]);
                    self.out.push(if *on { 0x81 } else { 0x82 });
                    self.hit0(if *on { "FLIPRGON" } else { "FLIPRGOFF" });
                }
            }
            GOp::ShpixE { p, e } => {
                if self.need_zone(2) {
                    let q = self.pt(2, *p, true);
                    push(&mut self.out, &[q]);
                    self.expr(e, Some(640));
                    self.out.push(0x38);
                    self.hit("SHPIX(expr)");
                }
            }
            GOp::MsirpE { a, p, e } => {
                if self.need_zone(0) && self.need_zone(1) {
                    self.need_rp(0, 0, *p);
                    let q = self.pt(1, *p, true);
                    push(&mut self.out, &[q]);
                    self.expr(e, Some(2000));
                    self.out.push(0x3A + *a as u8);
                    self.hit("MSIRP(expr)");
                    self.st.rp[1] = self.st.rp[0];
                    self.st.rp[2] = q as usize;
                    if *a {
                        self.st.rp[0] = q as usize;
                    }
                }
            }
            GOp::WcvtpE { c, e } => {
                if self.ncvt > 0 {
                    let cvi = self.cv(*c);
                    push(&mut self.out, &[cvi]);
                    self.expr(e, Some(4000));
                    self.out.push(0x44);
                    self.st.cvt_copied = true;
                    self.hit0("WCVTP(expr)");
                }
            }
            GOp::Scfs { p, e } => {
                if self.need_zone(2) {
                    let q = self.pt(2, *p, true);
                    push(&mut self.out, &[q]);
                    self.expr(e, Some(16000));
                    self.out.push(0x48);
                    self.hit("SCFS");
                }
            }
            GOp::Ws { s, e } => {
                push(&mut self.out, &[(*s as usize % self.nstore) as i32]);
                self.expr(e, Some(16384));
                self.out.push(0x42);
                self.hit0("WS");
            }
            GOp::Wcvtf { c, v } => {
                if self.ncvt > 0 {
                    let cvi = self.cv(*c);
                    if !self.is_prep && !self.st.cvt_copied {
                        push(&mut self.out, &[cvi, cvi]);
                        self.out.extend_from_slice(&[0x45, 0x44]);
                        self.st.cvt_copied = true;
                    }
                    push(&mut self.out, &[cvi, (*v as i32).clamp(-2000, 2000)]);
                    self.out.push(0x70);
                    self.hit0("WCVTF");
                }
            }
            GOp::If { cond, then, els } => {
                self.expr(cond, None);
                self.out.push(0x58);
                self.body(then);
                if !els.is_empty() {
                    self.out.push(0x1B);
                    self.body(els);
                    self.hit0("ELSE");
                }
                self.out.push(0x59);
                self.hit0("IF");
            }
            GOp::Jmp { kind, cond, skip } => {
                let start = self.out.len();
                self.body(skip);
                let code = self.out.split_off(start);
                let off = 1 + code.len() as i32;
                match kind % 3 {
                    0 => {
                        push(&mut self.out, &[off]);
                        self.out.push(0x1C);
                        self.hit0("JMPR");
                    }
                    k => {
                        push(&mut self.out, &[off]);
                        self.expr(cond, None);
                        self.out.push(if k == 1 { 0x78 } else { 0x79 });
                        self.hit0(if k == 1 { "JROT" } else { "JROF" });
                    }
                }
                self.out.extend_from_slice(&code);
            }
            GOp::Call { f, looped, args } => {
                if self.fdefs.is_empty() || args.is_empty() {
                    return;
                }
                let fi = *f as usize % self.fdefs.len();
                let fdefs = self.fdefs;
                let chained = matches!(fdefs[fi], FDef::Chain(_));
                let count = if *looped { args.len().min(4) } else { 1 };
                match resolve(fdefs, fi) {
                    Some(FDef::Tpl(t)) if is_template_op(t) => {
                        let mut sets: Vec<Vec<i32>> = vec![];
                        for (i, a) in args.iter().take(count).enumerate() {
                            let concrete = instantiate(t, a);
                            match self.simple(&concrete, i == 0) {
                                Some((mut v, _)) => {
                                    if matches!(t, GOp::Deltap { .. }) {
                                        v.pop();
                                    }
                                    sets.push(v);
                                }
                                None => break,
                            }
                        }
                        if sets.is_empty() {
                            return;
                        }
                        let mut v: Vec<i32> = sets.iter().rev().flatten().copied().collect();
                        if *looped {
                            v.push(sets.len() as i32);
                        }
                        v.push(fi as i32);
                        push(&mut self.out, &v);
                        self.out.push(if *looped { 0x2A } else { 0x2B });
                        self.hit(if *looped { "LOOPCALL(point-op)" } else { "CALL(point-op)" });
                    }
                    Some(FDef::Arith(_)) => {
                        let mut v = vec![(args[0].v as i32).clamp(-4000, 4000)];
                        if *looped {
                            v.push(count as i32);
                        }
                        v.push(fi as i32);
                        push(&mut self.out, &v);
                        self.out.push(if *looped { 0x2A } else { 0x2B });
                        self.out.push(0x21);
                        self.hit0(if *looped { "LOOPCALL(arith)" } else { "CALL(arith)" });
                    }
                    Some(FDef::State(_)) | Some(FDef::Tpl(_)) => {
                        let mut v = vec![];
                        if *looped {
                            v.push(count as i32);
                        }
                        v.push(fi as i32);
                        push(&mut self.out, &v);
                        self.out.push(if *looped { 0x2A } else { 0x2B });
                        self.hit0(if *looped { "LOOPCALL(state)" } else { "CALL(state)" });
                    }
                    _ => return,
                }
                if chained {
                    self.hit0("CALL(chained)");
                }
            }
            GOp::ScanCtrl(v) => {
                push(&mut self.out, &[(*v & 0x3FFF) as i32]);
                self.out.push(0x85);
                self.hit0("SCANCTRL");
            }
            GOp::ScanType(v) => {
                push(&mut self.out, &[(*v & 0x3FFF) as i32]);
                self.out.push(0x8D);
                self.hit0("SCANTYPE");
            }
            GOp::InstCtrl { sel, on } => {
                let sel = 1 + (*sel % 3) as i32;
                if !self.is_prep && sel != 3 {
                    return;
                }
                let value = if *on { 1 << (sel - 1) } else { 0 };
                push(&mut self.out, &[value, sel]);
                self.out.push(0x8E);
                self.hit0(match (self.is_prep, sel) {
                    (true, 1) => "INSTCTRL(prep,1)",
                    (true, 2) => "INSTCTRL(prep,2)",
                    (true, _) => "INSTCTRL(prep,3)",
                    _ => "INSTCTRL(glyph,3)",
                });
            }
            GOp::Sdb(v) => {
                push(&mut self.out, &[*v as i32]);
                self.out.push(0x5E);
                self.hit0("SDB");
            }
            GOp::Sds(v) => {
                push(&mut self.out, &[(*v % 7) as i32]);
                self.out.push(0x5F);
                self.hit0("SDS");
            }
            GOp::DeltaPn { which, items } => {
                if items.is_empty() || !self.need_zone(0) {
                    return;
                }
                let items = &items[..items.len().min(4)];
                let mut v = vec![];
                for (arg, p) in items.iter().rev() {
                    v.push(*arg as i32);
                    v.push(self.pt(0, *p, true));
                }
                v.push(items.len() as i32);
                push(&mut self.out, &v);
                self.out.push([0x5D, 0x71, 0x72][(*which % 3) as usize]);
                self.hit(["DELTAP1", "DELTAP2", "DELTAP3"][(*which % 3) as usize]);
            }
            GOp::DeltaCn { which, items } => {
                if items.is_empty() || self.ncvt == 0 {
                    return;
                }
                let items = &items[..items.len().min(4)];
                let mut v = vec![];
                for (arg, c) in items.iter().rev() {
                    v.push(*arg as i32);
                    v.push(self.cv(*c));
                }
                v.push(items.len() as i32);
                push(&mut self.out, &v);
                self.out.push([0x73, 0x74, 0x75][(*which % 3) as usize]);
                // (no per-glyph CVT copy is guaranteed: FreeType copies only when an exception applies at this size)
                self.hit0(["DELTAC1", "DELTAC2", "DELTAC3"][(*which % 3) as usize]);
            }
            GOp::Sangw(v) => {
                push(&mut self.out, &[(*v & 0x3FFF) as i32]);
                self.out.push(0x7E);
                self.hit0("SANGW");
            }
            GOp::Aa(v) => {
                push(&mut self.out, &[*v as i32]);
                self.out.push(0x7F);
                self.hit0("AA");
            }
            GOp::StackJunk { kind, vals } => {
                if kind % 2 == 0 {
                    let g = |i: usize| vals.get(i).copied().unwrap_or(i as i16) as i32;
                    push(&mut self.out, &[g(0), g(1), g(2)]);
                    self.out.extend_from_slice(&[0x8A, 0x23, 0x20]);
                    push(&mut self.out, &[2]);
                    self.out.push(0x25);
                    push(&mut self.out, &[3]);
                    self.out.push(0x26);
                    self.out.extend_from_slice(&[0x21; 5]);
                    self.hit0("stack-shuffle");
                } else {
                    let v: Vec<i32> = vals.iter().take(12).map(|v| *v as i32).collect();
                    push(&mut self.out, &v);
                    self.out.extend_from_slice(&[0x24, 0x22]);
                    self.hit0("CLEAR");
                }
            }
            _ => {}
        }
    }
}

fn be16(v: &mut Vec<u8>, x: i32) {
    v.extend_from_slice(&(x as i16).to_be_bytes());
}

pub struct Built {
    pub bytes: Vec<u8>,
    pub num_glyphs: u16,
    pub has_point_anchor_nested: bool,
    /// a composite with point-matched children used as a non-first component of another composite
    pub anchored_nested_nonfirst: bool,
    pub max_depth: u8,
    pub comp_instructions: bool,
    /// per glyph: 0 plain, 1 reaches a component with SCALED_COMPONENT_OFFSET + a transform, 2 reaches a component with both
    /// offset flags + a transform (listed discrepancies with FreeType 2.12.1)
    pub feature: Vec<u8>,
    /// per glyph: bit set of listed interpreter discrepancies its own program (or a component's) can reach
    pub known: Vec<u32>,
    /// bit set of listed discrepancies of the font program / control value program (affect every hinted glyph)
    pub known_font: u32,
    /// instruction kinds emitted, with the zone pointers in effect (bit i = zp_i is the glyph zone; 0xFF: no zone operand)
    pub classes: Classes,
}

fn merge(into: &mut Classes, from: &Classes) {
    for (k, v) in from {
        *into.entry(*k).or_insert(0) += *v;
    }
}

/// listed interpreter discrepancies (known_findings.json, sigs `c03|synthetic|interpreter|*|<name>`)
/// a component's glyph program executed INSTCTRL selector 3: FreeType keeps the changed backward-compatibility flag for
/// the rest of the composite, skrifa resets it for every program
pub const KN_COMPONENT_INSTCTRL3: u32 = 2;

fn expr_any(e: &Expr, f: &dyn Fn(&Expr) -> bool) -> bool {
    if f(e) {
        return true;
    }
    match e {
        Expr::Un(_, a) | Expr::DivC(a, _) | Expr::Call(_, a) => expr_any(a, f),
        Expr::Bin(_, a, b) => expr_any(a, f) || expr_any(b, f),
        Expr::Shuf(_, a, b, c) => expr_any(a, f) || expr_any(b, f) || expr_any(c, f),
        _ => false,
    }
}

/// does any op (recursively) satisfy `fo`, or any expression `fe`
pub fn ops_any(ops: &[GOp], fo: &dyn Fn(&GOp) -> bool, fe: &dyn Fn(&Expr) -> bool) -> bool {
    ops.iter().any(|o| {
        fo(o)
            || match o {
                GOp::If { cond, then, els } => expr_any(cond, fe) || ops_any(then, fo, fe) || ops_any(els, fo, fe),
                GOp::Jmp { cond, skip, .. } => expr_any(cond, fe) || ops_any(skip, fo, fe),
                GOp::IfPpemLt { body, .. } => ops_any(body, fo, fe),
                GOp::ShpixE { e, .. } | GOp::MsirpE { e, .. } | GOp::WcvtpE { e, .. } | GOp::Scfs { e, .. } | GOp::Ws { e, .. } => expr_any(e, fe),
                _ => false,
            }
    })
}

/// SHZ in the program of a composite that is loaded at a non-zero point offset (non-first component): FreeType 2.12.1
/// takes the zone's last contour end without subtracting the zone's first point and shifts the phantom points (and
/// memory beyond them) too
pub const KN_NESTED_SHZ: u32 = 16;

fn has_shz(ops: &[GOp]) -> bool {
    ops_any(ops, &|o| matches!(o, GOp::Shz { .. }), &|_| false)
}

/// listed discrepancies a program can reach by itself (none at present: the classes found so far that a single program
/// reaches have been repaired in the library; the remaining ones depend on the control value program or on nesting)
pub fn known_bits(_ops: &[GOp], _fdefs: &[FDef]) -> u32 {
    0
}
fn has_glyph_instctrl3(ops: &[GOp]) -> bool {
    ops_any(ops, &|o| matches!(o, GOp::InstCtrl { sel, .. } if sel % 3 == 2), &|_| false)
}
/// the bits that matter for hinting mode `mode` (1..=5)
/// the control value program requests the default graphics state (INSTCTRL selector 2) after changing a retained
/// graphics-state variable: FreeType 2.12.1 runs glyph programs with the control value program's state nevertheless
pub const KN_INSTCTRL2_DEFAULT_GS: u32 = 4;

fn prep_known_bits(prep: &[GOp], fdefs: &[FDef]) -> u32 {
    let mut b = known_bits(prep, fdefs);
    let sel2 = ops_any(prep, &|o| matches!(o, GOp::InstCtrl { sel, on: true } if sel % 3 == 1), &|_| false);
    let sets_state = ops_any(prep, &|o| matches!(o, GOp::Round(..) | GOp::Smd(_) | GOp::Scvtci(_) | GOp::Ssw(_) | GOp::Sswci(_) | GOp::Flip(_) | GOp::Sdb(_) | GOp::Sds(_) | GOp::Call { .. }), &|_| false);
    if sel2 && sets_state {
        b |= KN_INSTCTRL2_DEFAULT_GS;
    }
    b
}

pub fn known_for_mode(bits: u32, mode: u8) -> u32 {
    if mode == 0 {
        0
    } else {
        bits
    }
}
pub fn known_sig(bits: u32) -> &'static str {
    if bits & KN_NESTED_SHZ != 0 {
        "shz-in-nested-composite-program"
    } else if bits & KN_INSTCTRL2_DEFAULT_GS != 0 {
        "instctrl2-default-graphics-state"
    } else if bits & KN_COMPONENT_INSTCTRL3 != 0 {
        "component-instctrl3-backward-compatibility"
    } else {
        "plain"
    }
}

pub fn build(f: &SynthFont) -> Built {
    let second_gen = f.twilight > 0;
    let cvt_vals: Vec<i16> = if second_gen && f.cvt.is_empty() { vec![96] } else { f.cvt.clone() };
    let ncvt = cvt_vals.len();
    let tw = if second_gen { f.twilight.min(32) as usize + 4 } else { 0 };
    let own_from = if second_gen { f.tw_prep_owned as usize % (f.twilight.min(32) as usize + 1) } else { 0 };
    let mut classes = Classes::new();
    let known_font = prep_known_bits(&f.prep, &f.fdefs);
    let mut shz_any: Vec<bool> = vec![false];
    let mut instctrl3: Vec<bool> = vec![false];
    let mut glyf: Vec<u8> = vec![];
    let mut offsets: Vec<u32> = vec![0, 0]; // glyph 0 = empty .notdef
    let mut hm: Vec<(u16, i16)> = vec![(f.upem / 2, 0)];
    let mut npts: Vec<usize> = vec![0];
    let mut ncont: Vec<usize> = vec![0];
    let mut depth: Vec<u8> = vec![0];
    let mut is_composite: Vec<bool> = vec![false];
    let mut uses_anchor: Vec<bool> = vec![false];
    let mut nested_anchor = false;
    let mut anchored_nested_nonfirst = false;
    let mut comp_instructions = false;
    let mut feature: Vec<u8> = vec![0];
    let mut known: Vec<u32> = vec![0];
    for g in &f.simple {
        let contours: Vec<&Vec<(i16, i16, bool)>> = g.contours.iter().filter(|c| !c.is_empty()).collect();
        let n: usize = contours.iter().map(|c| c.len()).sum();
        if n == 0 {
            offsets.push(glyf.len() as u32);
            hm.push((g.advance, 0));
            npts.push(0);
            ncont.push(0);
            depth.push(0);
            is_composite.push(false);
            uses_anchor.push(false);
            feature.push(0);
            known.push(0);
            instctrl3.push(false);
            shz_any.push(false);
            continue;
        }
        let xs = contours.iter().flat_map(|c| c.iter().map(|p| p.0 as i32));
        let ys = contours.iter().flat_map(|c| c.iter().map(|p| p.1 as i32));
        let (xmin, xmax) = (xs.clone().min().unwrap(), xs.max().unwrap());
        let (ymin, ymax) = (ys.clone().min().unwrap(), ys.max().unwrap());
        be16(&mut glyf, contours.len() as i32);
        for v in [xmin, ymin, xmax, ymax] {
            be16(&mut glyf, v);
        }
        let mut end = 0usize;
        for c in &contours {
            end += c.len();
            be16(&mut glyf, end as i32 - 1);
        }
        // points addressable by the generated program: the glyph's own points + the two horizontal phantom points
        // (the vertical phantom points are computed differently by FreeType and skrifa without vmtx: see DESIGN.md C03)
        let mut e = Enc::new(&f.fdefs, [tw, n + 2], own_from, contours.len(), ncvt, false);
        e.coords = contours.iter().flat_map(|c| c.iter().map(|p| (p.0 as i32, p.1 as i32))).collect();
        e.program(&g.program);
        merge(&mut classes, &e.classes);
        let prog = e.out;
        be16(&mut glyf, prog.len() as i32);
        glyf.extend_from_slice(&prog);
        let pts: Vec<(i32, i32, bool)> = contours.iter().flat_map(|c| c.iter().map(|p| (p.0 as i32, p.1 as i32, p.2))).collect();
        let (fb, xb, yb) = encode_points(&pts, g.enc);
        glyf.extend_from_slice(&fb);
        glyf.extend_from_slice(&xb);
        glyf.extend_from_slice(&yb);
        if glyf.len() % 2 == 1 {
            glyf.push(0);
        }
        offsets.push(glyf.len() as u32);
        hm.push((g.advance, xmin as i16));
        npts.push(n);
        ncont.push(contours.len());
        depth.push(0);
        is_composite.push(false);
        uses_anchor.push(false);
        feature.push(0);
        known.push(known_bits(&g.program, &f.fdefs));
        instctrl3.push(has_glyph_instctrl3(&g.program));
        shz_any.push(false);
    }
    let nsimple = npts.len();
    for (comp_ix, comps) in f.composites.iter().enumerate() {
        let avail = npts.len();
        let mut total = 0usize;
        let mut total_contours = 0usize;
        let mut body = vec![];
        let mut any_anchor = false;
        let mut feat = 0u8;
        let mut kn = 0u32;
        let mut ic3 = false;
        let mut shz = false;
        let mut dep = 0u8;
        let comps: Vec<&Component> = comps.iter().take(6).collect();
        let cprog = f.comp_programs.get(comp_ix).filter(|p| !p.ops.is_empty());
        // resolve the components first: target glyph with points, nesting depth <= 4, bounded size
        let mut resolved: Vec<(usize, &Component)> = vec![];
        {
            let mut tot = 0usize;
            for c in &comps {
                let mut t = 1 + (c.target as usize % (avail - 1).max(1));
                if t < avail && depth[t] >= 4 {
                    t = 1 + (c.target as usize % (nsimple - 1).max(1));
                }
                if t >= avail || npts[t] == 0 || tot + npts[t] > 400 {
                    continue;
                }
                tot += npts[t];
                resolved.push((t, c));
            }
        }
        for (ci, (t, c)) in resolved.iter().enumerate() {
            let t = *t;
            let by_points = c.by_points && total > 0;
            let mut flags: u16 = 0x0001; // ARG_1_AND_2_ARE_WORDS
            if !by_points {
                flags |= 0x0002; // ARGS_ARE_XY_VALUES
                if c.round_to_grid {
                    flags |= 0x0004;
                }
            }
            match c.scale_kind % 4 {
                1 => flags |= 0x0008,
                2 => flags |= 0x0040,
                3 => flags |= 0x0080,
                _ => {}
            }
            if c.use_my_metrics {
                flags |= 0x0200;
            }
            if c.offset_mode & 1 != 0 {
                flags |= 0x0800;
            }
            if c.offset_mode & 2 != 0 {
                flags |= 0x1000;
            }
            let more = ci + 1 < resolved.len();
            if more {
                flags |= 0x0020;
            }
            if let Some(p) = cprog {
                if !more || p.flag_on_all {
                    flags |= 0x0100; // WE_HAVE_INSTRUCTIONS
                }
            }
            be16(&mut body, flags as i32);
            be16(&mut body, t as i32);
            if by_points {
                be16(&mut body, (c.a.unsigned_abs() as usize % total) as i32);
                be16(&mut body, (c.b.unsigned_abs() as usize % npts[t]) as i32);
                any_anchor = true;
                if is_composite[t] {
                    nested_anchor = true;
                }
            } else {
                be16(&mut body, (c.a as i32).clamp(-1500, 1500));
                be16(&mut body, (c.b as i32).clamp(-1500, 1500));
            }
            // F2Dot14 scales kept within [0.5, 1.5] / small off-diagonals so that outlines stay sane
            let s = |v: i16| -> i32 { 0x2000 + (v.unsigned_abs() as i32 % 0x4000) };
            let o = |v: i16| -> i32 { (v as i32 % 0x1000) };
            match c.scale_kind % 4 {
                1 => be16(&mut body, s(c.scale[0])),
                2 => {
                    be16(&mut body, s(c.scale[0]));
                    be16(&mut body, s(c.scale[1]));
                }
                3 => {
                    be16(&mut body, s(c.scale[0]));
                    be16(&mut body, o(c.scale[1]));
                    be16(&mut body, o(c.scale[2]));
                    be16(&mut body, s(c.scale[3]));
                }
                _ => {}
            }
            if c.scale_kind % 4 != 0 && c.offset_mode & 1 != 0 && !by_points {
                feat = feat.max(if c.offset_mode == 3 { 2 } else { 1 });
            }
            feat = feat.max(feature[t]);
            kn |= known[t];
            if shz_any[t] {
                shz = true;
                if total > 0 {
                    kn |= KN_NESTED_SHZ;
                }
            }
            if instctrl3[t] {
                kn |= KN_COMPONENT_INSTCTRL3;
                ic3 = true;
            }
            dep = dep.max(depth[t] + 1);
            if uses_anchor[t] && total > 0 {
                anchored_nested_nonfirst = true;
            }
            if uses_anchor[t] && by_points {
                nested_anchor = true;
            }
            total += npts[t];
            total_contours += ncont[t];
        }
        if resolved.is_empty() {
            offsets.push(glyf.len() as u32);
            hm.push((f.upem / 2, 0));
            npts.push(0);
            ncont.push(0);
            depth.push(0);
            is_composite.push(true);
            uses_anchor.push(false);
            feature.push(0);
            known.push(0);
            instctrl3.push(false);
            shz_any.push(false);
            continue;
        }
        be16(&mut glyf, -1);
        for v in [0, 0, 0, 0] {
            be16(&mut glyf, v);
        }
        glyf.extend_from_slice(&body);
        if let Some(p) = cprog {
            let mut e = Enc::new(&f.fdefs, [tw, total + 2], own_from, total_contours, ncvt, false);
            e.program(&p.ops);
            merge(&mut classes, &e.classes);
            be16(&mut glyf, e.out.len() as i32);
            glyf.extend_from_slice(&e.out);
            kn |= known_bits(&p.ops, &f.fdefs);
            shz |= has_shz(&p.ops);
            ic3 |= has_glyph_instctrl3(&p.ops);
            comp_instructions = true;
        }
        if glyf.len() % 2 == 1 {
            glyf.push(0);
        }
        offsets.push(glyf.len() as u32);
        hm.push((f.upem / 2, 0));
        npts.push(total);
        ncont.push(total_contours);
        depth.push(dep);
        is_composite.push(true);
        uses_anchor.push(any_anchor);
        feature.push(feat);
        known.push(kn);
        instctrl3.push(ic3);
        shz_any.push(shz);
    }
    let num_glyphs = (offsets.len() - 1) as u16;
    let mut cvt = vec![];
    for c in &cvt_vals {
        cvt.extend_from_slice(&c.to_be_bytes());
    }
    let mut pe = Enc::new(&f.fdefs, [tw, 0], 0, 0, ncvt, true);
    pe.program(&f.prep);
    merge(&mut classes, &pe.classes);
    let mut extra = vec![(*b"prep", pe.out)];
    if !cvt.is_empty() {
        extra.push((*b"cvt ", cvt));
    }
    if !f.fdefs.is_empty() {
        extra.push((*b"fpgm", encode_fpgm(&f.fdefs, ncvt)));
    }
    if second_gen {
        let mut maxp = vec![];
        maxp.extend_from_slice(&0x00010000u32.to_be_bytes());
        maxp.extend_from_slice(&num_glyphs.to_be_bytes());
        for x in [2000u16, 200, 2000, 200, 2, f.twilight.min(32) as u16, 64, 64, 64, 1024, 4096, 64, 8] {
            maxp.extend_from_slice(&x.to_be_bytes());
        }
        extra.push((*b"maxp", maxp));
    }
    // minimal cmap (format 4, empty) so that FreeType accepts the face everywhere
    let kit = fontkit::Kit { num_glyphs, upem: f.upem, glyf: Some((glyf, offsets)), h_metrics: hm, extra, ..Default::default() };
    Built {
        bytes: kit.build(),
        num_glyphs,
        has_point_anchor_nested: nested_anchor,
        anchored_nested_nonfirst,
        max_depth: depth.iter().copied().max().unwrap_or(0),
        comp_instructions,
        feature,
        known,
        known_font,
        classes,
    }
}

// ---------------------------------------------------------------------------------------------

fn coord() -> impl Strategy<Value = i16> {
    prop_oneof![3 => (-200i16..1200), 1 => proptest::sample::select(vec![0i16, 1, -1, 500, 1000, 64, 128, 333])]
}

fn gop_simple() -> BoxedStrategy<GOp> {
    prop_oneof![
        2 => any::<bool>().prop_map(GOp::Svtca),
        3 => (0u8..8, prop_oneof![Just(0u8), Just(0x40), Just(0x80), Just(0x48), Just(0x71), any::<u8>()]).prop_map(|(k, a)| GOp::Round(k, a)),
        3 => (any::<bool>(), any::<u8>()).prop_map(|(r, p)| GOp::Mdap { r, p }),
        3 => (any::<bool>(), any::<u8>(), any::<u8>()).prop_map(|(r, p, c)| GOp::Miap { r, p, c }),
        4 => (0u8..32, any::<u8>()).prop_map(|(fl, p)| GOp::Mdrp { fl, p }),
        4 => (0u8..32, any::<u8>(), any::<u8>()).prop_map(|(fl, p, c)| GOp::Mirp { fl, p, c }),
        2 => (0u8..3, any::<u8>()).prop_map(|(which, p)| GOp::Srp { which, p }),
        2 => any::<u8>().prop_map(|p| GOp::Ip { p }),
        1 => any::<u8>().prop_map(|p| GOp::AlignRp { p }),
        2 => (any::<bool>(), any::<u8>()).prop_map(|(a, p)| GOp::Shp { a, p }),
        2 => (any::<u8>(), -64i8..=64).prop_map(|(p, amt)| GOp::Shpix { p, amt }),
        1 => (any::<bool>(), any::<u8>(), -300i16..300).prop_map(|(a, p, d)| GOp::Msirp { a, p, d }),
        2 => (any::<u8>(), any::<u8>()).prop_map(|(arg, p)| GOp::Deltap { arg, p }),
        1 => (any::<u8>(), -500i16..1500).prop_map(|(c, v)| GOp::Wcvtp { c, v }),
        1 => (0u8..=128).prop_map(GOp::Smd),
        1 => (0u8..=128).prop_map(GOp::Scvtci),
        1 => (0u8..=200).prop_map(GOp::Ssw),
        1 => (0u8..=128).prop_map(GOp::Sswci),
        1 => any::<bool>().prop_map(GOp::Flip),
        1 => (any::<u8>(), any::<u8>(), any::<u8>(), any::<u8>(), any::<u8>()).prop_map(|(p, a0, a1, b0, b1)| GOp::Isect { p, a0, a1, b0, b1 }),
    ]
    .boxed()
}

fn template_op() -> BoxedStrategy<GOp> {
    prop_oneof![
        (any::<bool>()).prop_map(|r| GOp::Mdap { r, p: 0 }),
        (any::<bool>()).prop_map(|r| GOp::Miap { r, p: 0, c: 0 }),
        (0u8..32).prop_map(|fl| GOp::Mdrp { fl, p: 0 }),
        (0u8..32).prop_map(|fl| GOp::Mirp { fl, p: 0, c: 0 }),
        (any::<bool>()).prop_map(|a| GOp::Msirp { a, p: 0, d: 0 }),
        Just(GOp::Ip { p: 0 }),
        Just(GOp::AlignRp { p: 0 }),
        (any::<bool>()).prop_map(|a| GOp::Shp { a, p: 0 }),
        Just(GOp::Shpix { p: 0, amt: 0 }),
        Just(GOp::Wcvtp { c: 0, v: 0 }),
        Just(GOp::Utp { p: 0 }),
        Just(GOp::AlignPts { p1: 0, p2: 0 }),
        Just(GOp::Deltap { arg: 0, p: 0 }),
    ]
    .boxed()
}

fn vec_comp() -> impl Strategy<Value = i16> {
    prop_oneof![2 => proptest::sample::select(vec![0x4000i16, 0, -0x4000, 0x2D41, -0x2D41, 0x1000, 1]), 1 => any::<i16>()]
}

fn state_op() -> BoxedStrategy<GOp> {
    prop_oneof![
        2 => any::<bool>().prop_map(GOp::Svtca),
        2 => (0u8..8, any::<u8>()).prop_map(|(k, a)| GOp::Round(k, a)),
        1 => (0u8..=128).prop_map(GOp::Smd),
        1 => (0u8..=128).prop_map(GOp::Scvtci),
        1 => (0u8..=200).prop_map(GOp::Ssw),
        1 => (0u8..=128).prop_map(GOp::Sswci),
        1 => any::<bool>().prop_map(GOp::Flip),
        1 => prop_oneof![Just(9u8), 0u8..60].prop_map(GOp::Sdb),
        1 => (0u8..7).prop_map(GOp::Sds),
        1 => any::<u16>().prop_map(GOp::ScanCtrl),
        1 => any::<u16>().prop_map(GOp::ScanType),
        2 => (any::<bool>(), any::<bool>()).prop_map(|(fv, x)| GOp::Vtca { fv, x }),
        2 => (any::<bool>(), vec_comp(), vec_comp()).prop_map(|(fv, x, y)| GOp::VecFs { fv, x, y }),
        1 => Just(GOp::Sfvtpv),
        1 => any::<u16>().prop_map(GOp::Sangw),
        1 => any::<u8>().prop_map(GOp::Aa),
    ]
    .boxed()
}

fn call_arg() -> impl Strategy<Value = CallArg> {
    (any::<u8>(), any::<u8>(), -500i16..1500).prop_map(|(a, b, v)| CallArg { a, b, v })
}

fn gop_second() -> BoxedStrategy<GOp> {
    prop_oneof![
        8 => (0u8..4, proptest::bool::weighted(0.35)).prop_map(|(which, glyph)| GOp::Szp { which, glyph }),
        3 => (any::<bool>(), any::<u8>()).prop_map(|(a, c)| GOp::Shc { a, c }),
        2 => (any::<bool>(), any::<bool>()).prop_map(|(a, e)| GOp::Shz { a, e }),
        2 => (any::<u8>(), any::<u8>()).prop_map(|(p1, p2)| GOp::AlignPts { p1, p2 }),
        1 => any::<u8>().prop_map(|p| GOp::Utp { p }),
        4 => (0u8..3, any::<bool>(), any::<u8>(), any::<u8>()).prop_map(|(kind, perp, p1, p2)| GOp::VecLine { kind, perp, p1, p2 }),
        4 => (0u8..6, proptest::collection::vec(any::<u8>(), 1..5), -64i8..=64).prop_map(|(kind, pts, amt)| GOp::Loop { kind, pts, amt }),
        2 => (any::<bool>(), any::<u8>(), any::<u8>()).prop_map(|(on, lo, hi)| GOp::FlipRg { on, lo, hi }),
        1 => (any::<u8>(), -300i16..1500).prop_map(|(c, v)| GOp::Wcvtf { c, v }),
        1 => (0u8..3, any::<bool>()).prop_map(|(sel, on)| GOp::InstCtrl { sel, on }),
        3 => (0u8..3, proptest::collection::vec((any::<u8>(), any::<u8>()), 1..4)).prop_map(|(which, items)| GOp::DeltaPn { which, items }),
        2 => (0u8..3, proptest::collection::vec((any::<u8>(), any::<u8>()), 1..4)).prop_map(|(which, items)| GOp::DeltaCn { which, items }),
        1 => (0u8..2, proptest::collection::vec(-300i16..300, 1..5)).prop_map(|(kind, vals)| GOp::StackJunk { kind, vals }),
        5 => (any::<u8>(), any::<bool>(), proptest::collection::vec(call_arg(), 1..4)).prop_map(|(f, looped, args)| GOp::Call { f, looped, args }),
        8 => state_op(),
    ]
    .boxed()
}

fn expr_leaf() -> BoxedStrategy<Expr> {
    prop_oneof![
        3 => prop_oneof![-300i16..300, Just(64i16), Just(0i16), Just(-64i16)].prop_map(Expr::Const),
        1 => Just(Expr::Mppem),
        1 => Just(Expr::Mps),
        4 => (any::<bool>(), any::<u8>()).prop_map(|(orig, p)| Expr::Gc { orig, p }),
        4 => (any::<bool>(), any::<u8>(), any::<u8>()).prop_map(|(orig, p0, p1)| Expr::Md { orig, p0, p1 }),
        1 => (0u8..8).prop_map(Expr::Rs),
        1 => any::<u8>().prop_map(Expr::Rcvt),
        1 => prop_oneof![Just(1u16), Just(0x20), Just(0x40), Just(0x100), Just(0x400), Just(0x800), Just(0x1000), Just(0x1FFF), 0u16..0x2000].prop_map(Expr::GetInfo),
        1 => (any::<bool>(), any::<bool>()).prop_map(|(fv, y)| Expr::VecComp { fv, y }),
        1 => Just(Expr::Depth),
    ]
    .boxed()
}

fn expr() -> BoxedStrategy<Expr> {
    let leaf = expr_leaf();
    let divisor = prop_oneof![Just(64i16), Just(128), Just(-64), Just(32), Just(1), -300i16..300];
    let l1 = prop_oneof![
        5 => leaf.clone(),
        2 => (0u8..15, leaf.clone()).prop_map(|(k, a)| Expr::Un(k, Box::new(a))),
        4 => (0u8..13, leaf.clone(), leaf.clone()).prop_map(|(k, a, b)| Expr::Bin(k, Box::new(a), Box::new(b))),
        1 => (leaf.clone(), divisor).prop_map(|(a, c)| Expr::DivC(Box::new(a), c)),
        1 => (0u8..5, leaf.clone(), leaf.clone(), leaf.clone()).prop_map(|(k, a, b, c)| Expr::Shuf(k, Box::new(a), Box::new(b), Box::new(c))),
        1 => (any::<u8>(), leaf.clone()).prop_map(|(f, a)| Expr::Call(f, Box::new(a))),
    ]
    .boxed();
    prop_oneof![
        4 => l1.clone(),
        1 => (0u8..13, l1.clone(), leaf).prop_map(|(k, a, b)| Expr::Bin(k, Box::new(a), Box::new(b))),
        1 => (0u8..15, l1).prop_map(|(k, a)| Expr::Un(k, Box::new(a))),
    ]
    .boxed()
}

fn gop_expr() -> BoxedStrategy<GOp> {
    prop_oneof![
        3 => (any::<u8>(), expr()).prop_map(|(p, e)| GOp::ShpixE { p, e }),
        2 => (any::<bool>(), any::<u8>(), expr()).prop_map(|(a, p, e)| GOp::MsirpE { a, p, e }),
        2 => (any::<u8>(), expr()).prop_map(|(c, e)| GOp::WcvtpE { c, e }),
        2 => (any::<u8>(), expr()).prop_map(|(p, e)| GOp::Scfs { p, e }),
        1 => (0u8..8, expr()).prop_map(|(s, e)| GOp::Ws { s, e }),
    ]
    .boxed()
}

fn gop_flat() -> BoxedStrategy<GOp> {
    prop_oneof![10 => gop_simple(), 9 => gop_second(), 4 => gop_expr()].boxed()
}

fn gop() -> BoxedStrategy<GOp> {
    prop_oneof![
        24 => gop_flat(),
        1 => (8u8..60, proptest::collection::vec(gop_flat(), 1..4)).prop_map(|(k, body)| GOp::IfPpemLt { k, body }),
        2 => (expr(), proptest::collection::vec(gop_flat(), 1..4), proptest::collection::vec(gop_flat(), 0..3)).prop_map(|(cond, then, els)| GOp::If { cond, then, els }),
        1 => (0u8..3, expr(), proptest::collection::vec(gop_flat(), 1..4)).prop_map(|(kind, cond, skip)| GOp::Jmp { kind, cond, skip }),
    ]
    .boxed()
}

fn program(len: std::ops::Range<usize>) -> impl Strategy<Value = Vec<GOp>> {
    (proptest::collection::vec(gop(), len), any::<bool>(), prop_oneof![3 => Just(vec![]), 2 => proptest::collection::vec((0u8..4).prop_map(|which| GOp::Szp { which, glyph: false }), 1..3)]).prop_map(|(mut ops, iup, lead)| {
        // often start with some zone pointers on the twilight zone
        if !ops.is_empty() {
            ops.splice(0..0, lead);
        }
        if iup {
            ops.push(GOp::Iup(true));
            ops.push(GOp::Iup(false));
        }
        ops
    })
}

fn simple_glyph() -> impl Strategy<Value = SimpleGlyph> {
    (proptest::collection::vec(proptest::collection::vec((coord(), coord(), proptest::bool::weighted(0.7)), 3..9), 1..4), program(0..14), 200u16..1400, prop_oneof![3 => Just(0u8), 1 => Just(1u8), 1 => Just(2u8), 1 => Just(3u8), 1 => Just(4u8)])
        .prop_map(|(contours, program, advance, enc)| SimpleGlyph { contours, program, advance, enc })
}

fn component() -> impl Strategy<Value = Component> {
    (any::<u8>(), -400i16..900, -400i16..900, proptest::bool::weighted(0.35), any::<bool>(), prop_oneof![3 => Just(0u8), 1 => Just(1u8), 1 => Just(2u8), 1 => Just(3u8)], any::<[i16; 4]>(), proptest::bool::weighted(0.15), prop_oneof![4 => Just(0u8), 1 => Just(1u8), 1 => Just(2u8), 1 => Just(3u8)])
        .prop_map(|(target, a, b, by_points, round_to_grid, scale_kind, scale, use_my_metrics, offset_mode)| Component { target, a, b, by_points, round_to_grid, scale_kind, scale, use_my_metrics, offset_mode })
}

fn fdef() -> BoxedStrategy<FDef> {
    prop_oneof![
        5 => template_op().prop_map(FDef::Tpl),
        2 => proptest::collection::vec((0u8..15, -300i16..300), 1..4).prop_map(FDef::Arith),
        2 => proptest::collection::vec(state_op(), 1..3).prop_map(FDef::State),
        1 => any::<u8>().prop_map(FDef::Chain),
    ]
    .boxed()
}

fn prep_op() -> BoxedStrategy<GOp> {
    prop_oneof![
        3 => prop_oneof![
            (0u8..=128).prop_map(GOp::Scvtci),
            (0u8..=128).prop_map(GOp::Smd),
            (any::<u8>(), -500i16..1500).prop_map(|(c, v)| GOp::Wcvtp { c, v }),
            (0u8..8, any::<u8>()).prop_map(|(k, a)| GOp::Round(k, a)),
        ],
        3 => prop_oneof![1 => (Just(0u8), proptest::bool::weighted(0.3)), 2 => (Just(1u8), proptest::bool::weighted(0.5)), 4 => (Just(2u8), proptest::bool::weighted(0.7))].prop_map(|(sel, on)| GOp::InstCtrl { sel, on }),
        8 => gop_flat(),
        1 => (expr(), proptest::collection::vec(gop_flat(), 1..3), proptest::collection::vec(gop_flat(), 0..2)).prop_map(|(cond, then, els)| GOp::If { cond, then, els }),
    ]
    .boxed()
}

pub fn strategy() -> impl Strategy<Value = SynthFont> {
    (
        proptest::sample::select(vec![1000u16, 2048, 1024]),
        proptest::collection::vec(prop_oneof![0i16..1200, -300i16..0, Just(0i16)], 0..10),
        proptest::collection::vec(simple_glyph(), 1..5),
        proptest::collection::vec((proptest::collection::vec(component(), 1..4), prop_oneof![3 => Just(vec![]).boxed(), 2 => program(1..6).boxed()], any::<bool>()), 0..6),
        proptest::collection::vec(prep_op(), 0..6),
        (4u8..=12, any::<u8>()),
        proptest::collection::vec(fdef(), 0..6),
    )
        .prop_map(|(upem, cvt, simple, comps, prep, (twilight, tw_prep_owned), fdefs)| {
            let mut composites = vec![];
            let mut comp_programs = vec![];
            for (c, ops, flag_on_all) in comps {
                composites.push(c);
                comp_programs.push(CompProg { ops, flag_on_all });
            }
            SynthFont { upem, cvt, simple, composites, prep, twilight, tw_prep_owned, fdefs, comp_programs }
        })
}
