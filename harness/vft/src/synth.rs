//! Synthetic instructed TrueType fonts for the FreeType differential (C03, stage `synthetic`): the frozen corpus
//! exercises only the instructions / composite features its fonts happen to use; generated fonts with *valid* glyph
//! programs (every operand in range, balanced stack) and composites (offsets, point anchors, nesting, scales) reach
//! the rest of the interpreter and the composite loader.
use proptest::prelude::*;
use serde::{Deserialize, Serialize};
use vcore::fontkit;

#[derive(Clone, Debug, Serialize, Deserialize, PartialEq)]
pub enum GOp {
    Svtca(bool),
    /// 0 RTG 1 RTHG 2 RTDG 3 RDTG 4 RUTG 5 ROFF 6 SROUND(arg) 7 S45ROUND(arg)
    Round(u8, u8),
    Mdap { r: bool, p: u8 },
    Miap { r: bool, p: u8, c: u8 },
    Mdrp { fl: u8, p: u8 },
    Mirp { fl: u8, p: u8, c: u8 },
    Srp { which: u8, p: u8 },
    Ip { p: u8 },
    AlignRp { p: u8 },
    Shp { a: bool, p: u8 },
    Shpix { p: u8, amt: i8 },
    Msirp { a: bool, p: u8, d: i16 },
    Deltap { arg: u8, p: u8 },
    Wcvtp { c: u8, v: i16 },
    Smd(u8),
    Scvtci(u8),
    Ssw(u8),
    Sswci(u8),
    Flip(bool),
    Isect { p: u8, a0: u8, a1: u8, b0: u8, b1: u8 },
    /// IF (MPPEM < k) body EIF
    IfPpemLt { k: u8, body: Vec<GOp> },
    Iup(bool),
}

#[derive(Clone, Debug, Serialize, Deserialize, PartialEq)]
pub struct SimpleGlyph {
    pub contours: Vec<Vec<(i16, i16, bool)>>,
    pub program: Vec<GOp>,
    pub advance: u16,
}

#[derive(Clone, Debug, Serialize, Deserialize, PartialEq)]
pub struct Component {
    /// index into the glyphs defined before this one
    pub target: u8,
    /// offsets, or (parent point, child point) when `by_points`
    pub a: i16,
    pub b: i16,
    pub by_points: bool,
    pub round_to_grid: bool,
    /// 0 none, 1 uniform scale, 2 x/y scale, 3 2x2
    pub scale_kind: u8,
    pub scale: [i16; 4],
    pub use_my_metrics: bool,
    /// 0 neither flag, 1 SCALED_COMPONENT_OFFSET, 2 UNSCALED_COMPONENT_OFFSET, 3 both
    #[serde(default)]
    pub offset_mode: u8,
}

#[derive(Clone, Debug, Serialize, Deserialize, PartialEq)]
pub struct SynthFont {
    pub upem: u16,
    pub cvt: Vec<i16>,
    pub simple: Vec<SimpleGlyph>,
    pub composites: Vec<Vec<Component>>,
    pub prep: Vec<GOp>,
}

fn push(out: &mut Vec<u8>, vals: &[i32]) {
    if vals.iter().all(|v| (0..=255).contains(v)) {
        out.push(0xB0 + vals.len() as u8 - 1);
        out.extend(vals.iter().map(|v| *v as u8));
    } else {
        out.push(0xB8 + vals.len() as u8 - 1);
        for v in vals {
            out.extend_from_slice(&(*v as i16).to_be_bytes());
        }
    }
}

/// encode a program; `npoints` = points of the glyph incl. the 4 phantom points (0 for prep: point ops skipped)
pub fn encode_program(ops: &[GOp], npoints: usize, ncvt: usize, out: &mut Vec<u8>) {
    let pt = |p: u8| -> i32 { if npoints == 0 { 0 } else { (p as usize % npoints) as i32 } };
    let cv = |c: u8| -> i32 { if ncvt == 0 { 0 } else { (c as usize % ncvt) as i32 } };
    for op in ops {
        let point_op = !matches!(op, GOp::Svtca(_) | GOp::Round(..) | GOp::Wcvtp { .. } | GOp::Smd(_) | GOp::Scvtci(_) | GOp::Ssw(_) | GOp::Sswci(_) | GOp::Flip(_) | GOp::IfPpemLt { .. });
        if point_op && npoints == 0 {
            continue;
        }
        if ncvt == 0 && matches!(op, GOp::Miap { .. } | GOp::Mirp { .. } | GOp::Wcvtp { .. }) {
            continue;
        }
        match op {
            GOp::Svtca(x) => out.push(*x as u8),
            GOp::Round(k, arg) => match k % 8 {
                0 => out.push(0x18),
                1 => out.push(0x19),
                2 => out.push(0x3D),
                3 => out.push(0x7D),
                4 => out.push(0x7C),
                5 => out.push(0x7A),
                6 => {
                    push(out, &[*arg as i32]);
                    out.push(0x76)
                }
                _ => {
                    push(out, &[*arg as i32]);
                    out.push(0x77)
                }
            },
            GOp::Mdap { r, p } => {
                push(out, &[pt(*p)]);
                out.push(0x2E + *r as u8)
            }
            GOp::Miap { r, p, c } => {
                push(out, &[pt(*p), cv(*c)]);
                out.push(0x3E + *r as u8)
            }
            GOp::Mdrp { fl, p } => {
                push(out, &[pt(*p)]);
                out.push(0xC0 + (fl & 0x1F))
            }
            GOp::Mirp { fl, p, c } => {
                push(out, &[pt(*p), cv(*c)]);
                out.push(0xE0 + (fl & 0x1F))
            }
            GOp::Srp { which, p } => {
                push(out, &[pt(*p)]);
                out.push(0x10 + which % 3)
            }
            GOp::Ip { p } => {
                push(out, &[pt(*p)]);
                out.push(0x39)
            }
            GOp::AlignRp { p } => {
                push(out, &[pt(*p)]);
                out.push(0x3C)
            }
            GOp::Shp { a, p } => {
                push(out, &[pt(*p)]);
                out.push(0x32 + *a as u8)
            }
            GOp::Shpix { p, amt } => {
                push(out, &[pt(*p), *amt as i32]);
                out.push(0x38)
            }
            GOp::Msirp { a, p, d } => {
                push(out, &[pt(*p), (*d as i32).clamp(-2000, 2000)]);
                out.push(0x3A + *a as u8)
            }
            GOp::Deltap { arg, p } => {
                push(out, &[*arg as i32, pt(*p), 1]);
                out.push(0x5D)
            }
            GOp::Wcvtp { c, v } => {
                push(out, &[cv(*c), (*v as i32).clamp(-4000, 4000)]);
                out.push(0x44)
            }
            GOp::Smd(v) => {
                push(out, &[*v as i32]);
                out.push(0x1A)
            }
            GOp::Scvtci(v) => {
                push(out, &[*v as i32]);
                out.push(0x1D)
            }
            GOp::Ssw(v) => {
                push(out, &[*v as i32]);
                out.push(0x1F)
            }
            GOp::Sswci(v) => {
                push(out, &[*v as i32]);
                out.push(0x1E)
            }
            GOp::Flip(on) => out.push(if *on { 0x4D } else { 0x4E }),
            GOp::Isect { p, a0, a1, b0, b1 } => {
                push(out, &[pt(*p), pt(*a0), pt(*a1), pt(*b0), pt(*b1)]);
                out.push(0x0F)
            }
            GOp::IfPpemLt { k, body } => {
                out.push(0x4B); // MPPEM
                push(out, &[*k as i32]);
                out.push(0x50); // LT
                out.push(0x58); // IF
                let flat: Vec<GOp> = body.iter().filter(|o| !matches!(o, GOp::IfPpemLt { .. })).cloned().collect();
                encode_program(&flat, npoints, ncvt, out);
                out.push(0x59); // EIF
            }
            GOp::Iup(x) => out.push(0x30 + *x as u8),
        }
    }
}

fn be16(v: &mut Vec<u8>, x: i32) {
    v.extend_from_slice(&(x as i16).to_be_bytes());
}

pub struct Built {
    pub bytes: Vec<u8>,
    pub num_glyphs: u16,
    pub has_point_anchor_nested: bool,
    /// per glyph: 0 plain, 1 reaches a component with SCALED_COMPONENT_OFFSET + a transform, 2 reaches a component with both
    /// offset flags + a transform (listed discrepancies with FreeType 2.12.1)
    pub feature: Vec<u8>,
}

/// number of points of each glyph (composites: sum over components), needed for valid point anchors
pub fn build(f: &SynthFont) -> Built {
    let ncvt = f.cvt.len();
    let mut glyf: Vec<u8> = vec![];
    let mut offsets: Vec<u32> = vec![0, 0]; // glyph 0 = empty .notdef
    let mut hm: Vec<(u16, i16)> = vec![(f.upem / 2, 0)];
    let mut npts: Vec<usize> = vec![0];
    let mut is_composite: Vec<bool> = vec![false];
    let mut uses_anchor: Vec<bool> = vec![false];
    let mut nested_anchor = false;
    let mut feature: Vec<u8> = vec![0];
    for g in &f.simple {
        let contours: Vec<&Vec<(i16, i16, bool)>> = g.contours.iter().filter(|c| !c.is_empty()).collect();
        let n: usize = contours.iter().map(|c| c.len()).sum();
        if n == 0 {
            offsets.push(glyf.len() as u32);
            hm.push((g.advance, 0));
            npts.push(0);
            is_composite.push(false);
            uses_anchor.push(false);
            feature.push(0);
            continue;
        }
        let xs = contours.iter().flat_map(|c| c.iter().map(|p| p.0 as i32));
        let ys = contours.iter().flat_map(|c| c.iter().map(|p| p.1 as i32));
        let (xmin, xmax) = (xs.clone().min().unwrap(), xs.max().unwrap());
        let (ymin, ymax) = (ys.clone().min().unwrap(), ys.max().unwrap());
        be16(&mut glyf, contours.len() as i32);
        for v in [xmin, ymin, xmax, ymax] {
            be16(&mut glyf, v);
        }
        let mut end = 0usize;
        for c in &contours {
            end += c.len();
            be16(&mut glyf, end as i32 - 1);
        }
        let mut prog = vec![];
        // points addressable by the generated program: the glyph's own points + the two horizontal phantom points
        // (the vertical phantom points are computed differently by FreeType and skrifa without vmtx: see DESIGN.md C03)
        encode_program(&g.program, n + 2, ncvt, &mut prog);
        be16(&mut glyf, prog.len() as i32);
        glyf.extend_from_slice(&prog);
        for c in &contours {
            for p in c.iter() {
                glyf.push(p.2 as u8); // flags: on-curve bit only; coordinates as 16-bit deltas
            }
        }
        let mut last = 0i32;
        for c in &contours {
            for p in c.iter() {
                be16(&mut glyf, p.0 as i32 - last);
                last = p.0 as i32;
            }
        }
        last = 0;
        for c in &contours {
            for p in c.iter() {
                be16(&mut glyf, p.1 as i32 - last);
                last = p.1 as i32;
            }
        }
        if glyf.len() % 2 == 1 {
            glyf.push(0);
        }
        offsets.push(glyf.len() as u32);
        hm.push((g.advance, xmin as i16));
        npts.push(n);
        is_composite.push(false);
        uses_anchor.push(false);
        feature.push(0);
    }
    for comps in &f.composites {
        let avail = npts.len();
        let mut total = 0usize;
        let mut body = vec![];
        let mut any_anchor = false;
        let mut feat = 0u8;
        let comps: Vec<&Component> = comps.iter().take(6).collect();
        let mut written = 0;
        for (ci, c) in comps.iter().enumerate() {
            let t = 1 + (c.target as usize % (avail - 1).max(1));
            if t >= avail || npts[t] == 0 {
                continue;
            }
            let by_points = c.by_points && total > 0;
            let mut flags: u16 = 0x0001; // ARG_1_AND_2_ARE_WORDS
            if !by_points {
                flags |= 0x0002; // ARGS_ARE_XY_VALUES
                if c.round_to_grid {
                    flags |= 0x0004;
                }
            }
            match c.scale_kind % 4 {
                1 => flags |= 0x0008,
                2 => flags |= 0x0040,
                3 => flags |= 0x0080,
                _ => {}
            }
            if c.use_my_metrics {
                flags |= 0x0200;
            }
            if c.offset_mode & 1 != 0 {
                flags |= 0x0800;
            }
            if c.offset_mode & 2 != 0 {
                flags |= 0x1000;
            }
            let more = comps.iter().skip(ci + 1).any(|c2| {
                let t2 = 1 + (c2.target as usize % (avail - 1).max(1));
                t2 < avail && npts[t2] > 0
            });
            if more {
                flags |= 0x0020;
            }
            be16(&mut body, flags as i32);
            be16(&mut body, t as i32);
            if by_points {
                be16(&mut body, (c.a.unsigned_abs() as usize % total) as i32);
                be16(&mut body, (c.b.unsigned_abs() as usize % npts[t]) as i32);
                any_anchor = true;
                if is_composite[t] {
                    nested_anchor = true;
                }
            } else {
                be16(&mut body, (c.a as i32).clamp(-1500, 1500));
                be16(&mut body, (c.b as i32).clamp(-1500, 1500));
            }
            // F2Dot14 scales kept within [0.5, 1.5] / small off-diagonals so that outlines stay sane
            let s = |v: i16| -> i32 { 0x2000 + (v.unsigned_abs() as i32 % 0x4000) };
            let o = |v: i16| -> i32 { (v as i32 % 0x1000) };
            match c.scale_kind % 4 {
                1 => be16(&mut body, s(c.scale[0])),
                2 => {
                    be16(&mut body, s(c.scale[0]));
                    be16(&mut body, s(c.scale[1]));
                }
                3 => {
                    be16(&mut body, s(c.scale[0]));
                    be16(&mut body, o(c.scale[1]));
                    be16(&mut body, o(c.scale[2]));
                    be16(&mut body, s(c.scale[3]));
                }
                _ => {}
            }
            if c.scale_kind % 4 != 0 && c.offset_mode & 1 != 0 && !by_points {
                feat = feat.max(if c.offset_mode == 3 { 2 } else { 1 });
            }
            feat = feat.max(feature[t]);
            total += npts[t];
            written += 1;
            if uses_anchor[t] && by_points {
                nested_anchor = true;
            }
        }
        if written == 0 {
            offsets.push(glyf.len() as u32);
            hm.push((f.upem / 2, 0));
            npts.push(0);
            is_composite.push(true);
            uses_anchor.push(false);
            feature.push(0);
            continue;
        }
        be16(&mut glyf, -1);
        for v in [0, 0, 0, 0] {
            be16(&mut glyf, v);
        }
        glyf.extend_from_slice(&body);
        if glyf.len() % 2 == 1 {
            glyf.push(0);
        }
        offsets.push(glyf.len() as u32);
        hm.push((f.upem / 2, 0));
        npts.push(total);
        is_composite.push(true);
        uses_anchor.push(any_anchor);
        feature.push(feat);
    }
    let num_glyphs = (offsets.len() - 1) as u16;
    let mut cvt = vec![];
    for c in &f.cvt {
        cvt.extend_from_slice(&c.to_be_bytes());
    }
    let mut prep = vec![];
    encode_program(&f.prep, 0, ncvt, &mut prep);
    let mut extra = vec![(*b"prep", prep)];
    if !cvt.is_empty() {
        extra.push((*b"cvt ", cvt));
    }
    // minimal cmap (format 4, empty) so that FreeType accepts the face everywhere
    let kit = fontkit::Kit { num_glyphs, upem: f.upem, glyf: Some((glyf, offsets)), h_metrics: hm, extra, ..Default::default() };
    Built { bytes: kit.build(), num_glyphs, has_point_anchor_nested: nested_anchor, feature }
}

// ---------------------------------------------------------------------------------------------

fn coord() -> impl Strategy<Value = i16> {
    prop_oneof![3 => (-200i16..1200), 1 => proptest::sample::select(vec![0i16, 1, -1, 500, 1000, 64, 128, 333])]
}

fn gop_simple() -> impl Strategy<Value = GOp> {
    prop_oneof![
        2 => any::<bool>().prop_map(GOp::Svtca),
        3 => (0u8..8, prop_oneof![Just(0u8), Just(0x40), Just(0x80), Just(0x48), Just(0x71), any::<u8>()]).prop_map(|(k, a)| GOp::Round(k, a)),
        3 => (any::<bool>(), any::<u8>()).prop_map(|(r, p)| GOp::Mdap { r, p }),
        3 => (any::<bool>(), any::<u8>(), any::<u8>()).prop_map(|(r, p, c)| GOp::Miap { r, p, c }),
        4 => (0u8..32, any::<u8>()).prop_map(|(fl, p)| GOp::Mdrp { fl, p }),
        4 => (0u8..32, any::<u8>(), any::<u8>()).prop_map(|(fl, p, c)| GOp::Mirp { fl, p, c }),
        2 => (0u8..3, any::<u8>()).prop_map(|(which, p)| GOp::Srp { which, p }),
        2 => any::<u8>().prop_map(|p| GOp::Ip { p }),
        1 => any::<u8>().prop_map(|p| GOp::AlignRp { p }),
        2 => (any::<bool>(), any::<u8>()).prop_map(|(a, p)| GOp::Shp { a, p }),
        2 => (any::<u8>(), -64i8..=64).prop_map(|(p, amt)| GOp::Shpix { p, amt }),
        1 => (any::<bool>(), any::<u8>(), -300i16..300).prop_map(|(a, p, d)| GOp::Msirp { a, p, d }),
        2 => (any::<u8>(), any::<u8>()).prop_map(|(arg, p)| GOp::Deltap { arg, p }),
        1 => (any::<u8>(), -500i16..1500).prop_map(|(c, v)| GOp::Wcvtp { c, v }),
        1 => (0u8..=128).prop_map(GOp::Smd),
        1 => (0u8..=128).prop_map(GOp::Scvtci),
        1 => (0u8..=200).prop_map(GOp::Ssw),
        1 => (0u8..=128).prop_map(GOp::Sswci),
        1 => any::<bool>().prop_map(GOp::Flip),
        1 => (any::<u8>(), any::<u8>(), any::<u8>(), any::<u8>(), any::<u8>()).prop_map(|(p, a0, a1, b0, b1)| GOp::Isect { p, a0, a1, b0, b1 }),
    ]
}

fn gop() -> impl Strategy<Value = GOp> {
    prop_oneof![
        12 => gop_simple(),
        1 => (8u8..60, proptest::collection::vec(gop_simple(), 1..4)).prop_map(|(k, body)| GOp::IfPpemLt { k, body }),
    ]
}

fn program() -> impl Strategy<Value = Vec<GOp>> {
    (proptest::collection::vec(gop(), 0..14), any::<bool>()).prop_map(|(mut ops, iup)| {
        if iup {
            ops.push(GOp::Iup(true));
            ops.push(GOp::Iup(false));
        }
        ops
    })
}

fn simple_glyph() -> impl Strategy<Value = SimpleGlyph> {
    (proptest::collection::vec(proptest::collection::vec((coord(), coord(), proptest::bool::weighted(0.7)), 3..9), 1..4), program(), 200u16..1400)
        .prop_map(|(contours, program, advance)| SimpleGlyph { contours, program, advance })
}

fn component() -> impl Strategy<Value = Component> {
    (any::<u8>(), -400i16..900, -400i16..900, proptest::bool::weighted(0.3), any::<bool>(), prop_oneof![3 => Just(0u8), 1 => Just(1u8), 1 => Just(2u8), 1 => Just(3u8)], any::<[i16; 4]>(), proptest::bool::weighted(0.2), prop_oneof![4 => Just(0u8), 1 => Just(1u8), 1 => Just(2u8), 1 => Just(3u8)])
        .prop_map(|(target, a, b, by_points, round_to_grid, scale_kind, scale, use_my_metrics, offset_mode)| Component { target, a, b, by_points, round_to_grid, scale_kind, scale, use_my_metrics, offset_mode })
}

pub fn strategy() -> impl Strategy<Value = SynthFont> {
    (
        proptest::sample::select(vec![1000u16, 2048, 1024]),
        proptest::collection::vec(prop_oneof![0i16..1200, -300i16..0, Just(0i16)], 0..10),
        proptest::collection::vec(simple_glyph(), 1..5),
        proptest::collection::vec(proptest::collection::vec(component(), 1..4), 0..4),
        proptest::collection::vec(
            prop_oneof![
                (0u8..=128).prop_map(GOp::Scvtci),
                (0u8..=128).prop_map(GOp::Smd),
                (any::<u8>(), -500i16..1500).prop_map(|(c, v)| GOp::Wcvtp { c, v }),
                (0u8..8, any::<u8>()).prop_map(|(k, a)| GOp::Round(k, a)),
            ],
            0..3,
        ),
    )
        .prop_map(|(upem, cvt, simple, composites, prep)| SynthFont { upem, cvt, simple, composites, prep })
}
