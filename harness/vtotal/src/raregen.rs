//! C01/C20 stage `rare-formats-generated`: tables of formats that corpus fonts do not contain, structurally valid
//! by construction, with hostile values in the fields that feed arithmetic; each one is exercised through the
//! argument-taking / helper APIs real callers use (not only the generic traversal).
//!   bitmap : EBLC/CBLC + EBDT/CBDT, index subtable formats 1..5, image formats 1,2,5,6,7,8,9,17,18,19
//!   sbix   : strikes with hostile glyph data offsets, external glyph count
//!   sbs    : IFT sparse bit set with a full 32-bit bias
//!   cmap   : subtable formats 0,2,4,6,8,10,12,13,14
//!   aat    : AAT lookups 0,2,4,6,8,10, (extended) state tables
//!   misc   : post v2, hdmx, VORG, FDSelect 0/3/4, MVAR, STAT
use crate::observe::{walk_table, Budget, Dig, IT, NODE_BUDGET};
use proptest::collection::vec as pvec;
use proptest::prelude::*;
use read_fonts::collections::IntSet;
use read_fonts::tables::bitmap::{BitmapContent, BitmapData, BitmapLocation, BitmapMetrics, BitmapSize, IndexSubtable};
use read_fonts::traversal::SomeTable;
use read_fonts::types::{F2Dot14, GlyphId, GlyphId16, Tag};
use read_fonts::{FontData, FontRead, FontReadWithArgs, FontRef, ReadError, TableProvider};
use serde::{Deserialize, Serialize};
use std::collections::BTreeSet;
use vcore::*;

fn p16(v: &mut Vec<u8>, x: u16) {
    v.extend_from_slice(&x.to_be_bytes());
}
fn p32(v: &mut Vec<u8>, x: u32) {
    v.extend_from_slice(&x.to_be_bytes());
}
fn p24(v: &mut Vec<u8>, x: u32) {
    v.extend_from_slice(&x.to_be_bytes()[1..]);
}

/// What one observation produced: digest + how many helper calls gave a value / an error (or absence).
#[derive(Clone, Debug, Default)]
pub struct Obs {
    pub d: Dig,
    pub parsed: bool,
    pub ok: u64,
    pub err: u64,
    /// depth markers (bit i = MARKS[i] happened), for the evidence only
    pub marks: u64,
}
pub const MARKS: [&str; 17] = [
    "bitmap:location_ok:index_format=1",
    "bitmap:location_ok:index_format=2",
    "bitmap:location_ok:index_format=3",
    "bitmap:location_ok:index_format=4",
    "bitmap:location_ok:index_format=5",
    "bitmap:data_ok:image_format=1",
    "bitmap:data_ok:image_format=2",
    "bitmap:data_ok:image_format=5",
    "bitmap:data_ok:image_format=6",
    "bitmap:data_ok:image_format=7",
    "bitmap:data_ok:image_format=8",
    "bitmap:data_ok:image_format=9",
    "bitmap:data_ok:image_format=17",
    "bitmap:data_ok:image_format=18",
    "bitmap:data_ok:image_format=19",
    "sbix:glyph_data_some",
    "sbs:decoded_nonempty",
];
impl Obs {
    fn mark(&mut self, i: usize) {
        self.marks |= 1u64 << (i % 64);
    }
    fn r<T, E>(&mut self, r: &Result<T, E>) -> bool {
        let ok = self.d.ok(r);
        if ok {
            self.ok = self.ok.wrapping_add(1);
        } else {
            self.err = self.err.wrapping_add(1);
        }
        ok
    }
    fn o<T>(&mut self, r: &Option<T>) -> bool {
        let ok = self.d.some(r);
        if ok {
            self.ok = self.ok.wrapping_add(1);
        } else {
            self.err = self.err.wrapping_add(1);
        }
        ok
    }
    /// root read: counted as `parsed`, not as a helper call
    fn root<T, E>(&mut self, r: &Result<T, E>) -> bool {
        let ok = r.is_ok();
        self.d.u(if ok { 21 } else { 22 });
        self.parsed |= ok;
        ok
    }
    fn walk<'a, T: SomeTable<'a> + 'a>(&mut self, t: &T) {
        let mut b = Budget(NODE_BUDGET);
        walk_table(t, &mut b, 0, &mut self.d);
    }
}

// ---------------------------------------------------------------------------------------------
// hostile scalars and offset patterns

fn h32() -> impl Strategy<Value = u32> {
    prop_oneof![
        4 => 0u32..64,
        2 => Just(0u32),
        2 => (0u32..24).prop_map(|k| u32::MAX.wrapping_sub(k)),
        1 => Just(0x7FFF_FFFFu32),
        1 => Just(0x8000_0000u32),
        1 => Just(0xFFFFu32),
        1 => Just(0x1_0000u32),
        1 => Just(0xFFFF_0000u32),
        2 => any::<u32>(),
    ]
}
fn h16() -> impl Strategy<Value = u16> {
    prop_oneof![4 => 0u16..64, 1 => Just(0u16), 2 => (0u16..16).prop_map(|k| 0xFFFFu16.wrapping_sub(k)), 1 => Just(0x7FFFu16), 1 => Just(0x8000u16), 2 => any::<u16>()]
}

/// A sequence of offsets: 0 monotone, 1 all equal, 2 decreasing, 3 raw values (cycled), 4 monotone with entry
/// `k` replaced by `raw[0]`.
#[derive(Clone, Debug, Serialize, Deserialize)]
pub struct Pat {
    pub kind: u8,
    pub start: u32,
    pub steps: Vec<u8>,
    pub raw: Vec<u32>,
    pub k: u8,
}
impl Pat {
    pub fn fill(&self, n: usize) -> Vec<u32> {
        let step = |i: usize| -> u32 { if self.steps.is_empty() { 0 } else { self.steps[i % self.steps.len()] as u32 } };
        let raw = |i: usize| -> u32 { if self.raw.is_empty() { 0 } else { self.raw[i % self.raw.len()] } };
        let mut out = Vec::with_capacity(n);
        let mut acc = self.start;
        for i in 0..n {
            match self.kind % 5 {
                0 | 4 => {
                    out.push(acc);
                    acc = acc.wrapping_add(step(i));
                }
                1 => out.push(self.start),
                2 => {
                    out.push(acc);
                    acc = acc.wrapping_sub(step(i));
                }
                _ => out.push(raw(i)),
            }
        }
        if self.kind % 5 == 4 && n > 0 {
            out[self.k as usize % n] = raw(0);
        }
        out
    }
}
fn pat_strategy() -> impl Strategy<Value = Pat> {
    (
        prop_oneof![4 => Just(0u8), 1 => Just(1u8), 2 => Just(2u8), 2 => Just(3u8), 2 => Just(4u8)],
        prop_oneof![5 => 0u32..48, 2 => h32()],
        pvec(prop_oneof![2 => 0u8..5, 5 => 5u8..28, 1 => any::<u8>()], 1..4),
        pvec(h32(), 1..4),
        any::<u8>(),
    )
        .prop_map(|(kind, start, steps, raw, k)| Pat { kind, start, steps, raw, k })
}
/// payload bytes biased to small values, so that metrics / lengths found at hostile offsets are often plausible
fn soft_bytes(max: usize) -> impl Strategy<Value = Vec<u8>> {
    pvec(prop_oneof![12 => Just(0u8), 5 => 1u8..5, 1 => any::<u8>()], 0..max)
}

// ---------------------------------------------------------------------------------------------
// (1) EBLC/CBLC + EBDT/CBDT

pub const IMAGE_FORMATS: [u8; 12] = [1, 2, 5, 6, 7, 8, 9, 17, 18, 19, 3, 4];

#[derive(Clone, Debug, Serialize, Deserialize)]
pub struct SubSpec {
    pub first: u16,
    /// last = first + len (two's complement: negative = reversed range)
    pub len: i16,
    pub index_format: u8,
    pub image_format: u8,
    pub ido: u32,
    pub pat: Pat,
    pub image_size: u32,
    pub metrics: [u8; 8],
    /// sparse formats: 0 every glyph of the range, 1 every other, 2 descending order, 3 duplicated, 4 outside the range
    pub gid_mode: u8,
    /// sparse formats: declared num_glyphs = actual + count_adj
    pub count_adj: i8,
    /// record offset: 0 exact, 1 aliases the previous subtable, 2 end of list, 3 u32::MAX, 4 zero, 5 exact+1
    pub off_mode: u8,
}
impl SubSpec {
    pub fn last(&self) -> u16 {
        self.first.wrapping_add(self.len as u16)
    }
    fn sparse_gids(&self) -> Vec<u16> {
        let last = self.last();
        let mut base: Vec<u16> = if last >= self.first { (self.first..=last).take(12).collect() } else { vec![self.first] };
        match self.gid_mode % 5 {
            1 => base = base.into_iter().step_by(2).collect(),
            2 => base.reverse(),
            3 => base = base.iter().flat_map(|g| [*g, *g]).collect(),
            4 => {
                let n = base.len() as u16;
                base = base.iter().map(|g| g.wrapping_add(n)).collect()
            }
            _ => {}
        }
        base
    }
    fn bytes(&self) -> Vec<u8> {
        let mut v = vec![];
        p16(&mut v, self.index_format as u16);
        p16(&mut v, self.image_format as u16);
        p32(&mut v, self.ido);
        let last = self.last();
        match self.index_format {
            1 | 3 => {
                // the reader expects last - first + 2 entries (saturating); huge ranges are written truncated
                let n = (last.saturating_sub(self.first) as usize).saturating_add(2).min(400);
                for o in self.pat.fill(n) {
                    if self.index_format == 1 {
                        p32(&mut v, o);
                    } else {
                        p16(&mut v, o as u16);
                    }
                }
            }
            2 => {
                p32(&mut v, self.image_size);
                v.extend_from_slice(&self.metrics);
            }
            4 => {
                let gids = self.sparse_gids();
                let declared = (gids.len() as i64).saturating_add(self.count_adj as i64).max(0) as u32;
                p32(&mut v, declared);
                let offs = self.pat.fill(gids.len().saturating_add(1));
                for (g, o) in gids.iter().zip(offs.iter()) {
                    p16(&mut v, *g);
                    p16(&mut v, *o as u16);
                }
                p16(&mut v, if self.gid_mode & 8 == 0 { 0xFFFF } else { 0 });
                p16(&mut v, offs[gids.len()] as u16);
            }
            5 => {
                p32(&mut v, self.image_size);
                v.extend_from_slice(&self.metrics);
                let gids = self.sparse_gids();
                let declared = (gids.len() as i64).saturating_add(self.count_adj as i64).max(0) as u32;
                p32(&mut v, declared);
                for g in gids {
                    p16(&mut v, g);
                }
            }
            _ => v.extend_from_slice(&self.metrics),
        }
        v
    }
}

#[derive(Clone, Debug, Serialize, Deserialize)]
pub struct StrikeSpec {
    /// 0 union of the subtable ranges, 1 everything, 2 union shrunk by one on both sides, 3 reversed union, 4 raw
    pub range_mode: u8,
    pub raw_range: (u16, u16),
    pub bit_depth: u8,
    pub ppem: u8,
    pub subs: Vec<SubSpec>,
    /// number_of_index_subtables: 0 exact, 1 +1, 2 -1, 3 0x2000_0000, 4 u32::MAX
    pub count_mode: u8,
    /// index_subtable_list_size: 0 exact, 1 -1, 2 +100, 3 u32::MAX, 4 records only
    pub size_mode: u8,
    /// index_subtable_list_offset: 0 exact, 1 u32::MAX, 2 u32::MAX - size + 1, 3 table length
    pub list_off_mode: u8,
}

#[derive(Clone, Debug, Serialize, Deserialize)]
pub struct BitmapCase {
    pub color: bool,
    pub strikes: Vec<StrikeSpec>,
    pub bdt: Vec<u8>,
    pub via_font: bool,
    pub num_sizes_adj: i8,
    pub truncate: u8,
}

fn strike_list(s: &StrikeSpec) -> Vec<u8> {
    let rec_len = s.subs.len().wrapping_mul(8);
    let mut subs_bytes = vec![];
    let mut offs: Vec<u32> = vec![];
    for sub in &s.subs {
        offs.push((rec_len.wrapping_add(subs_bytes.len())) as u32);
        let mut b = sub.bytes();
        while b.len() % 4 != 0 {
            b.push(0);
        }
        subs_bytes.extend(b);
    }
    let total = (rec_len.wrapping_add(subs_bytes.len())) as u32;
    let mut v = vec![];
    for (i, sub) in s.subs.iter().enumerate() {
        p16(&mut v, sub.first);
        p16(&mut v, sub.last());
        let off = match sub.off_mode % 6 {
            1 => offs[i.saturating_sub(1)],
            2 => total,
            3 => u32::MAX,
            4 => 0,
            5 => offs[i].wrapping_add(1),
            _ => offs[i],
        };
        p32(&mut v, off);
    }
    v.extend(subs_bytes);
    v
}

pub fn bitmap_tables(c: &BitmapCase) -> (Vec<u8>, Vec<u8>) {
    let n = c.strikes.len();
    let mut loc = vec![];
    p16(&mut loc, if c.color { 3 } else { 2 });
    p16(&mut loc, 0);
    p32(&mut loc, (n as i64).saturating_add(c.num_sizes_adj as i64).max(0) as u32);
    let lists: Vec<Vec<u8>> = c.strikes.iter().map(strike_list).collect();
    let total_len = 8usize.wrapping_add(n.wrapping_mul(48)).wrapping_add(lists.iter().map(|l| l.len()).sum::<usize>());
    let mut pos = 8usize.wrapping_add(n.wrapping_mul(48));
    for (s, list) in c.strikes.iter().zip(lists.iter()) {
        let exact_size = list.len() as u32;
        let size = match s.size_mode % 5 {
            1 => exact_size.saturating_sub(1),
            2 => exact_size.wrapping_add(100),
            3 => u32::MAX,
            4 => (s.subs.len().wrapping_mul(8)) as u32,
            _ => exact_size,
        };
        let off = match s.list_off_mode % 4 {
            1 => u32::MAX,
            2 => u32::MAX.wrapping_sub(size).wrapping_add(1),
            3 => total_len as u32,
            _ => pos as u32,
        };
        let count = match s.count_mode % 5 {
            1 => (s.subs.len() as u32).wrapping_add(1),
            2 => (s.subs.len() as u32).saturating_sub(1),
            3 => 0x2000_0000,
            4 => u32::MAX,
            _ => s.subs.len() as u32,
        };
        p32(&mut loc, off);
        p32(&mut loc, size);
        p32(&mut loc, count);
        p32(&mut loc, 0);
        loc.extend_from_slice(&[s.ppem, 0xFB, s.ppem, 0, 0, 0, 0, 0, s.ppem, 0xFB, 0, 0]);
        loc.extend_from_slice(&[s.ppem, 0xFB, s.ppem, 0, 0, 0, 0, 0, s.ppem, 0xFB, 0, 0]);
        let lo = s.subs.iter().map(|x| x.first.min(x.last())).min().unwrap_or(0);
        let hi = s.subs.iter().map(|x| x.first.max(x.last())).max().unwrap_or(0);
        let (a, b) = match s.range_mode % 5 {
            1 => (0, 0xFFFF),
            2 => (lo.wrapping_add(1), hi.wrapping_sub(1)),
            3 => (hi, lo),
            4 => s.raw_range,
            _ => (lo, hi),
        };
        p16(&mut loc, a);
        p16(&mut loc, b);
        loc.extend_from_slice(&[s.ppem, s.ppem, s.bit_depth, 1]);
        pos = pos.wrapping_add(list.len());
    }
    for l in lists {
        loc.extend(l);
    }
    let keep = loc.len().saturating_sub(c.truncate as usize);
    loc.truncate(keep);
    let mut dat = vec![0, if c.color { 3 } else { 2 }, 0, 0];
    dat.extend_from_slice(&c.bdt);
    (loc, dat)
}

fn fold_bitmap_data(bd: &BitmapData, d: &mut Dig) {
    match &bd.metrics {
        BitmapMetrics::Small(m) => {
            d.u(1);
            d.u(m.height as u64);
            d.u(m.width as u64);
            d.i(m.bearing_x.get() as i64);
            d.i(m.bearing_y.get() as i64);
            d.u(m.advance as u64);
        }
        BitmapMetrics::Big(m) => {
            d.u(2);
            d.u(m.height as u64);
            d.u(m.width as u64);
            d.i(m.hori_bearing_x.get() as i64);
            d.i(m.vert_bearing_y.get() as i64);
            d.u(m.hori_advance as u64);
        }
    }
    match &bd.content {
        BitmapContent::Data(f, bytes) => {
            d.u(*f as u64);
            d.bytes(bytes);
        }
        BitmapContent::Composite(comps) => {
            d.u(comps.len() as u64);
            for c in comps.iter().take(64) {
                d.u(c.glyph_id().to_u16() as u64);
                d.i(c.x_offset.get() as i64);
                d.i(c.y_offset.get() as i64);
            }
        }
    }
}

fn strike_probe_gids(s: &StrikeSpec) -> Vec<u32> {
    let mut g: BTreeSet<u32> = [0u32, 1, 0xFFFE, 0xFFFF, 0x1_0000, u32::MAX].into_iter().collect();
    for sub in &s.subs {
        let (f, l) = (sub.first, sub.last());
        for x in [f.wrapping_sub(1), f, f.wrapping_add(1), f.wrapping_add(2), l.wrapping_sub(1), l, l.wrapping_add(1), f.wrapping_add(l.wrapping_sub(f) / 2)] {
            g.insert(x as u32);
        }
        if sub.index_format >= 4 {
            for x in sub.sparse_gids() {
                g.insert(x as u32);
                g.insert(x.wrapping_add(1) as u32);
            }
        }
    }
    g.insert(s.raw_range.0 as u32);
    g.insert(s.raw_range.1 as u32);
    g.into_iter().take(96).collect()
}

fn obs_sizes<'a>(sizes: &[BitmapSize], od: FontData<'a>, data_fn: &dyn Fn(&BitmapLocation) -> Option<Result<BitmapData<'a>, ReadError>>, c: &BitmapCase, o: &mut Obs) {
    o.d.u(sizes.len() as u64);
    for (i, size) in sizes.iter().enumerate().take(8) {
        let gids: Vec<u32> = match c.strikes.get(i) {
            Some(s) => strike_probe_gids(s),
            None => vec![0, 1, 2, 0xFFFF],
        };
        for g in &gids {
            let loc = size.location(od, GlyphId::new(*g));
            if o.r(&loc) {
                let loc = loc.unwrap();
                o.d.u(loc.format as u64);
                o.d.u(loc.data_offset as u64);
                o.d.u(loc.data_size as u64);
                o.d.u(loc.bit_depth as u64);
                o.d.u(loc.is_empty() as u64);
                o.d.some(&loc.metrics);
                if let Ok(list) = size.index_subtable_list(od) {
                    let hit = list.index_subtable_records().iter().find(|r| (r.first_glyph_index().to_u16() as u32..=r.last_glyph_index().to_u16() as u32).contains(g));
                    if let Some(Ok(st)) = hit.map(|r| r.index_subtable(list.offset_data())) {
                        let f = st.index_format() as usize;
                        if (1..=5).contains(&f) {
                            o.mark(f - 1);
                        }
                    }
                }
                if let Some(r) = data_fn(&loc) {
                    if o.r(&r) {
                        if let Some(ix) = IMAGE_FORMATS.iter().take(10).position(|f| *f as u16 == loc.format) {
                            o.mark(5 + ix);
                        }
                        fold_bitmap_data(&r.unwrap(), &mut o.d);
                    }
                }
            }
        }
        // the list and its subtables, directly
        let list = size.index_subtable_list(od);
        if !o.r(&list) {
            continue;
        }
        let list = list.unwrap();
        for rec in list.index_subtable_records().iter().take(16) {
            let st = rec.index_subtable(list.offset_data());
            if o.r(&st) {
                let st = st.unwrap();
                o.d.u(st.index_format() as u64);
                o.d.u(st.image_format() as u64);
                o.d.u(st.image_data_offset() as u64);
                o.walk(&st);
            }
            // the same bytes with arguments that do not belong to them
            if let Some(data) = list.offset_data().split_off(rec.index_subtable_offset().to_u32() as usize) {
                for (l, f) in [(rec.first_glyph_index(), rec.last_glyph_index()), (GlyphId16::new(rec.last_glyph_index().to_u16().wrapping_add(1)), rec.first_glyph_index())] {
                    let st = IndexSubtable::read_with_args(data, &(l, f));
                    if o.d.ok(&st) {
                        o.walk(&st.unwrap());
                    }
                }
            }
        }
    }
}

fn obs_bitmap(c: &BitmapCase, bufs: &[&[u8]], o: &mut Obs) {
    use read_fonts::tables::{cbdt::Cbdt, cblc::Cblc, ebdt::Ebdt, eblc::Eblc};
    macro_rules! go {
        ($loc:expr, $dat:expr) => {{
            let loc = $loc;
            let dat = $dat.ok();
            if o.root(&loc) {
                let t = loc.unwrap();
                o.walk(&t);
                obs_sizes(t.bitmap_sizes(), t.offset_data(), &|l: &BitmapLocation| dat.as_ref().map(|d| d.data(l)), c, o);
            }
        }};
    }
    if c.via_font {
        let Ok(font) = FontRef::new(bufs[0]) else {
            o.d.u(99);
            return;
        };
        if c.color {
            go!(font.cblc(), font.cbdt())
        } else {
            go!(font.eblc(), font.ebdt())
        }
    } else if c.color {
        go!(Cblc::read(FontData::new(bufs[0])), Cbdt::read(FontData::new(bufs[1])))
    } else {
        go!(Eblc::read(FontData::new(bufs[0])), Ebdt::read(FontData::new(bufs[1])))
    }
}

fn sub_strategy() -> impl Strategy<Value = SubSpec> {
    (
        (
            prop_oneof![5 => 0u16..24, 2 => 0xFFECu16..=0xFFFF, 1 => any::<u16>()],
            prop_oneof![8 => 0i16..10, 2 => -4i16..0, 1 => 10i16..300],
            prop_oneof![14 => 1u8..=5, 1 => Just(0u8), 1 => Just(6u8)],
            prop_oneof![12 => proptest::sample::select(IMAGE_FORMATS.to_vec()), 1 => any::<u8>()],
            prop_oneof![6 => 0u32..16, 3 => h32()],
        ),
        pat_strategy(),
        prop_oneof![5 => 0u32..40, 2 => h32()],
        prop_oneof![3 => Just([0u8; 8]), 2 => any::<[u8; 8]>(), 2 => pvec(0u8..4, 8).prop_map(|v| { let mut a = [0u8; 8]; a.copy_from_slice(&v); a })],
        prop_oneof![6 => Just(0u8), 1 => Just(1u8), 1 => Just(2u8), 1 => Just(3u8), 1 => Just(4u8), 1 => any::<u8>()],
        prop_oneof![8 => Just(0i8), 1 => Just(1i8), 1 => Just(-1i8), 1 => any::<i8>()],
        prop_oneof![12 => Just(0u8), 1 => 1u8..6],
    )
        .prop_map(|((first, len, index_format, image_format, ido), pat, image_size, metrics, gid_mode, count_adj, off_mode)| SubSpec {
            first,
            len,
            index_format,
            image_format,
            ido,
            pat,
            image_size,
            metrics,
            gid_mode,
            count_adj,
            off_mode,
        })
}
fn bitmap_strategy() -> impl Strategy<Value = BitmapCase> {
    let strike = (
        prop_oneof![6 => Just(0u8), 2 => Just(1u8), 1 => Just(2u8), 1 => Just(3u8), 1 => Just(4u8)],
        (h16(), h16()),
        prop_oneof![4 => proptest::sample::select(vec![1u8, 2, 4, 8, 32]), 1 => any::<u8>()],
        any::<u8>(),
        pvec(sub_strategy(), 1..5),
        prop_oneof![12 => Just(0u8), 1 => 1u8..5],
        prop_oneof![12 => Just(0u8), 1 => 1u8..5],
        prop_oneof![14 => Just(0u8), 1 => 1u8..4],
    )
        .prop_map(|(range_mode, raw_range, bit_depth, ppem, subs, count_mode, size_mode, list_off_mode)| StrikeSpec { range_mode, raw_range, bit_depth, ppem, subs, count_mode, size_mode, list_off_mode });
    (any::<bool>(), pvec(strike, 1..4), soft_bytes(160), prop_oneof![3 => Just(false), 1 => Just(true)], prop_oneof![14 => Just(0i8), 1 => Just(1i8), 1 => Just(-1i8)], prop_oneof![14 => Just(0u8), 1 => 1u8..12])
        .prop_map(|(color, strikes, bdt, via_font, num_sizes_adj, truncate)| BitmapCase { color, strikes, bdt, via_font, num_sizes_adj, truncate })
}

// ---------------------------------------------------------------------------------------------
// sbix

#[derive(Clone, Debug, Serialize, Deserialize)]
pub struct SbixStrike {
    pub ppem: u16,
    pub pat: Pat,
    /// add the strike header length to every offset (so that monotone patterns land in the glyph data)
    pub rel: bool,
    pub data: Vec<u8>,
    /// strike offset: 0 exact, 1 u32::MAX, 2 table length, 3 zero, 4 exact+2
    pub off_mode: u8,
}
#[derive(Clone, Debug, Serialize, Deserialize)]
pub struct SbixCase {
    pub num_glyphs: u16,
    /// external glyph count: 0 exact, 1 +1, 2 -1, 3 zero, 4 raw
    pub arg_mode: u8,
    pub arg_raw: u16,
    pub flags: u16,
    pub strikes: Vec<SbixStrike>,
    pub num_strikes_adj: i8,
    pub via_font: bool,
}
impl SbixCase {
    fn arg(&self) -> u16 {
        match self.arg_mode % 5 {
            1 => self.num_glyphs.wrapping_add(1),
            2 => self.num_glyphs.wrapping_sub(1),
            3 => 0,
            4 => self.arg_raw,
            _ => self.num_glyphs,
        }
    }
}
pub fn sbix_bytes(c: &SbixCase) -> Vec<u8> {
    let n = c.num_glyphs.min(64) as usize;
    let mut v = vec![];
    p16(&mut v, 1);
    p16(&mut v, c.flags);
    p32(&mut v, (c.strikes.len() as i64).saturating_add(c.num_strikes_adj as i64).max(0) as u32);
    let hdr = 8usize.wrapping_add(c.strikes.len().wrapping_mul(4));
    let mut bodies = vec![];
    let mut offs = vec![];
    for s in &c.strikes {
        offs.push(hdr.wrapping_add(bodies.len()) as u32);
        let mut b = vec![];
        p16(&mut b, s.ppem);
        p16(&mut b, 72);
        let shdr = 4usize.wrapping_add((n.wrapping_add(1)).wrapping_mul(4)) as u32;
        for o in s.pat.fill(n.wrapping_add(1)) {
            p32(&mut b, if s.rel { o.wrapping_add(shdr) } else { o });
        }
        b.extend_from_slice(&s.data);
        while b.len() % 4 != 0 {
            b.push(0);
        }
        bodies.extend(b);
    }
    let total = hdr.wrapping_add(bodies.len()) as u32;
    for (s, o) in c.strikes.iter().zip(offs.iter()) {
        p32(
            &mut v,
            match s.off_mode % 5 {
                1 => u32::MAX,
                2 => total,
                3 => 0,
                4 => o.wrapping_add(2),
                _ => *o,
            },
        );
    }
    v.extend(bodies);
    v
}
fn obs_sbix(c: &SbixCase, bufs: &[&[u8]], o: &mut Obs) {
    use read_fonts::tables::sbix::Sbix;
    let font;
    let t = if c.via_font {
        let Ok(f) = FontRef::new(bufs[0]) else {
            o.d.u(99);
            return;
        };
        font = f;
        font.sbix()
    } else {
        Sbix::read(FontData::new(bufs[0]), c.arg())
    };
    if !o.root(&t) {
        return;
    }
    let t = t.unwrap();
    o.walk(&t);
    let n = c.num_glyphs.min(64) as u32;
    let strikes = t.strikes();
    o.d.u(strikes.len() as u64);
    for i in 0..(c.strikes.len().wrapping_add(2)) {
        let st = strikes.get(i);
        if !o.r(&st) {
            continue;
        }
        let st = st.unwrap();
        o.d.u(st.ppem() as u64);
        o.d.u(st.glyph_data_offsets().len() as u64);
        for g in (0..n.wrapping_add(3)).chain([0xFFFE, 0xFFFF, 0x1_0000, u32::MAX - 1, u32::MAX]) {
            let r = st.glyph_data(GlyphId::new(g));
            if o.r(&r) {
                match r.unwrap() {
                    None => o.d.u(0),
                    Some(gd) => {
                        o.mark(15);
                        o.d.i(gd.origin_offset_x() as i64);
                        o.d.i(gd.origin_offset_y() as i64);
                        o.d.u(u32::from_be_bytes(gd.graphic_type().to_be_bytes()) as u64);
                        o.d.bytes(gd.data());
                    }
                }
            }
        }
    }
}
fn sbix_strategy() -> impl Strategy<Value = SbixCase> {
    let strike = (any::<u16>(), pat_strategy(), prop_oneof![3 => Just(true), 1 => Just(false)], soft_bytes(80), prop_oneof![10 => Just(0u8), 1 => 1u8..5])
        .prop_map(|(ppem, pat, rel, data, off_mode)| SbixStrike { ppem, pat, rel, data, off_mode });
    (0u16..12, prop_oneof![6 => Just(0u8), 1 => 1u8..5], h16(), any::<u16>(), pvec(strike, 1..4), prop_oneof![10 => Just(0i8), 1 => Just(1i8), 1 => Just(-1i8)], prop_oneof![3 => Just(false), 1 => Just(true)])
        .prop_map(|(num_glyphs, arg_mode, arg_raw, flags, strikes, num_strikes_adj, via_font)| SbixCase { num_glyphs, arg_mode, arg_raw, flags, strikes, num_strikes_adj, via_font })
}

// ---------------------------------------------------------------------------------------------
// (2) IFT sparse bit set, full 32-bit bias

pub const SBS_BF: [u32; 4] = [2, 4, 8, 32];
pub const SBS_MAX_HEIGHT: [u8; 4] = [31, 16, 11, 7];

#[derive(Clone, Debug, Serialize, Deserialize)]
pub struct SbsCase {
    pub bf: u8,
    pub height: u8,
    /// node values in breadth-first order (cycled, masked to the branch factor); 0 = completely filled node
    pub nodes: Vec<u32>,
    /// nodes after this many are written as filled nodes, which closes the tree
    pub max_nodes: u8,
    pub bias: u32,
    /// 0 u32::MAX, 1 0x10FFFF, 2 bias, 3 bias + small, 4 raw, 5 bias - 1
    pub max_mode: u8,
    pub max_raw: u32,
    pub trunc: u8,
    pub tail: Vec<u8>,
}
pub fn sbs_bytes(c: &SbsCase) -> Vec<u8> {
    let bfi = (c.bf & 3) as usize;
    let bf = SBS_BF[bfi];
    let height = c.height & 31;
    let mask: u32 = if bf == 32 { u32::MAX } else { (1u32 << bf).wrapping_sub(1) };
    let mut vals: Vec<u32> = vec![];
    let mut queue = std::collections::VecDeque::new();
    if height > 0 {
        queue.push_back(1u8);
    }
    while let Some(depth) = queue.pop_front() {
        let raw = if vals.len() >= c.max_nodes as usize || c.nodes.is_empty() { 0 } else { c.nodes[vals.len() % c.nodes.len()] };
        let mut val = raw & mask;
        if raw != 0 && val == 0 {
            val = 1u32 << (raw.trailing_zeros() % bf);
        }
        vals.push(val);
        if val != 0 && depth < height && queue.len() < 4096 {
            for _ in 0..val.count_ones() {
                queue.push_back(depth.wrapping_add(1));
            }
        }
        if vals.len() > 8192 {
            break;
        }
    }
    let mut out = vec![(c.bf & 3) | (height << 2)];
    match bf {
        2 | 4 => {
            let mut cur = 0u8;
            let mut sub = 0u32;
            for v in &vals {
                cur |= (*v as u8) << sub;
                sub = sub.wrapping_add(bf);
                if sub == 8 {
                    out.push(cur);
                    cur = 0;
                    sub = 0;
                }
            }
            if sub != 0 {
                out.push(cur);
            }
        }
        8 => out.extend(vals.iter().map(|v| *v as u8)),
        _ => {
            for v in &vals {
                out.extend_from_slice(&v.to_le_bytes());
            }
        }
    }
    out
}
fn obs_sbs(c: &SbsCase, bufs: &[&[u8]], o: &mut Obs) {
    let data = bufs[0];
    let bfi = (c.bf & 3) as usize;
    let height = (c.height & 31) as u32;
    let span: u64 = (SBS_BF[bfi] as u64).checked_pow(height).unwrap_or(u64::MAX);
    let max = match c.max_mode % 6 {
        0 => u32::MAX,
        1 => 0x10FFFF,
        2 => c.bias,
        3 => c.bias.saturating_add(c.max_raw % 64),
        4 => c.max_raw,
        _ => c.bias.wrapping_sub(1),
    };
    // a filled node near the root inserts its whole range page by page: keep the populated span bounded
    const SPAN: u32 = 1 << 21;
    let clamp = |bias: u32, max: u32| if span > SPAN as u64 { max.min(bias.saturating_add(SPAN)) } else { max };
    o.parsed = true;
    // the bias at which the last value of the tree lands exactly on u32::MAX, and its neighbours
    let edge = u32::MAX.wrapping_sub(span.saturating_sub(1).min(u32::MAX as u64) as u32);
    let pairs = [(c.bias, max), (edge, u32::MAX), (edge.wrapping_add(1), u32::MAX), (edge.wrapping_sub(1), max), (0, max)];
    let keep = data.len().saturating_sub((c.trunc % 4) as usize);
    let mut with_tail = data.to_vec();
    with_tail.extend_from_slice(&c.tail);
    for (bias, max) in pairs {
        let max = clamp(bias, max);
        for input in [data, &data[..keep], &with_tail[..]] {
            let r = IntSet::<u32>::from_sparse_bit_set_bounded(input, bias, max);
            if o.r(&r) {
                let (s, rest) = r.unwrap();
                if !s.is_empty() {
                    o.mark(16);
                }
                o.d.u(s.len());
                o.d.u(rest.len() as u64);
                for rg in s.iter_ranges().take(24) {
                    o.d.u(*rg.start() as u64);
                    o.d.u(*rg.end() as u64);
                }
                o.d.some(&s.last());
            }
            if c.trunc % 4 == 0 && c.tail.is_empty() {
                break;
            }
        }
    }
    if span <= SPAN as u64 {
        let r = IntSet::<u32>::from_sparse_bit_set(data);
        if o.r(&r) {
            o.d.u(r.unwrap().len());
        }
    }
}
fn sbs_strategy() -> impl Strategy<Value = SbsCase> {
    let node = prop_oneof![3 => Just(0u32), 3 => (0u32..32).prop_map(|b| 1u32 << b), 2 => Just(u32::MAX), 1 => Just(0x8000_0001u32), 3 => any::<u32>()];
    let bias = prop_oneof![
        2 => Just(0u32),
        2 => 1u32..64,
        2 => (0u32..32).prop_map(|k| (1u32 << 24).wrapping_add(k).wrapping_sub(16)),
        3 => (0u32..64).prop_map(|k| u32::MAX.wrapping_sub(k)),
        2 => Just(u32::MAX),
        2 => (1u32..32, 0u32..8).prop_map(|(s, k)| u32::MAX.wrapping_sub(1u32 << s).wrapping_add(k).wrapping_sub(4)),
        2 => any::<u32>(),
    ];
    (0u8..4, any::<u8>(), any::<u8>())
        .prop_flat_map(|(bf, hsel, hraw)| {
            let mh = SBS_MAX_HEIGHT[bf as usize];
            let height = match hsel % 8 {
                0..=3 => hraw % 4,
                4 => mh,
                5 => mh.wrapping_add(1),
                6 => mh.saturating_sub(hraw % 3),
                _ => hraw % 32,
            };
            (Just(bf), Just(height))
        })
        .prop_flat_map(move |(bf, height)| {
            (Just(bf), Just(height), pvec(node.clone(), 1..10), prop_oneof![1 => Just(0u8), 4 => 1u8..6, 3 => 6u8..40], bias.clone(), 0u8..6, h32(), prop_oneof![3 => Just(0u8), 1 => 1u8..4], pvec(any::<u8>(), 0..3))
        })
        .prop_map(|(bf, height, nodes, max_nodes, bias, max_mode, max_raw, trunc, tail)| SbsCase { bf, height, nodes, max_nodes, bias, max_mode, max_raw, trunc, tail })
}

// ---------------------------------------------------------------------------------------------
// the stage

#[derive(Clone, Debug, Serialize, Deserialize)]
pub enum RareCase {
    Bitmap(BitmapCase),
    Sbix(SbixCase),
    Sbs(SbsCase),
    Cmap(CmapCase),
    Aat(AatCase),
    Misc(MiscCase),
    Device(DeviceCase),
    Charset(CharsetCase),
}

fn wrap_font(tables: Vec<([u8; 4], Vec<u8>)>) -> Vec<u8> {
    sfnt::assemble(0x0001_0000, &tables)
}

/// The byte buffers a case is observed on (built once; purity re-observes them in other places).
pub fn build(c: &RareCase) -> Vec<Vec<u8>> {
    match c {
        RareCase::Bitmap(b) => {
            let (loc, dat) = bitmap_tables(b);
            if b.via_font {
                let (tl, td) = if b.color { (*b"CBLC", *b"CBDT") } else { (*b"EBLC", *b"EBDT") };
                vec![wrap_font(vec![(tl, loc), (td, dat)])]
            } else {
                vec![loc, dat]
            }
        }
        RareCase::Sbix(s) => {
            let t = sbix_bytes(s);
            if s.via_font {
                vec![wrap_font(vec![(*b"maxp", fontkit::maxp_bytes(s.arg())), (*b"sbix", t)])]
            } else {
                vec![t]
            }
        }
        RareCase::Sbs(s) => vec![sbs_bytes(s)],
        RareCase::Cmap(m) => {
            let t = cmap_bytes(m);
            if m.via_font {
                vec![wrap_font(vec![(*b"maxp", fontkit::maxp_bytes(m.num_glyphs)), (*b"cmap", t)])]
            } else {
                vec![t]
            }
        }
        RareCase::Aat(a) => vec![aat_bytes(a)],
        RareCase::Misc(m) => vec![misc_bytes(m)],
        RareCase::Device(d) => vec![device_bytes(d)],
        RareCase::Charset(c) => vec![charset_bytes(c)],
    }
}

pub fn observe(c: &RareCase, bufs: &[&[u8]]) -> Obs {
    let mut o = Obs::default();
    match c {
        RareCase::Bitmap(b) => obs_bitmap(b, bufs, &mut o),
        RareCase::Sbix(s) => obs_sbix(s, bufs, &mut o),
        RareCase::Sbs(s) => obs_sbs(s, bufs, &mut o),
        RareCase::Cmap(m) => obs_cmap(m, bufs, &mut o),
        RareCase::Aat(a) => obs_aat(a, bufs, &mut o),
        RareCase::Misc(m) => obs_misc(m, bufs, &mut o),
        RareCase::Device(d) => obs_device(d, bufs, &mut o),
        RareCase::Charset(c) => obs_charset(c, bufs, &mut o),
    }
    o
}

/// distribution classes: kind + every format the case contains
pub fn classes(c: &RareCase) -> Vec<String> {
    let mut v = vec![];
    match c {
        RareCase::Bitmap(b) => {
            v.push(format!("bitmap:{}{}", if b.color { "CBLC" } else { "EBLC" }, if b.via_font { "(font)" } else { "" }));
            let mut seen = BTreeSet::new();
            for s in &b.strikes {
                for sub in &s.subs {
                    seen.insert(format!("bitmap:index_format={}", sub.index_format));
                    seen.insert(if IMAGE_FORMATS.contains(&sub.image_format) { format!("bitmap:image_format={}", sub.image_format) } else { "bitmap:image_format=other".to_string() });
                    if sub.len < 0 {
                        seen.insert("bitmap:reversed_range".to_string());
                    }
                    seen.insert(format!("bitmap:offsets={}", ["monotone", "equal", "decreasing", "raw", "monotone+1bad"][(sub.pat.kind % 5) as usize]));
                }
                if s.subs.len() >= 2 {
                    seen.insert("bitmap:multi_subtable_strike".to_string());
                }
            }
            v.extend(seen);
        }
        RareCase::Sbix(s) => v.push(format!("sbix{}", if s.via_font { "(font)" } else { "" })),
        RareCase::Sbs(s) => {
            v.push(format!("sbs:bf={}", SBS_BF[(s.bf & 3) as usize]));
            let mh = SBS_MAX_HEIGHT[(s.bf & 3) as usize];
            let h = s.height & 31;
            v.push(format!("sbs:height={}", if h == 0 { "0" } else if h > mh { ">max" } else if h == mh { "max" } else if h <= 3 { "1..3" } else { "mid" }));
            v.push(format!(
                "sbs:bias={}",
                if s.bias == 0 { "0" } else if s.bias == u32::MAX { "u32::MAX" } else if s.bias >= u32::MAX - 64 { "u32::MAX-small" } else if s.bias < 64 { "small" } else if s.bias.abs_diff(1 << 24) <= 16 { "2^24±k" } else { "other" }
            ));
            if s.nodes.iter().any(|n| *n == 0) || (s.max_nodes as usize) < 40 {
                v.push("sbs:has_filled_node".into());
            }
        }
        RareCase::Cmap(m) => {
            let mut seen = BTreeSet::new();
            for s in &m.subs {
                seen.insert(if [0u8, 2, 4, 6, 8, 10, 12, 13, 14].contains(&s.format) { format!("cmap:format={}", s.format) } else { "cmap:format=unknown".to_string() });
            }
            v.push(format!("cmap{}", if m.via_font { "(font)" } else { "" }));
            v.extend(seen);
        }
        RareCase::Aat(a) => v.push(format!("aat:{}", AAT_KINDS[(a.kind as usize) % AAT_KINDS.len()])),
        RareCase::Misc(m) => v.push(format!("misc:{}", MISC_KINDS[(m.kind as usize) % MISC_KINDS.len()])),
        RareCase::Device(d) => {
            v.push(format!("device:{}", DEVICE_WRAPS[(d.wrap as usize) % DEVICE_WRAPS.len()]));
            v.push(format!("device:delta_format={}", match d.format { 1 | 2 | 3 => d.format.to_string(), 0x8000 => "0x8000".into(), _ => "reserved".into() }));
            let (st, en) = d.sizes();
            v.push(format!("device:range={}", if en == 0xFFFF && st <= en { "ends_at_0xFFFF" } else if st < en { "start<end" } else if st == en { "start==end" } else { "start>end" }));
            v.push(format!("device:words={}", match d.word_adj { 0 => "exact", x if x < 0 => "short", _ => "long" }));
        }
        RareCase::Charset(c) => {
            v.push(format!("charset:{}", CHARSET_KINDS[(c.kind as usize) % CHARSET_KINDS.len()]));
        }
    }
    v
}

pub fn test_rare(c: &RareCase, stats: &Stats, strict: bool) -> CaseResult {
    let bufs = build(c);
    let views: Vec<&[u8]> = bufs.iter().map(|b| &b[..]).collect();
    let o = match guard::catch(|| observe(c, &views)) {
        Ok(o) => o,
        Err(p) => {
            if strict && !p.is_overflow_or_assert() {
                stats.class(&format!("non_overflow_panic_ignored(strict):{}", guard::rel_file(&p.file)));
                return Ok(());
            }
            return Err(Fail::from_panic(&p));
        }
    };
    let cls = classes(c);
    for k in &cls {
        stats.class(k);
    }
    for (i, m) in MARKS.iter().enumerate() {
        if o.marks & (1u64 << i) != 0 {
            stats.class(m);
        }
    }
    let h = hash_json(c);
    if o.parsed {
        stats.class("parsed");
        if o.ok > 0 && o.err > 0 {
            stats.class(&format!("on_validation_boundary:{}", cls[0].split(['(', ':']).next().unwrap_or("")));
            stats.nontrivial(h);
            if stats.want_sample() && h % 512 == 0 {
                stats.sample(serde_json::json!({"case": c, "helper_ok": o.ok, "helper_err": o.err, "fields_digested": o.d.fields}));
            }
        } else if o.ok > 0 {
            stats.class("all_ok");
        } else {
            stats.class("all_err");
        }
    }
    if o.d.budget_exhausted > 0 {
        stats.class("budget_exhausted");
    }
    // purity: same bytes => same observations, on every call, wherever the bytes sit, on every thread
    if !strict && h % 8 == 0 {
        stats.class("purity_checked");
        let again = observe(c, &views);
        if again.d.h != o.d.h {
            return Err(Fail::new("c01|impure|repeat", format!("rare-formats: digest differs between two calls on the same buffers: {:x} vs {:x}", o.d.h, again.d.h)));
        }
        for off in 1..4usize {
            let shifted: Vec<Vec<u8>> = bufs
                .iter()
                .map(|b| {
                    let mut s = vec![0xA5u8; b.len() + off];
                    s[off..].copy_from_slice(b);
                    s
                })
                .collect();
            let sv: Vec<&[u8]> = shifted.iter().map(|b| &b[off..]).collect();
            let moved = observe(c, &sv);
            if moved.d.h != o.d.h {
                return Err(Fail::new("c01|impure|placement", format!("rare-formats: digest differs when the bytes sit at offset {off} of an allocation: {:x} vs {:x}", o.d.h, moved.d.h)));
            }
        }
        let other = std::thread::scope(|s| s.spawn(|| guard::catch(|| observe(c, &views))).join());
        match other {
            Ok(Ok(t)) => {
                if t.d.h != o.d.h {
                    return Err(Fail::new("c01|impure|thread", format!("rare-formats: digest differs on another thread: {:x} vs {:x}", o.d.h, t.d.h)));
                }
            }
            Ok(Err(p)) => return Err(Fail::from_panic(&p)),
            Err(_) => return Err(Fail::new("c01|impure|thread-panic", "rare-formats: observer panicked on the second thread only")),
        }
    }
    Ok(())
}

pub fn strategy() -> impl Strategy<Value = RareCase> {
    prop_oneof![
        7 => bitmap_strategy().prop_map(RareCase::Bitmap),
        2 => sbix_strategy().prop_map(RareCase::Sbix),
        4 => sbs_strategy().prop_map(RareCase::Sbs),
        3 => cmap_strategy().prop_map(RareCase::Cmap),
        2 => aat_strategy().prop_map(RareCase::Aat),
        2 => misc_strategy().prop_map(RareCase::Misc),
        2 => device_strategy().prop_map(RareCase::Device),
        2 => charset_strategy().prop_map(RareCase::Charset),
    ]
}

pub fn stage(ctx: &Ctx, strict: bool) {
    ctx.note(
        "rare-formats-generated",
        serde_json::json!({
            "generates": "structurally valid tables of formats absent from the corpus, hostile values in the fields that feed arithmetic: EBLC/CBLC+EBDT/CBDT (index subtable formats 1-5, image formats 1,2,5,6,7,8,9,17,18,19, several records per strike, empty/reversed/overlapping ranges, monotone/equal/decreasing/raw offsets), sbix, IFT sparse bit set with a 32-bit bias, cmap formats 0,2,4,6,8,10,12,13,14, AAT lookups 0/2/4/6/8/10 + (extended) state tables, post v2, hdmx, VORG, FDSelect 0/3/4, MVAR, STAT, layout Device/VariationIndex tables (bare and inside Anchor format 3, CaretValue format 3, BaseCoord format 3, ValueRecord) with correlated start/end sizes and exact/short/long word arrays, CFF charsets (predefined ISOAdobe/Expert/ExpertSubset and custom formats 0/1/2) with glyph counts straddling every table length; each through its argument-taking helpers (BitmapSize::location, Ebdt/Cbdt::data, Strike::glyph_data, from_sparse_bit_set_bounded, map_codepoint/map_variant/iterators, skrifa Charmap, Lookup::value, StateTable::entry, glyph_name, record_for_size, font_index, metric_delta, Device::iter, Charset::string_id/iter) with probe arguments in and around every range, plus the generic traversal",
            "oracle": "C01: no panic/abort/hang; digest equal on a repeated call, at allocation offsets 1-3 and on a second thread (1/8 of the cases, release profile). C20: overflow/assertion panics only",
            "non_trivial": "the generated table parsed (root read Ok) and among the helper calls at least one returned a value (Ok/Some) and at least one an error/absence (Err/None): the case sits on a validation boundary; distinct by hash of the case",
        }),
    );
    ctx.prop_stage("rare-formats-generated", Isolation::Procs, ctx.n(100_000, 1_000_000), strategy, |c, s| test_rare(c, s, strict));
}

// ---------------------------------------------------------------------------------------------
// (3a) cmap: every subtable format

pub const CMAP_PLATS: [(u16, u16); 8] = [(0, 3), (3, 1), (3, 10), (0, 4), (0, 5), (3, 0), (1, 0), (0, 6)];

#[derive(Clone, Debug, Serialize, Deserialize)]
pub struct CmapSub {
    /// 0, 2, 4, 6, 8, 10, 12, 13, 14 (anything else: unknown format word)
    pub format: u8,
    pub plat: u8,
    /// (start, end, glyph / delta word): segments, groups, selectors — read per format
    pub groups: Vec<(u32, u32, u32)>,
    pub glyphs: Vec<u16>,
    pub a: u32,
    /// per-format variation (count adjustments, unsorted groups, hostile inner offsets)
    pub mode: u8,
    /// declared length: 0 exact, 1 zero, 2 max, 3 exact-1
    pub len_mode: u8,
    /// encoding record offset: 0 exact, 1 u32::MAX, 2 table length, 3 exact+1, 4 zero
    pub off_mode: u8,
}
#[derive(Clone, Debug, Serialize, Deserialize)]
pub struct CmapCase {
    pub subs: Vec<CmapSub>,
    pub num_glyphs: u16,
    pub cps: Vec<u32>,
    pub limits: (u32, u32),
    pub via_font: bool,
}

fn cmap_sub_bytes(s: &CmapSub) -> Vec<u8> {
    let mut v = vec![];
    let g = |i: usize| -> u16 { if s.glyphs.is_empty() { 0 } else { s.glyphs[i % s.glyphs.len()] } };
    let mut groups = s.groups.clone();
    if s.mode & 1 == 0 {
        groups.sort();
    }
    let adj = |n: usize| -> u32 {
        match (s.mode >> 1) % 8 {
            1 => (n as u32).wrapping_add(1),
            2 => (n as u32).saturating_sub(1),
            3 => u32::MAX,
            _ => n as u32,
        }
    };
    let declared = |exact: usize| -> u32 {
        match s.len_mode % 4 {
            1 => 0,
            2 => u32::MAX,
            3 => (exact as u32).wrapping_sub(1),
            _ => exact as u32,
        }
    };
    match s.format {
        0 => {
            p16(&mut v, 0);
            p16(&mut v, declared(262) as u16);
            p16(&mut v, s.a as u16);
            for i in 0..256 {
                v.push(g(i) as u8);
            }
        }
        2 => {
            let nsub = groups.len().max(1);
            let body = 6 + 512 + nsub * 8 + s.glyphs.len() * 2;
            p16(&mut v, 2);
            p16(&mut v, declared(body) as u16);
            p16(&mut v, s.a as u16);
            for i in 0..256usize {
                // key = 8 * subheader index; a few keys point past the subheaders
                let k = (g(i) as usize) % (nsub + if s.mode & 16 != 0 { 3 } else { 0 });
                p16(&mut v, (k * 8) as u16);
            }
            for i in 0..nsub {
                let (a, b, c) = groups.get(i).copied().unwrap_or((0, 0, 0));
                p16(&mut v, a as u16);
                p16(&mut v, b as u16);
                p16(&mut v, c as u16);
                p16(&mut v, (c >> 16) as u16);
            }
            for x in &s.glyphs {
                p16(&mut v, *x);
            }
        }
        4 => {
            let n = groups.len();
            let body = 16 + n * 8 + s.glyphs.len() * 2;
            p16(&mut v, 4);
            p16(&mut v, declared(body) as u16);
            p16(&mut v, s.a as u16);
            let segx2 = (adj(n) as u16).wrapping_mul(2) | ((s.mode >> 6) & 1) as u16;
            p16(&mut v, segx2);
            p16(&mut v, s.a as u16);
            p16(&mut v, (s.a >> 8) as u16);
            p16(&mut v, (s.a >> 16) as u16);
            for (_, e, _) in &groups {
                p16(&mut v, *e as u16);
            }
            p16(&mut v, 0);
            for (st, _, _) in &groups {
                p16(&mut v, *st as u16);
            }
            for (_, _, w) in &groups {
                p16(&mut v, *w as u16);
            }
            for (i, (_, _, w)) in groups.iter().enumerate() {
                let ro = match (w >> 24) & 3 {
                    0 => 0u16,
                    1 => (((n - i) as u32).wrapping_add((w >> 16) & 7).wrapping_mul(2)) as u16,
                    2 => [0xFFFFu16, 0xFFFE, 1, 3][((w >> 16) & 3) as usize],
                    _ => (w >> 16) as u16,
                };
                p16(&mut v, ro);
            }
            for x in &s.glyphs {
                p16(&mut v, *x);
            }
        }
        6 => {
            p16(&mut v, 6);
            p16(&mut v, declared(10 + s.glyphs.len() * 2) as u16);
            p16(&mut v, s.a as u16);
            p16(&mut v, groups.first().map(|g| g.0 as u16).unwrap_or(0));
            p16(&mut v, adj(s.glyphs.len()) as u16);
            for x in &s.glyphs {
                p16(&mut v, *x);
            }
        }
        8 => {
            p16(&mut v, 8);
            p16(&mut v, 0);
            p32(&mut v, declared(16 + 8192 + groups.len() * 12));
            p32(&mut v, s.a);
            for i in 0..8192usize {
                v.push(if s.mode & 32 != 0 { g(i) as u8 } else { 0 });
            }
            p32(&mut v, adj(groups.len()));
            for (a, b, c) in &groups {
                p32(&mut v, *a);
                p32(&mut v, *b);
                p32(&mut v, *c);
            }
        }
        10 => {
            p16(&mut v, 10);
            p16(&mut v, 0);
            p32(&mut v, declared(20 + s.glyphs.len() * 2));
            p32(&mut v, s.a);
            p32(&mut v, groups.first().map(|g| g.0).unwrap_or(0));
            p32(&mut v, adj(s.glyphs.len()));
            for x in &s.glyphs {
                p16(&mut v, *x);
            }
        }
        12 | 13 => {
            p16(&mut v, s.format as u16);
            p16(&mut v, 0);
            p32(&mut v, declared(16 + groups.len() * 12));
            p32(&mut v, s.a);
            p32(&mut v, adj(groups.len()));
            for (a, b, c) in &groups {
                p32(&mut v, *a);
                p32(&mut v, *b);
                p32(&mut v, *c);
            }
        }
        14 => {
            let n = groups.len();
            let mut tails: Vec<u8> = vec![];
            let mut recs: Vec<u8> = vec![];
            let hdr = 10 + n * 11;
            for (i, (sel, base, w)) in groups.iter().enumerate() {
                p24(&mut recs, *sel & 0xFF_FFFF);
                let mut def_off = 0u32;
                let mut non_off = 0u32;
                if w & 1 != 0 {
                    def_off = (hdr + tails.len()) as u32;
                    let cnt = ((w >> 1) & 3) as usize + 1;
                    p32(&mut tails, if w & 0x100 != 0 { cnt as u32 + 1 } else { cnt as u32 });
                    for j in 0..cnt {
                        p24(&mut tails, base.wrapping_add((j as u32).wrapping_mul(0x10)) & 0xFF_FFFF);
                        tails.push(g(i + j) as u8);
                    }
                }
                if w & 8 != 0 {
                    non_off = (hdr + tails.len()) as u32;
                    let cnt = ((w >> 4) & 3) as usize + 1;
                    p32(&mut tails, if w & 0x200 != 0 { u32::MAX } else { cnt as u32 });
                    for j in 0..cnt {
                        p24(&mut tails, base.wrapping_add(j as u32) & 0xFF_FFFF);
                        p16(&mut tails, g(i + j + 1));
                    }
                }
                match (w >> 12) & 7 {
                    1 => def_off = u32::MAX,
                    2 => non_off = u32::MAX,
                    3 => def_off = 1,
                    4 => non_off = (hdr + tails.len()) as u32,
                    _ => {}
                }
                p32(&mut recs, def_off);
                p32(&mut recs, non_off);
            }
            p16(&mut v, 14);
            p32(&mut v, declared(hdr + tails.len()));
            p32(&mut v, adj(n));
            v.extend(recs);
            v.extend(tails);
        }
        f => {
            p16(&mut v, f as u16);
            p16(&mut v, 8);
            p32(&mut v, s.a);
        }
    }
    v
}

pub fn cmap_bytes(c: &CmapCase) -> Vec<u8> {
    let n = c.subs.len();
    let mut v = vec![];
    p16(&mut v, 0);
    p16(&mut v, n as u16);
    let hdr = 4 + n * 8;
    let mut bodies: Vec<u8> = vec![];
    let mut offs = vec![];
    for s in &c.subs {
        offs.push((hdr + bodies.len()) as u32);
        let mut b = cmap_sub_bytes(s);
        if b.len() % 2 != 0 {
            b.push(0);
        }
        bodies.extend(b);
    }
    let total = (hdr + bodies.len()) as u32;
    for (s, o) in c.subs.iter().zip(offs.iter()) {
        let (p, e) = CMAP_PLATS[(s.plat as usize) % CMAP_PLATS.len()];
        p16(&mut v, p);
        p16(&mut v, e);
        p32(
            &mut v,
            match s.off_mode % 5 {
                1 => u32::MAX,
                2 => total,
                3 => o.wrapping_add(1),
                4 => 0,
                _ => *o,
            },
        );
    }
    v.extend(bodies);
    v
}

fn cmap_probe_cps(c: &CmapCase) -> Vec<u32> {
    let mut s: BTreeSet<u32> = [0u32, 0x20, 0x41, 0xFFFE, 0xFFFF, 0x1_0000, 0x10_FFFF, 0x11_0000, u32::MAX].into_iter().collect();
    for sub in &c.subs {
        for (a, b, _) in sub.groups.iter().take(8) {
            for x in [a.wrapping_sub(1), *a, a.wrapping_add(1), b.wrapping_sub(1), *b, b.wrapping_add(1), (*a & 0xFFFF), (*b & 0xFFFF)] {
                s.insert(x);
            }
        }
    }
    s.extend(c.cps.iter().copied());
    s.into_iter().take(96).collect()
}

fn obs_cmap(c: &CmapCase, bufs: &[&[u8]], o: &mut Obs) {
    use read_fonts::tables::cmap::{Cmap, Cmap12IterLimits, CmapSubtable, MapVariant};
    let font = if c.via_font { FontRef::new(bufs[0]).ok() } else { None };
    let t = match &font {
        Some(f) => f.cmap(),
        None if c.via_font => {
            o.d.u(99);
            return;
        }
        None => Cmap::read(FontData::new(bufs[0])),
    };
    if !o.root(&t) {
        return;
    }
    let cmap = t.unwrap();
    let cps = cmap_probe_cps(c);
    let fold_mv = |r: Option<MapVariant>| -> u64 {
        match r {
            None => 0,
            Some(MapVariant::UseDefault) => 1,
            Some(MapVariant::Variant(g)) => (g.to_u32() as u64).wrapping_add(2),
        }
    };
    for cp in &cps {
        let r = cmap.map_codepoint(*cp);
        if o.o(&r) {
            o.d.u(r.unwrap().to_u32() as u64);
        }
    }
    for rec in cmap.encoding_records().iter().take(8) {
        let st = rec.subtable(cmap.offset_data());
        if !o.r(&st) {
            continue;
        }
        let st = st.unwrap();
        o.d.u(st.language() as u64);
        match &st {
            CmapSubtable::Format4(t) => {
                let mut n = 0u64;
                let mut k = 0usize;
                for (cp, g) in t.iter().take(IT) {
                    n = n.wrapping_mul(31).wrapping_add(cp as u64 ^ ((g.to_u32() as u64) << 21));
                    k = k.wrapping_add(1);
                }
                o.d.u(n);
                o.d.u(k as u64);
                for cp in &cps {
                    let r = t.map_codepoint(*cp);
                    if o.o(&r) {
                        o.d.u(r.unwrap().to_u32() as u64);
                    }
                }
            }
            CmapSubtable::Format12(t) => {
                for lim in [None, Some(Cmap12IterLimits::default()), Some(Cmap12IterLimits { max_char: c.limits.0, glyph_count: c.limits.1 }), Some(Cmap12IterLimits { max_char: u32::MAX, glyph_count: u32::MAX })] {
                    let mut n = 0u64;
                    let mut k = 0u64;
                    let it = match lim {
                        None => t.iter(),
                        Some(l) => t.iter_with_limits(l),
                    };
                    for (cp, g) in it.take(20_000) {
                        n = n.wrapping_mul(31).wrapping_add(cp as u64 ^ ((g.to_u32() as u64) << 21));
                        k = k.wrapping_add(1);
                    }
                    o.d.u(n);
                    o.d.u(k);
                }
                for cp in &cps {
                    let r = t.map_codepoint(*cp);
                    if o.o(&r) {
                        o.d.u(r.unwrap().to_u32() as u64);
                    }
                }
            }
            CmapSubtable::Format14(t) => {
                let mut n = 0u64;
                for (cp, sel, mv) in t.iter().take(20_000) {
                    n = n.wrapping_mul(31).wrapping_add(cp as u64 ^ ((sel as u64) << 24) ^ fold_mv(Some(mv)).wrapping_shl(40));
                }
                o.d.u(n);
                let sels: Vec<u32> = t.var_selector().iter().take(6).map(|v| u32::from(v.var_selector())).chain([0xFE00, 0xE0100, u32::MAX]).collect();
                for sel in &sels {
                    for cp in cps.iter().take(40) {
                        let r = t.map_variant(*cp, *sel);
                        o.o(&r);
                        o.d.u(fold_mv(r));
                    }
                }
                for vs in t.var_selector().iter().take(8) {
                    if let Some(r) = vs.default_uvs(t.offset_data()) {
                        if o.r(&r) {
                            o.walk(&r.unwrap());
                        }
                    }
                    if let Some(r) = vs.non_default_uvs(t.offset_data()) {
                        if o.r(&r) {
                            o.walk(&r.unwrap());
                        }
                    }
                }
                let mut u = IntSet::<u32>::empty();
                for cp in &cps {
                    u.insert(*cp);
                }
                u.insert_range(0x20..=0x400);
                let mut gs = IntSet::<GlyphId>::empty();
                t.closure_glyphs(&u, &mut gs);
                o.d.u(gs.len());
            }
            other => o.walk(other),
        }
    }
    let mut u = IntSet::<u32>::empty();
    for cp in &cps {
        u.insert(*cp);
    }
    let mut gs = IntSet::<GlyphId>::empty();
    cmap.closure_glyphs(&u, &mut gs);
    o.d.u(gs.len());
    if let Some(font) = &font {
        let cm = skrifa::charmap::Charmap::new(font);
        o.d.u(cm.has_map() as u64);
        o.d.u(cm.is_symbol() as u64);
        o.d.u(cm.has_variant_map() as u64);
        for cp in &cps {
            let r = cm.map(*cp);
            if o.o(&r) {
                o.d.u(r.unwrap().to_u32() as u64);
            }
            o.d.u(fold_mv(cm.map_variant(*cp, 0xFE00u32)));
        }
        let mut n = 0u64;
        for (cp, g) in cm.mappings().take(20_000) {
            n = n.wrapping_mul(31).wrapping_add(cp as u64 ^ ((g.to_u32() as u64) << 21));
        }
        o.d.u(n);
        o.d.count(cm.variant_mappings().take(20_000));
    }
}

fn cmap_strategy() -> impl Strategy<Value = CmapCase> {
    let cp = || {
        prop_oneof![
            4 => 0u32..0x100,
            3 => 0xFF00u32..0x1_0010,
            2 => 0x10_FFF0u32..0x11_0010,
            2 => (0u32..24).prop_map(|k| u32::MAX.wrapping_sub(k)),
            1 => 0xFE00u32..0xFE10,
            1 => 0xE_0100u32..0xE_01F0,
            2 => any::<u32>(),
        ]
    };
    let group = (cp(), prop_oneof![5 => 0u32..40, 1 => Just(u32::MAX), 1 => (1u32..8).prop_map(|k| 0u32.wrapping_sub(k)), 1 => 0x100u32..0x2_0000, 1 => any::<u32>()], prop_oneof![4 => 0u32..64, 2 => 0xFFF0u32..0x1_0010, 2 => (0u32..16).prop_map(|k| u32::MAX.wrapping_sub(k)), 4 => any::<u32>()])
        .prop_map(|(a, len, w)| (a, a.wrapping_add(len), w));
    let sub = (
        prop_oneof![2 => Just(0u8), 2 => Just(2u8), 6 => Just(4u8), 3 => Just(6u8), 1 => Just(8u8), 3 => Just(10u8), 6 => Just(12u8), 4 => Just(13u8), 5 => Just(14u8), 1 => any::<u8>()],
        0u8..8,
        pvec(group, 0..6),
        pvec(prop_oneof![3 => 0u16..32, 1 => h16()], 0..12),
        any::<u32>(),
        prop_oneof![6 => Just(0u8), 1 => Just(1u8), 3 => any::<u8>()],
        prop_oneof![8 => Just(0u8), 1 => 1u8..4],
        prop_oneof![12 => Just(0u8), 1 => 1u8..5],
    )
        .prop_map(|(format, plat, groups, glyphs, a, mode, len_mode, off_mode)| CmapSub { format, plat, groups, glyphs, a, mode, len_mode, off_mode });
    (pvec(sub, 1..4), prop_oneof![0u16..64, h16()], pvec(cp(), 0..4), (prop_oneof![Just(0x10_FFFFu32), h32()], h32()), any::<bool>()).prop_map(|(subs, num_glyphs, cps, limits, via_font)| CmapCase { subs, num_glyphs, cps, limits, via_font })
}

// ---------------------------------------------------------------------------------------------
// (3b) AAT lookups and state tables

pub const AAT_KINDS: [&str; 8] = ["lookup0", "lookup2", "lookup4", "lookup6", "lookup8", "lookup10", "state_table", "extended_state_table"];

#[derive(Clone, Debug, Serialize, Deserialize)]
pub struct AatCase {
    pub kind: u8,
    /// value width written into the table: 2 or 4
    pub vsize: u8,
    /// unit size: 0 matching, 1 zero, 2 matching+1, 3 0xFFFF, 4 raw
    pub unit_mode: u8,
    pub unit_raw: u16,
    /// (last, first, value / offset word)
    pub segs: Vec<(u16, u16, u32)>,
    pub values: Vec<u16>,
    pub first: u16,
    /// declared count: 0 exact, 1 +1, 2 -1, 3 0xFFFF
    pub count_mode: u8,
    pub n_classes: u32,
    /// state tables: which header offset is hostile (0 none) and its value
    pub bad_off: u8,
    pub bad_val: u32,
    pub probes: Vec<u16>,
}

fn aat_lookup_bytes(kind: u8, a: &AatCase) -> Vec<u8> {
    let mut v = vec![];
    let vs = if a.vsize == 4 { 4usize } else { 2 };
    let putv = |v: &mut Vec<u8>, x: u32| {
        if vs == 4 {
            p32(v, x)
        } else {
            p16(v, x as u16)
        }
    };
    let unit = |exact: usize| -> u16 {
        match a.unit_mode % 5 {
            1 => 0,
            2 => (exact as u16).wrapping_add(1),
            3 => 0xFFFF,
            4 => a.unit_raw,
            _ => exact as u16,
        }
    };
    let count = |n: usize| -> u16 {
        match a.count_mode % 4 {
            1 => (n as u16).wrapping_add(1),
            2 => (n as u16).wrapping_sub(1),
            3 => 0xFFFF,
            _ => n as u16,
        }
    };
    let mut segs = a.segs.clone();
    if a.unit_raw & 1 == 0 {
        segs.sort_by_key(|s| s.1);
    }
    let bsh = |v: &mut Vec<u8>, unit_size: u16, n: u16| {
        p16(v, unit_size);
        p16(v, n);
        p16(v, 0);
        p16(v, 0);
        p16(v, 0);
    };
    match kind % 6 {
        0 => {
            p16(&mut v, 0);
            for x in &a.values {
                putv(&mut v, *x as u32);
            }
            if a.count_mode % 4 == 1 {
                v.push(0);
            }
        }
        1 => {
            p16(&mut v, 2);
            bsh(&mut v, unit(4 + vs), count(segs.len()));
            for (l, f, w) in &segs {
                p16(&mut v, *l);
                p16(&mut v, *f);
                putv(&mut v, *w);
            }
        }
        2 => {
            p16(&mut v, 4);
            bsh(&mut v, unit(6), count(segs.len()));
            let base = 12 + segs.len() * 6;
            for (i, (l, f, w)) in segs.iter().enumerate() {
                p16(&mut v, *l);
                p16(&mut v, *f);
                // value offset: into the value area, or hostile
                let off = match w >> 30 {
                    0 | 1 => (base + i * 2) as u16,
                    2 => (*w & 0xFFFF) as u16,
                    _ => 0xFFFF,
                };
                p16(&mut v, off);
            }
            for x in &a.values {
                putv(&mut v, *x as u32);
            }
        }
        3 => {
            p16(&mut v, 6);
            bsh(&mut v, unit(2 + vs), count(segs.len()));
            for (_, f, w) in &segs {
                p16(&mut v, *f);
                putv(&mut v, *w);
            }
        }
        4 => {
            p16(&mut v, 8);
            p16(&mut v, a.first);
            p16(&mut v, count(a.values.len()));
            for x in &a.values {
                p16(&mut v, *x);
            }
        }
        _ => {
            p16(&mut v, 10);
            let us = match a.unit_mode % 5 {
                0 => vs as u16,
                1 => 1,
                2 => 8,
                3 => 0xFFFF,
                _ => a.unit_raw,
            };
            p16(&mut v, us);
            p16(&mut v, a.first);
            p16(&mut v, count(a.values.len()));
            for x in &a.values {
                putv(&mut v, *x as u32);
            }
        }
    }
    v
}

pub fn aat_bytes(a: &AatCase) -> Vec<u8> {
    let kind = a.kind % 8;
    if kind < 6 {
        return aat_lookup_bytes(kind, a);
    }
    let nclass = (a.n_classes % 9) as usize;
    let nstates = (a.segs.len() + 1).min(6);
    let val = |i: usize| -> u16 { if a.values.is_empty() { 0 } else { a.values[i % a.values.len()] } };
    let nentries = 4usize;
    let mut v = vec![];
    if kind == 6 {
        // StateHeader: state_size, class_table, state_array, entry_table (offset16)
        let class_off = 8usize;
        let ncls_glyphs = a.values.len().min(16);
        let state_off = class_off + 4 + ncls_glyphs + (ncls_glyphs & 1);
        let entry_off = state_off + nstates * nclass + ((nstates * nclass) & 1);
        let mut offs = [class_off as u32, state_off as u32, entry_off as u32];
        if a.bad_off % 4 != 0 {
            offs[(a.bad_off % 4) as usize - 1] = a.bad_val;
        }
        p16(&mut v, if a.count_mode % 4 == 3 { a.n_classes as u16 } else { nclass as u16 });
        for o in offs {
            p16(&mut v, o as u16);
        }
        p16(&mut v, a.first);
        p16(&mut v, ncls_glyphs as u16);
        for i in 0..ncls_glyphs {
            v.push(val(i) as u8);
        }
        if ncls_glyphs & 1 == 1 {
            v.push(0);
        }
        for i in 0..nstates * nclass {
            v.push((val(i + 3) % 6) as u8);
        }
        if (nstates * nclass) & 1 == 1 {
            v.push(0);
        }
        for i in 0..nentries {
            // newState is a byte offset into the state array (legacy tables)
            let w = a.segs.get(i % a.segs.len().max(1)).map(|s| s.2).unwrap_or(0);
            let ns = match w >> 30 {
                0 | 1 => (state_off + (i % nstates) * nclass) as u16,
                2 => w as u16,
                _ => 0,
            };
            p16(&mut v, ns);
            p16(&mut v, (w >> 8) as u16);
        }
    } else {
        // StxHeader: n_classes u32, class_table, state_array, entry_table (offset32); class table = lookup
        let lookup = aat_lookup_bytes((a.unit_raw % 6) as u8, a);
        let class_off = 16usize;
        let state_off = class_off + lookup.len() + (lookup.len() & 1);
        let entry_off = state_off + nstates * nclass * 2;
        let mut offs = [class_off as u32, state_off as u32, entry_off as u32];
        if a.bad_off % 4 != 0 {
            offs[(a.bad_off % 4) as usize - 1] = a.bad_val;
        }
        p32(&mut v, if a.count_mode % 4 == 3 { a.n_classes } else { nclass as u32 });
        for o in offs {
            p32(&mut v, o);
        }
        v.extend_from_slice(&lookup);
        if lookup.len() & 1 == 1 {
            v.push(0);
        }
        for i in 0..nstates * nclass {
            p16(&mut v, val(i + 3) % 6);
        }
        for i in 0..nentries {
            p16(&mut v, val(i) % 8);
            p16(&mut v, val(i + 1));
            p16(&mut v, val(i + 2));
        }
    }
    v
}

fn aat_probes(a: &AatCase) -> Vec<u16> {
    let mut s: BTreeSet<u16> = [0u16, 1, 2, 0xFFFE, 0xFFFF].into_iter().collect();
    for (l, f, _) in a.segs.iter().take(8) {
        for x in [f.wrapping_sub(1), *f, f.wrapping_add(1), l.wrapping_sub(1), *l, l.wrapping_add(1)] {
            s.insert(x);
        }
    }
    let n = a.values.len() as u16;
    for x in [a.first.wrapping_sub(1), a.first, a.first.wrapping_add(n).wrapping_sub(1), a.first.wrapping_add(n), a.first.wrapping_add(n).wrapping_add(1), n, n.wrapping_sub(1)] {
        s.insert(x);
    }
    s.extend(a.probes.iter().copied());
    s.into_iter().take(64).collect()
}

fn obs_aat(a: &AatCase, bufs: &[&[u8]], o: &mut Obs) {
    use read_fonts::tables::aat::{ExtendedStateTable, ExtendedStateTableU16, Lookup, NoPayload, StateTable};
    let fd = FontData::new(bufs[0]);
    let probes = aat_probes(a);
    let kind = a.kind % 8;
    if kind < 6 {
        let t = Lookup::read(fd);
        if !o.root(&t) {
            return;
        }
        let t = t.unwrap();
        o.walk(&t);
        for g in &probes {
            let r = t.value::<u16>(*g);
            if o.r(&r) {
                o.d.u(r.unwrap() as u64);
            }
            let r = t.value::<u32>(*g);
            if o.r(&r) {
                o.d.u(r.unwrap() as u64);
            }
            let r = t.value::<GlyphId16>(*g);
            if o.r(&r) {
                o.d.u(r.unwrap().to_u16() as u64);
            }
        }
        for ty in 0..3 {
            use read_fonts::tables::aat::{LookupGlyphId, LookupU16, LookupU32};
            match ty {
                0 => {
                    if let Ok(l) = LookupU16::read(fd) {
                        o.d.ok(&l.value(probes[probes.len() / 2]));
                    }
                }
                1 => {
                    if let Ok(l) = LookupU32::read(fd) {
                        o.d.ok(&l.value(probes[probes.len() / 2]));
                    }
                }
                _ => {
                    if let Ok(l) = LookupGlyphId::read(fd) {
                        o.d.ok(&l.value(probes[probes.len() / 2]));
                    }
                }
            }
        }
    } else if kind == 6 {
        let t = StateTable::read(fd);
        if !o.root(&t) {
            return;
        }
        let t = t.unwrap();
        o.walk(&t);
        for g in &probes {
            let r = t.class(GlyphId16::new(*g));
            if o.r(&r) {
                o.d.u(r.unwrap() as u64);
            }
        }
        for state in (0u16..8).chain([0x7FFF, 0xFFFF]) {
            for class in (0u8..10).chain([255]) {
                let r = t.entry(state, class);
                if o.r(&r) {
                    let e = r.unwrap();
                    o.d.u(e.new_state as u64);
                    o.d.u(e.flags as u64);
                }
            }
        }
    } else {
        // payload read through an alignment-1 type; the crate's own `ExtendedStateTableU16` alias used a native `u16`
        // payload and panicked in bytemuck whenever the entry did not sit on an even address (found by this stage,
        // repaired in /repo: 2208e2d); it is exercised on every case now
        let t = ExtendedStateTable::<read_fonts::types::BigEndian<u16>>::read(fd);
        if !o.root(&t) {
            return;
        }
        let t = t.unwrap();
        o.walk(&t);
        let t2 = ExtendedStateTable::<NoPayload>::read(fd);
        {
            if let Ok(t3) = ExtendedStateTableU16::read(fd) {
                for state in 0u16..4 {
                    for class in 0u16..6 {
                        let r = t3.entry(state, class);
                        if o.d.ok(&r) {
                            o.d.u(r.unwrap().payload.get() as u64);
                        }
                    }
                }
            }
        }
        for g in &probes {
            let r = t.class(GlyphId16::new(*g));
            if o.r(&r) {
                o.d.u(r.unwrap() as u64);
            }
        }
        for state in (0u16..8).chain([0x7FFF, 0xFFFF]) {
            for class in (0u16..10).chain([255, 0xFFFF]) {
                let r = t.entry(state, class);
                if o.r(&r) {
                    let e = r.unwrap();
                    o.d.u(e.new_state as u64);
                    o.d.u(e.flags as u64);
                    o.d.u(e.payload.get() as u64);
                }
                if let Ok(t2) = &t2 {
                    let r = t2.entry(state, class);
                    if o.r(&r) {
                        o.d.u(r.unwrap().new_state as u64);
                    }
                }
            }
        }
    }
}

fn aat_strategy() -> impl Strategy<Value = AatCase> {
    let seg = (prop_oneof![4 => 0u16..40, 2 => h16()], prop_oneof![6 => 0u16..8, 1 => Just(0xFFFFu16), 1 => any::<u16>()], any::<u32>()).prop_map(|(f, len, w)| (f.wrapping_add(len), f, w));
    (
        (0u8..8, prop_oneof![Just(2u8), Just(4u8)], prop_oneof![6 => Just(0u8), 1 => 1u8..5], h16()),
        pvec(seg, 0..6),
        pvec(prop_oneof![3 => 0u16..16, 1 => h16()], 0..12),
        prop_oneof![3 => 0u16..40, 1 => h16()],
        prop_oneof![6 => Just(0u8), 1 => 1u8..4],
        prop_oneof![4 => 0u32..9, 1 => h32()],
        prop_oneof![4 => Just(0u8), 1 => 1u8..4],
        h32(),
        pvec(h16(), 0..4),
    )
        .prop_map(|((kind, vsize, unit_mode, unit_raw), segs, values, first, count_mode, n_classes, bad_off, bad_val, probes)| AatCase { kind, vsize, unit_mode, unit_raw, segs, values, first, count_mode, n_classes, bad_off, bad_val, probes })
}

// ---------------------------------------------------------------------------------------------
// (3c) post v2, hdmx, VORG, FDSelect, MVAR, STAT

pub const MISC_KINDS: [&str; 8] = ["post_v2", "hdmx", "VORG", "FDSelect0", "FDSelect3", "FDSelect4", "MVAR", "STAT"];

#[derive(Clone, Debug, Serialize, Deserialize)]
pub struct MiscCase {
    pub kind: u8,
    pub n: u16,
    /// declared count: 0 exact, 1 +1, 2 -1, 3 raw
    pub count_mode: u8,
    pub raw: u32,
    /// record size word (hdmx sizeDeviceRecord, MVAR valueRecordSize, STAT designAxisSize): 0 natural, else `raw2`
    pub size_mode: u8,
    pub raw2: u32,
    pub words: Vec<u16>,
    pub recs: Vec<(u32, u16)>,
    pub bytes: Vec<u8>,
    pub sorted: bool,
    pub probes: Vec<u32>,
}
impl MiscCase {
    fn count(&self, n: usize) -> u32 {
        match self.count_mode % 4 {
            1 => (n as u32).wrapping_add(1),
            2 => (n as u32).wrapping_sub(1),
            3 => self.raw,
            _ => n as u32,
        }
    }
    fn glyph_arg(&self) -> u16 {
        match self.count_mode % 4 {
            0 | 3 => self.n,
            1 => self.n.wrapping_add(1),
            _ => self.n.wrapping_sub(1),
        }
    }
}

pub fn misc_bytes(m: &MiscCase) -> Vec<u8> {
    let mut v = vec![];
    let mut recs = m.recs.clone();
    if m.sorted {
        recs.sort();
    }
    match m.kind % 8 {
        0 => {
            // post 2.0: header, numGlyphs, glyphNameIndex[], Pascal strings
            p32(&mut v, 0x0002_0000);
            v.extend_from_slice(&[0u8; 28]);
            p16(&mut v, m.count(m.words.len()) as u16);
            for w in &m.words {
                p16(&mut v, *w);
            }
            v.extend_from_slice(&m.bytes);
        }
        1 => {
            // hdmx: version, numRecords, sizeDeviceRecord, records
            let n = m.n.min(40) as usize;
            let natural = (n + 2 + 3) & !3;
            let size = if m.size_mode % 3 == 0 { natural as u32 } else { m.raw2 };
            p16(&mut v, 0);
            p16(&mut v, m.count(recs.len()) as u16);
            p32(&mut v, size);
            for (i, (a, b)) in recs.iter().enumerate() {
                let mut r = vec![*a as u8, *b as u8];
                for j in 0..n {
                    r.push(m.bytes.get((i.wrapping_mul(7).wrapping_add(j)) % m.bytes.len().max(1)).copied().unwrap_or(0));
                }
                r.resize(if m.size_mode % 3 == 2 { (size as usize).min(64) } else { natural }, 0);
                v.extend(r);
            }
        }
        2 => {
            p16(&mut v, 1);
            p16(&mut v, 0);
            p16(&mut v, m.raw as u16);
            p16(&mut v, m.count(recs.len()) as u16);
            for (g, y) in &recs {
                p16(&mut v, *g as u16);
                p16(&mut v, *y);
            }
        }
        3 => {
            v.push(0);
            v.extend_from_slice(&m.bytes);
        }
        4 => {
            v.push(3);
            p16(&mut v, m.count(recs.len()) as u16);
            for (g, fd) in &recs {
                p16(&mut v, *g as u16);
                v.push(*fd as u8);
            }
            p16(&mut v, m.raw2 as u16);
        }
        5 => {
            v.push(4);
            p32(&mut v, m.count(recs.len()));
            for (g, fd) in &recs {
                p32(&mut v, *g);
                p16(&mut v, *fd);
            }
            p32(&mut v, m.raw2);
        }
        6 => {
            // MVAR with a one-region, one-item variation store
            let nrec = recs.len();
            let rec_size = if m.size_mode % 3 == 0 { 8u16 } else { m.raw2 as u16 };
            let ivs_off = 12 + nrec * 8;
            p16(&mut v, 1);
            p16(&mut v, 0);
            p16(&mut v, 0);
            p16(&mut v, rec_size);
            p16(&mut v, m.count(nrec) as u16);
            p16(&mut v, if m.size_mode & 4 != 0 { m.raw as u16 } else { ivs_off as u16 });
            let tags: [&[u8; 4]; 6] = [b"hasc", b"hdsc", b"undo", b"unds", b"xhgt", b"zzzz"];
            for (i, (a, b)) in recs.iter().enumerate() {
                v.extend_from_slice(tags[i % 6]);
                p16(&mut v, *a as u16);
                p16(&mut v, *b);
            }
            // ItemVariationStore
            p16(&mut v, 1);
            p32(&mut v, 12);
            p16(&mut v, 1);
            p32(&mut v, 12 + 4 + 6);
            p16(&mut v, 1); // axisCount
            p16(&mut v, 1); // regionCount
            p16(&mut v, 0);
            p16(&mut v, 0x4000);
            p16(&mut v, 0x4000);
            let items = m.words.len().min(6);
            p16(&mut v, m.count(items) as u16);
            p16(&mut v, (m.raw2 >> 16) as u16 & 0x8003);
            p16(&mut v, 1);
            p16(&mut v, (m.raw >> 16) as u16 & 1);
            for w in m.words.iter().take(items) {
                p16(&mut v, *w);
            }
        }
        _ => {
            // STAT 1.2
            let naxes = recs.len().min(4);
            let axis_size = if m.size_mode % 3 == 0 { 8u16 } else { m.raw2 as u16 };
            let axes_off = 20usize;
            let vals_off = axes_off + naxes * 8;
            let nvals = m.words.len().min(6);
            p16(&mut v, 1);
            p16(&mut v, if m.size_mode & 4 != 0 { 0 } else { 2 });
            p16(&mut v, axis_size);
            p16(&mut v, m.count(naxes) as u16);
            p32(&mut v, if m.size_mode & 8 != 0 { m.raw } else { axes_off as u32 });
            p16(&mut v, if m.count_mode % 4 == 3 { (m.raw >> 8) as u16 } else { nvals as u16 });
            p32(&mut v, if m.size_mode & 16 != 0 { m.raw } else { vals_off as u32 });
            p16(&mut v, 2);
            for (i, (a, b)) in recs.iter().take(naxes).enumerate() {
                v.extend_from_slice(if i == 0 { b"wght" } else { b"wdth" });
                p16(&mut v, *a as u16);
                p16(&mut v, *b);
            }
            let mut tails = vec![];
            for (i, w) in m.words.iter().take(nvals).enumerate() {
                let fmt = (w % 6) as u16; // 0 and 5: unknown formats
                let exact = nvals * 2 + tails.len();
                p16(&mut v, if w & 0x8000 != 0 { *w } else { exact as u16 });
                p16(&mut tails, fmt);
                p16(&mut tails, if fmt == 4 { (w >> 4) & 7 } else { i as u16 });
                p16(&mut tails, 0);
                p16(&mut tails, 256 + i as u16);
                let words = match fmt {
                    2 => 3,
                    3 => 2,
                    4 => ((w >> 4) & 3) as usize * 2,
                    _ => 1,
                };
                for k in 0..words {
                    p32(&mut tails, m.raw.wrapping_mul(k as u32 + 1));
                }
            }
            v.extend(tails);
        }
    }
    v
}

fn obs_misc(m: &MiscCase, bufs: &[&[u8]], o: &mut Obs) {
    let fd = FontData::new(bufs[0]);
    let mut gids: BTreeSet<u32> = [0u32, 1, 2, 0xFFFE, 0xFFFF, 0x1_0000, u32::MAX].into_iter().collect();
    for (g, _) in m.recs.iter().take(12) {
        for x in [g.wrapping_sub(1), *g, g.wrapping_add(1)] {
            gids.insert(x);
        }
    }
    gids.extend(m.probes.iter().copied());
    let n = m.words.len() as u32;
    gids.extend([n.wrapping_sub(1), n, n.wrapping_add(1), m.n as u32, m.raw2]);
    let gids: Vec<u32> = gids.into_iter().take(64).collect();
    match m.kind % 8 {
        0 => {
            let t = read_fonts::tables::post::Post::read(fd);
            if !o.root(&t) {
                return;
            }
            let t = t.unwrap();
            o.walk(&t);
            o.d.u(t.num_names() as u64);
            for g in &gids {
                let r = t.glyph_name(GlyphId16::new(*g as u16));
                if o.o(&r) {
                    o.d.bytes(r.unwrap().as_bytes());
                }
            }
            if let Some(sd) = t.string_data() {
                for s in sd.iter().take(300) {
                    if o.d.ok(&s) {
                        o.d.bytes(s.unwrap().as_str().as_bytes());
                    }
                }
                for i in [0usize, 1, 2, 255, usize::MAX] {
                    o.d.some(&sd.get(i));
                }
            }
        }
        1 => {
            let t = read_fonts::tables::hdmx::Hdmx::read(fd, m.glyph_arg());
            if !o.root(&t) {
                return;
            }
            let t = t.unwrap();
            o.walk(&t);
            o.d.u(t.records().len() as u64);
            for s in (0u8..12).chain(m.recs.iter().take(8).map(|r| r.0 as u8)).chain([127, 128, 255]) {
                let r = t.record_for_size(s);
                if o.o(&r) {
                    let r = r.unwrap();
                    o.d.u(r.pixel_size() as u64);
                    o.d.u(r.max_width() as u64);
                    o.d.bytes(r.widths());
                }
            }
            for r in t.records().iter().take(64) {
                if o.r(&r) {
                    o.d.bytes(r.unwrap().widths());
                }
            }
            for i in [0usize, 1, 63, usize::MAX] {
                o.d.ok(&t.records().get(i));
            }
        }
        2 => {
            let t = read_fonts::tables::vorg::Vorg::read(fd);
            if !o.root(&t) {
                return;
            }
            let t = t.unwrap();
            o.walk(&t);
            let dflt = t.default_vert_origin_y();
            for g in &gids {
                let y = t.vertical_origin_y(GlyphId::new(*g));
                o.d.i(y as i64);
                // a listed glyph vs. the default: the two outcomes of this helper
                if y != dflt {
                    o.ok = o.ok.wrapping_add(1);
                } else {
                    o.err = o.err.wrapping_add(1);
                }
            }
        }
        3 | 4 | 5 => {
            let t = read_fonts::tables::postscript::FdSelect::read(fd);
            if !o.root(&t) {
                return;
            }
            let t = t.unwrap();
            o.walk(&t);
            for g in &gids {
                let r = t.font_index(GlyphId::new(*g));
                if o.o(&r) {
                    o.d.u(r.unwrap() as u64);
                }
            }
        }
        6 => {
            let t = read_fonts::tables::mvar::Mvar::read(fd);
            if !o.root(&t) {
                return;
            }
            let t = t.unwrap();
            o.walk(&t);
            let coords: Vec<F2Dot14> = m.probes.iter().take(3).map(|p| F2Dot14::from_bits(*p as i16)).collect();
            for tag in [b"hasc", b"hdsc", b"undo", b"unds", b"xhgt", b"zzzz", b"aaaa"] {
                for cs in [&coords[..], &[F2Dot14::ONE][..], &[][..]] {
                    let r = t.metric_delta(Tag::new(tag), cs);
                    if o.r(&r) {
                        o.d.i(r.unwrap().to_bits() as i64);
                    }
                }
            }
        }
        _ => {
            let t = read_fonts::tables::stat::Stat::read(fd);
            if !o.root(&t) {
                return;
            }
            let t = t.unwrap();
            o.walk(&t);
            let axes = t.design_axes();
            if o.r(&axes) {
                for a in axes.unwrap().iter().take(16) {
                    o.d.u(u32::from_be_bytes(a.axis_tag().to_be_bytes()) as u64);
                    o.d.u(a.axis_ordering() as u64);
                }
            }
            if let Some(av) = t.offset_to_axis_values() {
                if o.r(&av) {
                    let av = av.unwrap();
                    for v in av.axis_values().iter().take(32) {
                        if o.r(&v) {
                            let v = v.unwrap();
                            o.d.some(&v.value());
                            o.d.some(&v.linked_value());
                            o.d.some(&v.axis_index());
                            o.walk(&v);
                        }
                    }
                }
            }
            for k in [0u16, 1, m.n, 0xFFFF] {
                if let Some(data) = fd.split_off(20) {
                    let r = read_fonts::tables::stat::AxisValueArray::read(data, k);
                    if o.d.ok(&r) {
                        for v in r.unwrap().axis_values().iter().take(16) {
                            o.d.ok(&v);
                        }
                    }
                }
            }
        }
    }
}

fn misc_strategy() -> impl Strategy<Value = MiscCase> {
    let rec = (prop_oneof![5 => 0u32..40, 1 => 0xFFF0u32..0x1_0010, 1 => h32()], prop_oneof![3 => 0u16..8, 1 => h16()]);
    // post: name indices around the 258 standard names and the number of strings
    let word = prop_oneof![3 => 0u16..12, 4 => 250u16..275, 1 => h16()];
    // Pascal strings with honest and dishonest length bytes
    let pbytes = pvec(prop_oneof![4 => 0u8..4, 4 => 0x41u8..0x5B, 1 => Just(0xFFu8), 1 => any::<u8>()], 0..48);
    (
        (0u8..8, prop_oneof![4 => 0u16..12, 1 => h16()], prop_oneof![5 => Just(0u8), 1 => 1u8..4], h32()),
        prop_oneof![3 => Just(0u8), 2 => any::<u8>()],
        prop_oneof![3 => 0u32..20, 1 => h32()],
        pvec(word, 0..10),
        pvec(rec, 0..7),
        pbytes,
        prop_oneof![3 => Just(true), 1 => Just(false)],
        pvec(h32(), 0..4),
    )
        .prop_map(|((kind, n, count_mode, raw), size_mode, raw2, words, recs, bytes, sorted, probes)| MiscCase { kind, n, count_mode, raw, size_mode, raw2, words, recs, bytes, sorted, probes })
}

// ---------------------------------------------------------------------------------------------
// layout Device / VariationIndex tables: correlated (start_size, end_size, delta_format) and word counts

pub const DEVICE_WRAPS: [&str; 5] = ["bare", "anchor3", "caret3", "basecoord3", "valuerecord"];

#[derive(Clone, Debug, Serialize, Deserialize)]
pub struct DeviceCase {
    pub start: u16,
    /// end_size: 0 start + k, 1 start, 2 start - k, 3 0xFFFF, 4 `end_raw`
    pub rel: u8,
    pub k: u16,
    pub end_raw: u16,
    /// 1, 2, 3, 0x8000 or a reserved value
    pub format: u16,
    pub words: Vec<u16>,
    /// words written = true count for the range (unsaturated arithmetic) + word_adj
    pub word_adj: i8,
    pub wrap: u8,
    /// second device of the wrappers that carry two (shares the fields, other format)
    pub format2: u16,
}
impl DeviceCase {
    pub fn sizes(&self) -> (u16, u16) {
        let end = match self.rel % 5 {
            0 => self.start.wrapping_add(self.k),
            1 => self.start,
            2 => self.start.wrapping_sub(self.k),
            3 => 0xFFFF,
            _ => self.end_raw,
        };
        (self.start, end)
    }
    fn one(&self, format: u16) -> Vec<u8> {
        let (st, en) = self.sizes();
        let per_word: u32 = match format {
            1 => 8,
            2 => 4,
            3 => 2,
            _ => 0,
        };
        let range = (en as u32).wrapping_add(1).saturating_sub(st as u32);
        let true_words: i64 = if per_word == 0 { if format == 0x8000 { 0 } else { (self.k % 4) as i64 } } else { range.div_ceil(per_word) as i64 };
        let n = true_words.saturating_add(self.word_adj as i64).clamp(0, 40_000) as usize;
        let mut v = vec![];
        p16(&mut v, st);
        p16(&mut v, en);
        p16(&mut v, format);
        for i in 0..n {
            p16(&mut v, if self.words.is_empty() { 0 } else { self.words[i % self.words.len()] });
        }
        v
    }
}
pub fn device_bytes(d: &DeviceCase) -> Vec<u8> {
    let dev = d.one(d.format);
    let mut v = vec![];
    match d.wrap % 5 {
        0 => v = dev,
        1 => {
            // AnchorFormat3: format, x, y, xDeviceOffset, yDeviceOffset
            let dev2 = d.one(d.format2);
            p16(&mut v, 3);
            p16(&mut v, d.k);
            p16(&mut v, d.end_raw);
            p16(&mut v, 10);
            p16(&mut v, (10usize.wrapping_add(dev.len())).min(0xFFFF) as u16);
            v.extend(dev);
            v.extend(dev2);
        }
        2 | 3 => {
            // CaretValueFormat3 / BaseCoordFormat3: format, coordinate, deviceOffset
            p16(&mut v, 3);
            p16(&mut v, d.k);
            p16(&mut v, 6);
            v.extend(dev);
        }
        _ => {
            // ValueRecord with all four device offsets (value format 0x00F0), offsets from the start of the data
            let dev2 = d.one(d.format2);
            p16(&mut v, 8);
            p16(&mut v, (8usize.wrapping_add(dev.len())).min(0xFFFF) as u16);
            p16(&mut v, 8);
            p16(&mut v, 0);
            v.extend(dev);
            v.extend(dev2);
        }
    }
    v
}
fn obs_dev_or_var(r: Result<read_fonts::tables::layout::DeviceOrVariationIndex, ReadError>, o: &mut Obs) {
    use read_fonts::tables::layout::DeviceOrVariationIndex;
    if !o.r(&r) {
        return;
    }
    match r.unwrap() {
        DeviceOrVariationIndex::Device(dev) => obs_dev(&dev, o),
        DeviceOrVariationIndex::VariationIndex(v) => {
            o.d.u(v.delta_set_outer_index() as u64);
            o.d.u(v.delta_set_inner_index() as u64);
            o.d.u(v.delta_format() as u64);
        }
    }
}
fn obs_dev(dev: &read_fonts::tables::layout::Device, o: &mut Obs) {
    o.d.u(dev.start_size() as u64);
    o.d.u(dev.end_size() as u64);
    o.d.u(dev.delta_format() as u64);
    o.d.u(dev.delta_value().len() as u64);
    let mut acc = 0u64;
    let mut n = 0u64;
    for x in dev.iter().take(IT) {
        acc = acc.wrapping_mul(31).wrapping_add(x as u8 as u64);
        n = n.wrapping_add(1);
    }
    o.d.u(acc);
    o.d.u(n);
    o.walk(dev);
}
fn obs_device(d: &DeviceCase, bufs: &[&[u8]], o: &mut Obs) {
    use read_fonts::tables::layout::{Device, DeviceOrVariationIndex};
    use read_fonts::tables::{base::BaseCoord, gdef::CaretValue, gpos::{AnchorTable, ValueFormat, ValueRecord}};
    let fd = FontData::new(bufs[0]);
    match d.wrap % 5 {
        0 => {
            let r = Device::read(fd);
            if o.root(&r) {
                obs_dev(&r.unwrap(), o);
            }
            obs_dev_or_var(DeviceOrVariationIndex::read(fd), o);
            // the same table a few bytes short
            for cut in [1usize, 2, 3] {
                if let Some(short) = fd.slice(..bufs[0].len().saturating_sub(cut)) {
                    obs_dev_or_var(DeviceOrVariationIndex::read(short), o);
                }
            }
        }
        1 => {
            let r = AnchorTable::read(fd);
            if !o.root(&r) {
                return;
            }
            let a = r.unwrap();
            o.walk(&a);
            if let AnchorTable::Format3(a) = a {
                for dv in [a.x_device(), a.y_device()].into_iter().flatten() {
                    obs_dev_or_var(dv, o);
                }
            }
        }
        2 => {
            let r = CaretValue::read(fd);
            if !o.root(&r) {
                return;
            }
            let c = r.unwrap();
            o.walk(&c);
            if let CaretValue::Format3(c) = c {
                obs_dev_or_var(c.device(), o);
            }
        }
        3 => {
            let r = BaseCoord::read(fd);
            if !o.root(&r) {
                return;
            }
            let c = r.unwrap();
            o.walk(&c);
            if let BaseCoord::Format3(c) = c {
                if let Some(dv) = c.device() {
                    obs_dev_or_var(dv, o);
                }
            }
        }
        _ => {
            for bits in [0x00F0u16, 0x0030, 0x00FF] {
                let r = ValueRecord::read(fd, ValueFormat::from_bits_truncate(bits));
                if !o.root(&r) {
                    continue;
                }
                let vr = r.unwrap();
                for dv in [vr.x_placement_device(fd), vr.y_placement_device(fd), vr.x_advance_device(fd), vr.y_advance_device(fd)].into_iter().flatten() {
                    obs_dev_or_var(dv, o);
                }
            }
        }
    }
}
fn device_strategy() -> impl Strategy<Value = DeviceCase> {
    let size = || prop_oneof![2 => Just(0u16), 2 => Just(1u16), 3 => 2u16..48, 2 => Just(0x7FFFu16), 2 => Just(0xFFFEu16), 2 => Just(0xFFFFu16), 3 => (0u16..40).prop_map(|k| 0xFFFFu16.wrapping_sub(k)), 1 => any::<u16>()];
    let fmt = || prop_oneof![3 => Just(1u16), 3 => Just(2u16), 3 => Just(3u16), 2 => Just(0x8000u16), 1 => prop_oneof![Just(0u16), Just(4u16), Just(0x7FFFu16), Just(0x8001u16), Just(0xFFFFu16), any::<u16>()]];
    (
        size(),
        prop_oneof![4 => Just(0u8), 1 => Just(1u8), 1 => Just(2u8), 3 => Just(3u8), 2 => Just(4u8)],
        prop_oneof![6 => 0u16..40, 1 => 40u16..600, 1 => any::<u16>()],
        size(),
        fmt(),
        pvec(prop_oneof![Just(0u16), Just(0x5555u16), Just(0xFFFFu16), Just(0x8000u16), Just(0x807Fu16), any::<u16>()], 0..4),
        prop_oneof![5 => Just(0i8), 2 => Just(-1i8), 1 => Just(-2i8), 2 => Just(1i8), 1 => any::<i8>()],
        0u8..5,
        fmt(),
    )
        .prop_map(|(start, rel, k, end_raw, format, words, word_adj, wrap, format2)| DeviceCase { start, rel, k, end_raw, format, words, word_adj, wrap, format2 })
}

// ---------------------------------------------------------------------------------------------
// CFF charsets: predefined tables and custom formats 0/1/2, glyph counts around every table length

pub const CHARSET_KINDS: [&str; 6] = ["ISOAdobe", "Expert", "ExpertSubset", "format0", "format1", "format2"];
/// lengths of the predefined tables (gid -> sid entries)
pub const CHARSET_PREDEF_LEN: [u32; 3] = [229, 166, 87];

#[derive(Clone, Debug, Serialize, Deserialize)]
pub struct CharsetCase {
    pub kind: u8,
    /// (first sid, n_left) ranges for formats 1/2, sids for format 0
    pub ranges: Vec<(u16, u16)>,
    /// glyph count relative to the number of glyphs the charset covers: covered + delta (or raw)
    pub delta: i8,
    /// 0 relative, 1 one, 2 two, 3 65535, 4 raw
    pub n_mode: u8,
    pub n_raw: u32,
    /// custom charsets: 0 exact offset, 1 offset beyond the data, 2 last byte cut, 3 unknown format byte
    pub bad: u8,
    pub probes: Vec<u32>,
}
impl CharsetCase {
    fn covered(&self) -> u32 {
        match self.kind % 6 {
            k @ 0..=2 => CHARSET_PREDEF_LEN[k as usize],
            3 => (self.ranges.len() as u32).wrapping_add(1),
            4 => self.ranges.iter().fold(1u32, |a, r| a.wrapping_add((r.1 & 0xFF) as u32).wrapping_add(1)),
            _ => self.ranges.iter().fold(1u32, |a, r| a.wrapping_add(r.1 as u32).wrapping_add(1)),
        }
    }
    fn num_glyphs(&self) -> u32 {
        match self.n_mode % 5 {
            1 => 1,
            2 => 2,
            3 => 65535,
            4 => self.n_raw,
            _ => (self.covered() as i64).saturating_add(self.delta as i64).clamp(0, u32::MAX as i64) as u32,
        }
    }
    /// offset handed to `Charset::new`
    fn offset(&self, data_len: usize) -> usize {
        match self.kind % 6 {
            k @ 0..=2 => k as usize,
            _ => {
                if self.bad % 4 == 1 {
                    data_len.wrapping_add(1)
                } else {
                    4
                }
            }
        }
    }
}
pub fn charset_bytes(c: &CharsetCase) -> Vec<u8> {
    // four bytes of CFF header stand-in, then the charset data
    let mut v = vec![1u8, 0, 4, 1];
    let k = c.kind % 6;
    if k < 3 {
        return v;
    }
    v.push(if c.bad % 4 == 3 { 3u8.wrapping_add(c.delta as u8) } else { k - 3 });
    for (first, n_left) in &c.ranges {
        p16(&mut v, *first);
        match k {
            4 => v.push(*n_left as u8),
            5 => p16(&mut v, *n_left),
            _ => {}
        }
    }
    if c.bad % 4 == 2 {
        v.pop();
    }
    v
}
fn obs_charset(c: &CharsetCase, bufs: &[&[u8]], o: &mut Obs) {
    use read_fonts::tables::postscript::Charset;
    let fd = FontData::new(bufs[0]);
    let n = c.num_glyphs();
    let r = Charset::new(fd, c.offset(bufs[0].len()), n);
    if !o.root(&r) {
        return;
    }
    let cs = r.unwrap();
    o.d.u(cs.num_glyphs() as u64);
    let cov = c.covered();
    let mut gids: BTreeSet<u32> = [0u32, 1, 2, 0xFFFF, 0x1_0000, u32::MAX].into_iter().collect();
    for b in CHARSET_PREDEF_LEN.iter().copied().chain([cov, n]) {
        for x in [b.wrapping_sub(2), b.wrapping_sub(1), b, b.wrapping_add(1)] {
            gids.insert(x);
        }
    }
    // cumulative range ends of the custom formats
    let mut end = 1u32;
    for r in c.ranges.iter().take(12) {
        end = end.wrapping_add(if c.kind % 6 == 4 { (r.1 & 0xFF) as u32 } else if c.kind % 6 == 5 { r.1 as u32 } else { 0 }).wrapping_add(1);
        for x in [end.wrapping_sub(1), end, end.wrapping_add(1)] {
            gids.insert(x);
        }
    }
    gids.extend(c.probes.iter().copied());
    for g in gids.iter().take(96) {
        let r = cs.string_id(GlyphId::new(*g));
        if o.r(&r) {
            o.d.u(r.unwrap().to_u16() as u64);
        }
    }
    // full iteration, to the end
    let mut acc = 0u64;
    let mut k = 0u64;
    for (g, sid) in cs.iter().take(IT) {
        acc = acc.wrapping_mul(31).wrapping_add((g.to_u32() as u64) << 16 ^ sid.to_u16() as u64);
        k = k.wrapping_add(1);
    }
    o.d.u(acc);
    o.d.u(k);
}
fn charset_strategy() -> impl Strategy<Value = CharsetCase> {
    let range = (prop_oneof![3 => 0u16..400, 1 => (0u16..8).prop_map(|k| 0xFFFFu16.wrapping_sub(k)), 1 => any::<u16>()], prop_oneof![5 => 0u16..6, 1 => Just(0xFFu16), 1 => Just(0xFFFFu16), 1 => any::<u16>()]);
    (
        0u8..6,
        pvec(range, 0..6),
        prop_oneof![3 => Just(0i8), 3 => Just(1i8), 2 => Just(-1i8), 1 => Just(2i8), 1 => Just(-2i8), 1 => any::<i8>()],
        prop_oneof![8 => Just(0u8), 1 => 1u8..5],
        h32(),
        prop_oneof![8 => Just(0u8), 1 => 1u8..4],
        pvec(prop_oneof![0u32..260, h32()], 0..4),
    )
        .prop_map(|(kind, ranges, delta, n_mode, n_raw, bad, probes)| CharsetCase { kind, ranges, delta, n_mode, n_raw, bad, probes })
}
