//! C01 — parsing and traversing untrusted font bytes never panics or hangs; observations are a pure function of the bytes.
use vcore::*;
fn main() {
    let ctx = Ctx::from_args("C01");
    ctx.set_rule("corpus fonts (repo test fonts + vendored) under truncation sweep (every cut length of every table, strided past 64 bytes), field sweep (each 16/32-bit aligned field of each table prefix forced to boundary values), havoc (1..8 proptest-generated edits incl. cross-table splices) and unmutated; each case observed either as a whole file (FileRef/FontRef, generic traversal of every table graph, helper families) or as a raw table payload read as its native type, a control-block-selected type (239 plain + 24 with external args) and raw-byte helpers. Non-trivial: the input opened and >= 1 read below the root returned Err / an offset failed to resolve (case sits on a validation boundary), or (purity sample, 1/8 of cases) >= 100 fields digested; distinct by hash of the case.");
    ctx.assume("worker subprocesses with a 20 s CPU budget per case attribute aborts/stack overflows/hangs to the in-flight case; only gross non-termination is detectable");
    ctx.assume("library iterators are consumed through take(70000) and traversals through a 30000-node budget (harness-made work bounded; exhaustion counted, not a verdict)");
    vtotal::c01::stages(&ctx, false);
    ctx.finish();
}
