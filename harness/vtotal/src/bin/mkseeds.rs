//! writes seed inputs for the coverage-guided IFT and COLR targets (from the repository's fixtures / the graph generator)
use proptest::strategy::{Strategy, ValueTree};
use proptest::test_runner::{Config, RngAlgorithm, TestRng, TestRunner};
fn main() {
    let dir = vcore::verif_dir().join("fuzz/corpus/c02_ift");
    std::fs::create_dir_all(&dir).unwrap();
    for (i, s) in vtotal::iftdrive::raw_seeds().iter().enumerate() {
        std::fs::write(dir.join(format!("fixture-{i:03}")), s).unwrap();
    }
    let dir = vcore::verif_dir().join("fuzz/corpus/c13_colr");
    std::fs::create_dir_all(&dir).unwrap();
    let mut runner = TestRunner::new_with_rng(Config::default(), TestRng::from_seed(RngAlgorithm::ChaCha, &[7u8; 32]));
    let strat = vtotal::c13::colr_strategy();
    for i in 0..300 {
        let c = strat.new_tree(&mut runner).unwrap().current();
        let mut bytes = vtotal::colrgen::assemble(&c).colr;
        bytes.extend_from_slice(&[(c.coords.len() as u8) % 3, 0x40, 0, 0, c.script.len() as u8, 1, 0, 2]);
        std::fs::write(dir.join(format!("generated-{i:03}")), bytes).unwrap();
    }
}
