//! writes seed inputs for the coverage-guided IFT target from the repository's fixtures
fn main() {
    let dir = vcore::verif_dir().join("fuzz/corpus/c02_ift");
    std::fs::create_dir_all(&dir).unwrap();
    for (i, s) in vtotal::iftdrive::raw_seeds().iter().enumerate() {
        std::fs::write(dir.join(format!("fixture-{i:03}")), s).unwrap();
    }
}
