//! C13 — colour glyph painting terminates with balanced, correctly nested callbacks.
use vcore::*;
fn main() {
    let ctx = Ctx::from_args("C13");
    ctx.set_rule("proptest-generated COLR tables from indexed node lists (1..27 nodes over all 32 paint formats incl. variable ones, PaintColrLayers ranges, PaintColrGlyph by glyph id, forward offsets or layer-index references so that sharing and true cycles occur; v0 base/layer records incl. out-of-range layers; clip lists; optional ItemVariationStore/DeltaSetIndexMap and locations; scripted answers Ok/Unimplemented/Err of the paint-from-cache callback), hand-assembled and painted through skrifa with a recording painter; plus corpus COLR fonts unmutated and under byte havoc of the COLR table. Non-trivial: a successful paint with >= 3 nested pushes of >= 2 kinds, or a graph with a reachable cycle that was reported as Err, or a failing cached-glyph callback after a push; distinct by hash of the case.");
    ctx.assume("the painter aborts (private unwind payload) after 300000 callbacks; such paints are counted as budget_exhausted and are not a verdict (the traversal is depth-bounded but has no node budget: DESIGN.md C13-L)");
    ctx.assume("cycle => Err is only demanded when every paint-from-cache answer is Unimplemented (an Ok answer legitimately hides the subgraph)");
    vtotal::c13::stages(&ctx, false);
    ctx.finish();
}
