//! C20 — no arithmetic overflow or debug-assertion failure is reachable from font data (strict profile:
//! overflow checks + debug assertions on; the same generators as C01/C02/C13 plus the klippa plan step).
use vcore::*;
fn main() {
    let ctx = Ctx::from_args("C20");
    if !cfg!(debug_assertions) {
        eprintln!("C20 must be built with the `strict` profile (debug assertions + overflow checks)");
        std::process::exit(2);
    }
    ctx.set_rule("exactly the generators, corpora and stages of C01 (parse/traverse), C02 (skrifa + IFT client + brotli), C13 (colour paint graphs) and the klippa::Plan::new step, compiled with overflow-checks=on and debug-assertions=on. A failure is a panic whose message is an overflow-check message (attempt to add/subtract/multiply/negate/shift ... with overflow) or an assertion message; all other panics are release-profile panics reported by C01/C02/C13 on the same inputs and are ignored here (counted). Non-trivial: as in the source stage (input opened and sits on a validation boundary / a draw got past argument validation / a paint nested deeply / a plan was built).");
    ctx.assume("harness arithmetic on generated values is explicitly wrapping/checked so that an overflow panic can only originate in the crates under test; panic locations outside /repo would still be reported and triaged");
    vtotal::c01::stages(&ctx, true);
    vtotal::c02::stages(&ctx, true);
    vtotal::c13::stages(&ctx, true);
    vtotal::c20::stages(&ctx);
    ctx.finish();
}
