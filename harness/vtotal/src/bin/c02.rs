//! C02 — skrifa and the IFT client are total on hostile fonts and arguments.
use vcore::*;
fn main() {
    let ctx = Ctx::from_args("C02");
    ctx.set_rule("skrifa: corpus fonts unmutated / truncation+field sweeps / havoc (1..6 edits), crossed with a generated argument record (glyph ids incl. out of range, size kinds incl. 0/negative/inf/NaN/subnormal, coordinate vectors of any length with arbitrary F2Dot14 bits, engine x target x pedantic, caller memory of every length class and misalignment, both path styles, hinting instance fresh / reconfigured / configured on another font) driving every MetadataProvider query, ~25 glyphs x draws, colour paints. IFT: the repository's mapping-table and patch fixtures under 0..5 byte edits x generated subset definitions x applied/missing URI sets x {transparent, built-in, k-th-call-failing} decoder, up to 4 select/apply rounds; shared-brotli decoder on valid-then-mutated and arbitrary streams with small output limits. Non-trivial: the font opened and >= 1 draw got past argument validation (Ok or an error other than GlyphNotFound/NoSources) or a paint ran; IFT: a patch application was attempted; brotli: decode returned Ok. Distinct by hash of the case.");
    ctx.assume("worker subprocesses with a 20 s CPU budget per case attribute aborts/stack overflows/hangs to the in-flight case");
    ctx.assume("colour paints run under a 200000-callback painter budget (exhaustion counted, not a verdict; see DESIGN.md C13-L)");
    vtotal::c02::stages(&ctx, false);
    ctx.finish();
}
