//! C02 stages (also run by C20 in the strict profile with `strict = true`).
use crate::iftdrive::{self, DefSpec, IftCase};
use crate::skdrive::{self, SkArgs};
use proptest::prelude::*;
use serde::{Deserialize, Serialize};
use vcore::mutate::{edit_strategy, havoc_strategy, CorpusIndex, Edit, MutCase};
use vcore::*;

#[derive(Clone, Debug, Serialize, Deserialize)]
pub struct SkCase {
    pub m: MutCase,
    /// corpus font used for cross-font hinting-instance histories
    pub other: String,
    pub args: SkArgs,
    /// generated TrueType programs replacing the font's `prep` / `fpgm` tables (after the byte edits)
    #[serde(default)]
    pub prep: Option<Vec<crate::ttgen::Ins>>,
    #[serde(default)]
    pub fpgm: Option<Vec<crate::ttgen::Ins>>,
    /// when set, the "other" font is a sibling of the font under test that differs only in one maxp field
    /// (byte offset into maxp, value): hinting-instance state sized for almost the same font
    #[serde(default)]
    pub sibling_maxp: Option<(u8, u16)>,
}

fn replace_tables(bytes: &[u8], repl: &[([u8; 4], Vec<u8>)]) -> Vec<u8> {
    let Some((version, mut tables)) = vcore::sfnt::split_tables(bytes) else { return bytes.to_vec() };
    for (tag, data) in repl {
        tables.retain(|t| &t.0 != tag);
        tables.push((*tag, data.clone()));
    }
    vcore::sfnt::assemble(version, &tables)
}

pub fn corpus_index() -> CorpusIndex {
    let fonts: Vec<_> = corpus::all_fonts().into_iter().filter(|f| f.data.len() <= 400_000).collect();
    CorpusIndex::new(&fonts)
}

pub fn skargs_strategy() -> impl Strategy<Value = SkArgs> {
    (
        (prop_oneof![Just(0u32), Just(1), 0u32..40, Just(0xFFFF), Just(0x10000), any::<u32>()], 0u8..13, any::<u32>()),
        (proptest::collection::vec(prop_oneof![Just(0i16), Just(0x4000), Just(-0x4000), Just(0x2000), Just(i16::MIN), Just(i16::MAX), any::<i16>()], 0..6), 0u8..5),
        (0u8..4, 0u8..6, any::<bool>()),
        (prop_oneof![4 => Just(0u8), 3 => Just(1u8), 3 => 2u8..9, 2 => 9u8..14], any::<bool>(), prop_oneof![3 => Just(0u8), 2 => Just(1u8), 2 => Just(2u8)], any::<u16>()),
    )
        .prop_map(|((gid_extra, size_kind, size_bits), (coord_bits, coord_len), (engine, target, pedantic), (mem_mode, harfbuzz_style, inst_mode, meta_id))| SkArgs {
            gid_extra,
            size_kind,
            size_bits,
            coord_bits,
            coord_len,
            engine,
            target,
            pedantic,
            mem_mode,
            harfbuzz_style,
            inst_mode,
            meta_id,
        })
}

/// deterministic argument record for enumeration stages
pub fn skargs_of(i: u64) -> SkArgs {
    let r = |k: u64| mix(i, k);
    SkArgs {
        gid_extra: [0u32, 1, 7, 0xFFFF, 0x10000, r(1) as u32][(r(2) % 6) as usize],
        size_kind: (r(3) % 13) as u8,
        size_bits: r(4) as u32,
        coord_bits: (0..(r(5) % 5)).map(|k| [0i16, 0x4000, -0x4000, 0x2000, r(6 + k) as i16][(r(20 + k) % 5) as usize]).collect(),
        coord_len: (r(7) % 5) as u8,
        engine: (r(8) % 4) as u8,
        target: (r(9) % 6) as u8,
        pedantic: r(10) % 2 == 0,
        mem_mode: (r(11) % 14) as u8,
        harfbuzz_style: r(12) % 2 == 0,
        inst_mode: (r(13) % 3) as u8,
        meta_id: r(14) as u16,
    }
}

pub fn test_sk(ix: &CorpusIndex, c: &SkCase, stats: &Stats, strict: bool) -> CaseResult {
    let Some((bytes, _)) = ix.materialize(&c.m) else {
        stats.class("unmaterializable");
        return Ok(());
    };
    let mut bytes = bytes;
    let mut repl = vec![];
    if let Some(p) = &c.prep {
        repl.push((*b"prep", crate::ttgen::encode(p)));
        stats.class("generated_prep");
    }
    if let Some(p) = &c.fpgm {
        repl.push((*b"fpgm", crate::ttgen::encode(p)));
        stats.class("generated_fpgm");
    }
    if !repl.is_empty() {
        bytes = replace_tables(&bytes, &repl);
    }
    let sibling: Option<Vec<u8>> = c.sibling_maxp.and_then(|(off, val)| {
        let (_, tables) = vcore::sfnt::split_tables(&bytes)?;
        let mut maxp = tables.iter().find(|t| &t.0 == b"maxp")?.1.clone();
        let o = off as usize;
        if o + 2 > maxp.len() {
            return None;
        }
        maxp[o..o + 2].copy_from_slice(&val.to_be_bytes());
        stats.class("sibling_other_font");
        Some(replace_tables(&bytes, &[(*b"maxp", maxp)]))
    });
    let other = match &sibling {
        Some(s) => Some(s.as_slice()),
        None => ix.font(&c.other).map(|f| f.data.as_slice()),
    };
    let o = match guard::catch(|| skdrive::drive_file(&bytes, other, &c.args)) {
        Ok(o) => o,
        Err(p) => {
            if strict && !p.is_overflow_or_assert() {
                stats.class(&format!("non_overflow_panic_ignored(strict):{}", guard::rel_file(&p.file)));
                return Ok(());
            }
            return Err(Fail::from_panic(&p));
        }
    };
    if o.opened {
        stats.class("opened");
    }
    stats.class_n("draws", o.draws);
    stats.class_n("draws_ok", o.draws_ok);
    stats.class_n("draws_insufficient_memory", o.insufficient_memory);
    stats.class_n("paints", o.paints);
    stats.class_n("paints_ok", o.paints_ok);
    stats.class_n("paint_budget_exhausted", o.paint_budget_exhausted);
    stats.class_n("hinting_instances", o.hint_instances);
    stats.class(match c.args.inst_mode % 3 {
        0 => "inst=fresh",
        1 => "inst=reconfigured",
        _ => "inst=other-font",
    });
    if o.opened && (o.draws_past_validation > 0 || o.paints > 0) {
        let h = hash_json(c);
        stats.nontrivial(h);
        if stats.want_sample() && h % 256 == 0 {
            stats.sample(serde_json::json!({"case": c, "draws": o.draws, "draws_ok": o.draws_ok, "paints": o.paints}));
        }
    }
    Ok(())
}

/// One generated CFF / CFF2 font: the common skrifa driver plus a hinted-draw probe of every glyph (PostScript hinter).
/// Non-trivial: a hinted draw of a glyph declaring >= 1 stem hint got past argument validation and returned Ok.
pub fn test_cff(c: &crate::cffgen::CffCase, stats: &Stats, strict: bool) -> CaseResult {
    use crate::cffgen::{self, stem_class};
    let bytes = cffgen::build(&c.font);
    // a sibling with another subfont layout / other Private DICTs for the cross-font hinting-instance modes
    let other = (c.args.inst_mode % 3 != 0).then(|| cffgen::build(&cffgen::twist(&c.font)));
    let (o, p) = match guard::catch(|| (skdrive::drive_file(&bytes, other.as_deref(), &c.args), cffgen::probe(&bytes, &c.args))) {
        Ok(r) => r,
        Err(p) => {
            if strict && !p.is_overflow_or_assert() {
                stats.class(&format!("non_overflow_panic_ignored(strict):{}", guard::rel_file(&p.file)));
                return Ok(());
            }
            return Err(Fail::from_panic(&p));
        }
    };
    stats.class(if c.font.cff2 { "table=CFF2" } else if c.font.cid { "table=CFF(cid)" } else { "table=CFF" });
    if o.opened {
        stats.class("opened");
    }
    stats.class_n("draws", o.draws);
    stats.class_n("draws_ok", o.draws_ok);
    stats.class_n("hinting_instances", o.hint_instances);
    stats.class_n("probe_instances(of 2)", p.instances as u64);
    stats.class_n("probe_unhinted_ok", p.unhinted_ok as u64);
    stats.class_n("probe_unhinted_err", p.unhinted_err as u64);
    for e in &p.errors {
        stats.class(&format!("hinted_err:{e}"));
    }
    let chain = c.font.privs.iter().map(|p| p.chain).max().unwrap_or(0);
    stats.class(&format!("subr_chain={}", match chain { 0 => "0", 1..=8 => "1-8", 9 => "9", 10 => "10", 11 => "11", _ => "12+" }));
    if c.font.pad_lsubrs >= 1240 || c.font.pad_gsubrs >= 1240 {
        stats.class("subr_bias>107");
    }
    let mut nontrivial = false;
    for (g, gl) in c.font.glyphs.iter().enumerate() {
        let f = cffgen::facts(gl);
        let (ok, err) = p.hinted.get(g).copied().unwrap_or((0, 0));
        stats.class(&format!("glyph hstems={}", stem_class(f.hstems)));
        if f.stems != f.hstems {
            stats.class(&format!("glyph allstems={}", stem_class(f.stems)));
        }
        if f.hstems > 0 {
            stats.class(match f.ghosts { 0 => "glyph ghosts=0", x if x % 2 == 1 => "glyph ghosts=odd", _ => "glyph ghosts=even" });
        }
        if f.hintmasks > 0 {
            stats.class("glyph hintmask");
        }
        if f.cntrmasks > 0 {
            stats.class("glyph cntrmask");
        }
        if f.wrong_mask_len {
            stats.class("glyph mask_len_wrong");
        }
        if f.calls > 0 {
            stats.class("glyph calls_subr");
        }
        if f.max_fill >= 48 {
            stats.class(if f.max_fill >= 513 { "glyph stack>=513" } else { "glyph stack>=48" });
        }
        stats.class_n(&format!("hinted_ok hstems={}", stem_class(f.hstems)), ok as u64);
        stats.class_n(&format!("hinted_err hstems={}", stem_class(f.hstems)), err as u64);
        if f.hstems > 0 && ok > 0 {
            nontrivial = true;
        }
    }
    if nontrivial {
        let h = hash_json(c);
        stats.nontrivial(h);
        if stats.want_sample() && h % 512 == 0 {
            stats.sample(serde_json::json!({"cff_case": c, "draws": o.draws, "draws_ok": o.draws_ok}));
        }
    }
    Ok(())
}

fn strict_filter(p: &guard::PanicInfo, stats: &Stats, strict: bool) -> CaseResult {
    if strict && !p.is_overflow_or_assert() {
        stats.class(&format!("non_overflow_panic_ignored(strict):{}", guard::rel_file(&p.file)));
        return Ok(());
    }
    Err(Fail::from_panic(p))
}

/// Generated format 2 patch map: every intersecting entry's URI is expanded, then patch selection.
/// Non-trivial: the map decoded and >= 1 URI template expansion returned Ok.
pub fn test_uri(c: &crate::miscgen::UriMap, stats: &Stats, strict: bool) -> CaseResult {
    use crate::miscgen::{self, TplPart};
    let bytes = miscgen::uri_font(c);
    let o = match guard::catch(|| miscgen::drive_uri(&bytes, c.def)) {
        Ok(o) => o,
        Err(p) => return strict_filter(&p, stats, strict),
    };
    stats.class(if c.string_ids { "ids=string" } else { "ids=numeric" });
    if c.string_ids {
        let mut cur = 0usize;
        for e in &c.entries {
            if e.has_id {
                cur = e.id.len();
            }
            stats.class(match cur { 0 => "string_id_len=0", 1 => "string_id_len=1", 2 => "string_id_len=2", 3 => "string_id_len=3", 4 => "string_id_len=4", 5 => "string_id_len=5", _ => "string_id_len=6+" });
        }
    }
    for p in &c.template {
        match p {
            TplPart::Var(v) => stats.class(["tpl {id}", "tpl {id64}", "tpl {d1}", "tpl {d2}", "tpl {d3}", "tpl {d4}"][(*v % 6) as usize]),
            TplPart::Bad(_) | TplPart::Raw(_) => stats.class("tpl malformed piece"),
            TplPart::Lit(_) => {}
        }
    }
    if o.map_ok {
        stats.class("map_decoded");
    }
    if o.group_ok {
        stats.class("group_selected");
    }
    stats.class_n("patches", o.patches);
    stats.class_n("uris_ok", o.uris_ok);
    stats.class_n("uris_err", o.uris_err);
    stats.class_n("group_uris", o.group_uris);
    if o.map_ok && o.uris_ok > 0 {
        let h = hash_json(c);
        stats.nontrivial(h);
        if stats.want_sample() && h % 1024 == 0 {
            stats.sample(serde_json::json!({"uri_case": c, "uris_ok": o.uris_ok}));
        }
    }
    Ok(())
}

/// Generated name table. Non-trivial: >= 1 localized string of a queried id was returned.
pub fn test_name(c: &crate::miscgen::NameCase, stats: &Stats, strict: bool) -> CaseResult {
    use crate::miscgen;
    let bytes = miscgen::name_font(&c.name);
    let (o, _) = match guard::catch(|| (miscgen::drive_names(&bytes, &c.extra_ids), skdrive::drive_file(&bytes, None, &c.args))) {
        Ok(o) => o,
        Err(p) => return strict_filter(&p, stats, strict),
    };
    stats.class(match c.name.version { 0 => "version=0", 1 => "version=1", _ => "version=other" });
    for t in &c.name.lang_tags {
        stats.class(match t.units.len() { 0 => "lang_tag_len=0", 1..=28 => "lang_tag_len=1-28", 29 => "lang_tag_len=29", 30 => "lang_tag_len=30", 31 => "lang_tag_len=31", 32 => "lang_tag_len=32", _ => "lang_tag_len=33+" });
    }
    for r in &c.name.records {
        stats.class(match r.platform { 0 => "platform=0", 1 => "platform=1", 3 => "platform=3", _ => "platform=other" });
        if r.language >= 0x8000 {
            stats.class("record language>=0x8000");
        }
        if r.text.len_adj != 0 || r.text.off_adj != 0 {
            stats.class("record range adjusted");
        }
    }
    stats.class_n("strings", o.strings);
    stats.class_n("strings_with_language", o.with_language);
    stats.class_n("strings_with_lang_tag_language", o.tag_languages);
    stats.class_n("chars", o.chars);
    if o.opened && o.strings > 0 {
        stats.nontrivial(hash_json(c));
    }
    Ok(())
}

/// Generated variable TrueType font with nested composites. Non-trivial: a draw got past argument validation.
pub fn test_vc(c: &crate::miscgen::VcCase, stats: &Stats, strict: bool) -> CaseResult {
    use crate::miscgen;
    let bytes = miscgen::vc_build(&c.font);
    let o = match guard::catch(|| skdrive::drive_file(&bytes, None, &c.args)) {
        Ok(o) => o,
        Err(p) => return strict_filter(&p, stats, strict),
    };
    let shape = miscgen::vc_shape(&c.font);
    let depth = shape.iter().map(|g| g.1).max().unwrap_or(0);
    stats.class(&format!("nesting_depth={}", depth.min(5)));
    let sib = shape.iter().map(|g| g.2.iter().filter(|t| shape[**t].0).count()).max().unwrap_or(0);
    stats.class(&format!("max_composite_siblings={}", sib.min(4)));
    stats.class(&format!("gvar_edits={}", c.font.edits.len().min(3)));
    let mism = c.font.glyphs.iter().any(|g| matches!(g, miscgen::VcGlyph::Composite { var, .. } if var.count_adj != 0 && !var.tuples.is_empty()));
    if mism {
        stats.class("composite_delta_count_mismatch");
    }
    let default_loc = c.args.coord_len == 0 || c.args.coord_bits.iter().all(|b| *b == 0);
    stats.class(if default_loc { "location=default" } else { "location=non-default" });
    stats.class_n("draws", o.draws);
    stats.class_n("draws_ok", o.draws_ok);
    stats.class_n("draws_insufficient_memory", o.insufficient_memory);
    stats.class_n("hinting_instances", o.hint_instances);
    if o.opened && o.draws_past_validation > 0 {
        stats.nontrivial(hash_json(c));
    }
    Ok(())
}

// ---------------------------------------------------------------------------------------------

fn tag4() -> impl Strategy<Value = [u8; 4]> {
    prop_oneof![Just(*b"wght"), Just(*b"wdth"), Just(*b"liga"), Just(*b"smcp"), Just(*b"c2sc"), any::<[u8; 4]>()]
}
fn def_strategy() -> impl Strategy<Value = DefSpec> {
    (
        proptest::collection::vec(prop_oneof![0u32..0x60, 0x600u32..0x700, any::<u32>()], 0..8),
        proptest::collection::vec((0u32..0x2000, 0u32..0x2000), 0..3),
        prop_oneof![2 => Just(false), 1 => Just(true)],
        prop_oneof![1 => Just(None), 2 => proptest::collection::vec(tag4(), 0..4).prop_map(Some)],
        prop_oneof![1 => Just(None), 2 => proptest::collection::vec((tag4(), proptest::collection::vec((any::<i32>(), any::<i32>()), 0..3)), 0..3).prop_map(Some)],
    )
        .prop_map(|(cps, cp_ranges, invert_cps, features, design)| DefSpec { cps, cp_ranges, invert_cps, features, design })
}
fn edits(max: usize) -> impl Strategy<Value = Vec<Edit>> {
    prop_oneof![2 => Just(vec![]), 3 => proptest::collection::vec(edit_strategy(), 1..=max)]
}
pub fn ift_strategy() -> impl Strategy<Value = IftCase> {
    (
        (0u8..4, proptest::option::weighted(0.85, (0u8..iftdrive::MAP_FIXTURES as u8, edits(4))), proptest::option::weighted(0.4, (0u8..iftdrive::MAP_FIXTURES as u8, edits(4)))),
        def_strategy(),
        proptest::collection::vec((0u8..iftdrive::PATCH_FIXTURES as u8, edits(5), proptest::bool::weighted(0.7)), 1..4),
        (prop_oneof![4 => Just(vec![]), 1 => proptest::collection::vec(any::<u8>(), 1..3)], prop_oneof![6 => Just(vec![]), 1 => proptest::collection::vec(any::<u8>(), 1..2)], prop_oneof![5 => Just(0u8), 2 => Just(1u8), 2 => Just(2u8)], any::<u8>(), 0u8..4),
        (
            prop_oneof![3 => Just(vec![]), 1 => proptest::collection::vec((any::<u8>(), edits(3)), 1..3)],
            prop_oneof![
                2 => Just(vec![]),
                1 => proptest::collection::vec(
                    (0u8..3, prop_oneof![3 => Just(0u8), 2 => Just(1u8), 1 => 2u8..6, 1 => any::<u8>()], prop_oneof![Just(-1i32), Just(1), -40i32..40, Just(-0x100), Just(0x100), Just(0x10000), Just(i32::MIN), Just(i32::MAX), any::<i32>()])
                        .prop_map(|(array, from_end, delta)| iftdrive::OffsetTweak { array, from_end, delta }),
                    1..3
                ),
            ],
        ),
    )
        .prop_map(|((base, ift, iftx), def, patches, (applied, missing, decoder, fail_at, rounds), (base_edits, offset_tweaks))| IftCase { base, ift, iftx, def, patches, applied, missing, decoder, fail_at, rounds, dag: None, base_edits, offset_tweaks, coherent: false, gen_patches: vec![] })
}

/// coherent glyph-keyed cases on the CFF / CFF2 (and glyf/gvar) base fonts: the mapping fixtures that carry charstrings offsets,
/// unedited or lightly edited, glyph patches with matching compatibility ids, the transparent decoder — perturbed only by
/// tweaks of the base font's offset arrays and a few byte edits, so that patch application runs deep into the table rewriting
pub fn ift_coherent_strategy() -> impl Strategy<Value = IftCase> {
    (
        ift_strategy(),
        1u8..4,
        proptest::sample::select(vec![1u8, 2, 6, 7]),
        prop_oneof![3 => Just(vec![]), 1 => edits(1)],
        proptest::collection::vec((2u8..8, prop_oneof![3 => Just(vec![]), 1 => edits(1)], proptest::bool::weighted(0.9)), 1..3),
        prop_oneof![3 => Just(0u8), 1 => Just(2u8)],
        prop_oneof![
            1 => Just(vec![]),
            3 => proptest::collection::vec(
                (
                    prop_oneof![proptest::collection::vec(any::<u16>(), 0..6), proptest::collection::vec(0u16..4, 1..4), proptest::collection::vec(any::<u16>(), 6..40)],
                    1u8..16,
                    proptest::collection::vec(prop_oneof![3 => 0u8..8, 1 => any::<u8>()], 1..5),
                    proptest::bool::weighted(0.3),
                    prop_oneof![6 => Just(0u8), 1 => 1u8..6],
                    any::<u8>(),
                )
                    .prop_map(|(gids, tables, lens, wide, twist, fill)| iftdrive::GkPatch { gids, tables, lens, wide, twist, fill }),
                1..3
            ),
        ],
    )
        .prop_map(|(mut c, base, fi, medits, patches, decoder, gen_patches)| {
            c.gen_patches = gen_patches;
            c.base = base;
            c.ift = Some((fi, medits));
            c.iftx = None;
            c.patches = patches;
            c.decoder = decoder;
            c.coherent = true;
            c.applied = vec![];
            c.missing = vec![];
            c.def.invert_cps = c.def.invert_cps || c.def.cps.is_empty();
            c
        })
}

pub fn test_ift(ix: &CorpusIndex, c: &IftCase, stats: &Stats, strict: bool) -> CaseResult {
    let o = match guard::catch(|| iftdrive::drive(ix, c)) {
        Ok(o) => o,
        Err(p) => {
            if strict && !p.is_overflow_or_assert() {
                stats.class(&format!("non_overflow_panic_ignored(strict):{}", guard::rel_file(&p.file)));
                return Ok(());
            }
            return Err(Fail::from_panic(&p));
        }
    };
    stats.class_n("ift_offered", o.offered);
    stats.class_n("ift_selected_uris", o.selected_uris);
    stats.class_n("ift_applies", o.applies);
    stats.class_n("ift_applies_ok", o.applies_ok);
    for e in &o.errors {
        stats.class(&format!("ift_err:{e}"));
    }
    if o.opened && o.applies > 0 {
        let h = hash_json(c);
        stats.nontrivial(h);
        if stats.want_sample() && h % 128 == 0 {
            stats.sample(serde_json::json!({"ift_case": c, "offered": o.offered, "applies": o.applies, "applies_ok": o.applies_ok}));
        }
    }
    Ok(())
}

#[derive(Clone, Debug, Serialize, Deserialize)]
pub struct BrotliCase {
    pub stream: Vec<u8>,
    pub dict: Option<Vec<u8>>,
    pub max_len: u32,
}
fn brotli_strategy() -> impl Strategy<Value = BrotliCase> {
    // valid streams from the repository's fixtures (table-keyed patch bodies) + mutations, and arbitrary bytes
    let valid: Vec<Vec<u8>> = vec![
        vec![0xa1, 0xe0, 0x00, 0xc0, 0x2f, 0x3a, 0x38, 0xf4, 0x01, 0xd1, 0xaf, 0x54, 0x84, 0x14, 0x71, 0x2a, 0x80, 0x04, 0xa2, 0x1c, 0xd3, 0xdd, 0x07],
        vec![0xa1, 0xe8, 0x00, 0xc0, 0xef, 0x48, 0x9d, 0xfa, 0xdc, 0xf1, 0xc2, 0xac, 0xc5, 0xde, 0xe4, 0xf4, 0xb4, 0x02, 0x48, 0x98, 0x98, 0x52, 0x64, 0xa8, 0x50, 0x20, 0x29, 0x75, 0x0b],
        vec![0x06], // empty stream
    ];
    (
        prop_oneof![
            3 => (proptest::sample::select(valid), proptest::collection::vec((any::<u16>(), any::<u8>()), 0..3)).prop_map(|(mut v, muts)| { for (p, b) in muts { let n = v.len(); v[p as usize % n] = b; } v }),
            2 => proptest::collection::vec(any::<u8>(), 0..64),
        ],
        proptest::option::of(prop_oneof![Just(b"abcdef\n".to_vec()), proptest::collection::vec(any::<u8>(), 0..40)]),
        prop_oneof![Just(0u32), Just(1), Just(7), Just(29), Just(30), Just(31), 0u32..200, Just(1 << 20)],
    )
        .prop_map(|(stream, dict, max_len)| BrotliCase { stream, dict, max_len })
}

pub fn stages(ctx: &Ctx, strict: bool) {
    let ix = corpus_index();
    let names: Vec<String> = ix.fonts.iter().map(|f| f.name.clone()).collect();
    // (0) every corpus font unmutated x 6 argument records
    let plain: Vec<SkCase> = (0..names.len() * 6)
        .map(|i| SkCase {
            m: MutCase { font: names[i / 6].clone(), table: "FILE".into(), edits: vec![] },
            other: names[(mix(i as u64, 99) % names.len() as u64) as usize].clone(),
            args: skargs_of(i as u64),
            prep: None,
            fpgm: None,
            sibling_maxp: None,
        })
        .collect();
    ctx.index_stage("skrifa-unmutated", Isolation::Procs, plain.len() as u64, |i| plain[i as usize].clone(), |c, s| test_sk(&ix, c, s, strict));
    // (1) strided truncation + field sweeps with rotating argument records
    let mut sweep = ix.truncation_sweep(40, 300_000);
    sweep.extend(ix.field_sweep(96, 300_000, if ctx.quick() { 29 } else { 5 }));
    let stride = if ctx.quick() { 2 } else { 1 };
    let sweep: Vec<MutCase> = sweep.into_iter().step_by(stride).collect();
    ctx.index_stage(
        "skrifa-sweep",
        Isolation::Procs,
        sweep.len() as u64,
        |i| SkCase { m: sweep[i as usize].clone(), other: names[(mix(i, 98) % names.len() as u64) as usize].clone(), args: skargs_of(i), prep: None, fpgm: None, sibling_maxp: None },
        |c, s| test_sk(&ix, c, s, strict),
    );
    // (2) havoc x generated argument records
    let strat = || {
        (havoc_strategy(&ix, 300_000, 6), proptest::sample::select(names.clone()), skargs_strategy()).prop_map(|(m, other, args)| SkCase { m, other, args, prep: None, fpgm: None, sibling_maxp: None })
    };
    ctx.prop_stage("skrifa-havoc", Isolation::Procs, ctx.n(60_000, 600_000), strat, |c, s| test_sk(&ix, c, s, strict));
    // (2b) generated TrueType programs in prep / fpgm of instructed fonts, interpreter engine, incl. sibling-font instances
    let hinted: Vec<String> = ix
        .fonts
        .iter()
        .filter(|f| f.tables.iter().any(|t| &t.0 == b"fpgm" || &t.0 == b"prep") && f.tables.iter().any(|t| &t.0 == b"glyf"))
        .map(|f| f.name.clone())
        .collect();
    let bstrat = || {
        (
            proptest::sample::select(hinted.clone()),
            proptest::sample::select(names.clone()),
            skargs_strategy(),
            proptest::option::weighted(0.8, crate::ttgen::program_strategy()),
            proptest::option::weighted(0.25, crate::ttgen::program_strategy()),
            proptest::option::weighted(0.5, (proptest::sample::select(vec![14u8, 16, 18, 20, 22, 24, 26]), prop_oneof![Just(0u16), Just(1), Just(2), 0u16..64, any::<u16>()])),
        )
            .prop_map(|(font, other, mut args, prep, fpgm, sibling_maxp)| {
                args.engine = 0; // interpreter
                if sibling_maxp.is_some() {
                    args.inst_mode = 2;
                }
                if args.size_kind < 3 || args.size_kind > 6 {
                    args.size_kind = 3 + args.size_kind % 4;
                }
                SkCase { m: MutCase { font, table: "FILE".into(), edits: vec![] }, other, args, prep, fpgm, sibling_maxp }
            })
    };
    ctx.prop_stage("skrifa-bytecode", Isolation::Procs, ctx.n(40_000, 400_000), bstrat, |c, s| test_sk(&ix, c, s, strict));
    // (2b') structurally valid CFF / CFF2 fonts by construction with generated Type 2 charstring programs (stem counts
    // around the PostScript hinter's capacity limits, masks, subr chains, operand stacks, blend), see cffgen.rs
    let cstrat = || (crate::cffgen::strategy(), skargs_strategy()).prop_map(|(font, args)| crate::cffgen::CffCase { font, args });
    ctx.prop_stage("cff-generated", Isolation::Procs, ctx.n(60_000, 600_000), cstrat, |c, s| test_cff(c, s, strict));
    // (2b'') three by-construction generators for classes byte mutation does not reach (miscgen.rs): format 2 patch maps with
    // generated URI templates x numeric / string ids; hand-encoded name tables (version 1 language tags); variable fonts with
    // nested composites, per-component gvar data and edits confined to that data, drawn at non-default locations
    ctx.prop_stage("ift-uri-generated", Isolation::Procs, ctx.n(100_000, 1_000_000), crate::miscgen::uri_strategy, |c, s| test_uri(c, s, strict));
    let nstrat = || (crate::miscgen::name_strategy(), proptest::collection::vec(prop_oneof![0u16..30, 250u16..260, any::<u16>()], 0..3), skargs_strategy()).prop_map(|(name, extra_ids, args)| crate::miscgen::NameCase { name, extra_ids, args });
    ctx.prop_stage("name-generated", Isolation::Procs, ctx.n(80_000, 800_000), nstrat, |c, s| test_name(c, s, strict));
    let vstrat = || {
        (crate::miscgen::vc_strategy(), skargs_strategy(), proptest::option::weighted(0.85, crate::miscgen::vc_coords())).prop_map(|(font, mut args, coords)| {
            // mostly non-default locations (the generated record's own coordinate modes otherwise)
            if let Some(c) = coords {
                args.coord_bits = c;
                args.coord_len = 1;
            }
            crate::miscgen::VcCase { font, args }
        })
    };
    ctx.prop_stage("varcomposite-generated", Isolation::Procs, ctx.n(60_000, 600_000), vstrat, |c, s| test_vc(c, s, strict));
    // (2c) structurally valid fonts with hostile values (extreme coordinates / metrics / upem / transforms, several
    // limit-valued gvar tuples active at once, generated prep), driven like any other font
    let hstrat = || (crate::hostile::strategy(), skargs_strategy()).prop_map(|(font, args)| HostileCase { font, args });
    ctx.prop_stage("hostile-values", Isolation::Procs, ctx.n(40_000, 400_000), hstrat, |c: &HostileCase, s| {
        let bytes = crate::hostile::build(&c.font);
        // coordinates: the peaks of the font's own tuples first (all tuples active), then the generated record
        let mut args = c.args.clone();
        if args.coord_len == 4 && !c.font.tuples.is_empty() {
            args.coord_bits = c.font.tuples[0].0.clone();
        }
        let o = match guard::catch(|| skdrive::drive_file(&bytes, None, &args)) {
            Ok(o) => o,
            Err(p) => {
                if strict && !p.is_overflow_or_assert() {
                    s.class(&format!("non_overflow_panic_ignored(strict):{}", guard::rel_file(&p.file)));
                    return Ok(());
                }
                return Err(Fail::from_panic(&p));
            }
        };
        s.class_n("draws", o.draws);
        s.class_n("draws_ok", o.draws_ok);
        if o.opened && o.draws_past_validation > 0 {
            s.nontrivial(hash_json(c));
        }
        Ok(())
    });
    // (3) IFT client
    ctx.prop_stage("ift", Isolation::Procs, ctx.n(600_000, 6_000_000), ift_strategy, |c, s| test_ift(&ix, c, s, strict));
    // (3a) coherent glyph-keyed cases over hostile base fonts (offset-array tweaks)
    ctx.prop_stage("ift-coherent", Isolation::Procs, ctx.n(150_000, 1_500_000), ift_coherent_strategy, |c, s| test_ift(&ix, c, s, strict));
    // (3b) deep child-index DAGs (conjunctive / disjunctive): selection must stay polynomial in the map size
    let dstrat = || {
        (
            ift_strategy(),
            prop_oneof![2u8..20, 20u8..70, 70u8..=200],
            proptest::collection::vec(proptest::bool::weighted(0.7), 1..6),
            proptest::collection::vec((0u8..3, 0u8..3), 1..5),
            prop_oneof![Just(0u8), 2u8..9],
            prop_oneof![12 => Just(0u16), 1 => 300u16..3000, 1 => 3000u16..40_000],
            prop_oneof![3 => Just(vec![]), 1 => proptest::collection::vec(proptest::bool::weighted(0.6), 1..5)],
            prop_oneof![3 => Just(0u8), 1 => 1u8..4],
        )
            .prop_map(|(mut c, n, conj, fan, own_codepoints_every, n_big, ignored, ignored_but_last)| {
                c.dag = Some(iftdrive::DagSpec { n, conj, fan, own_codepoints_every, n_big, ignored, ignored_but_last });
                c.iftx = None;
                c
            })
    };
    ctx.prop_stage("ift-child-dag", Isolation::Procs, ctx.n(15_000, 150_000), dstrat, |c, s| test_ift(&ix, c, s, strict));
    // replays of inputs found by the coverage-guided target c02_ift
    ctx.index_stage("ift-raw", Isolation::Threads, 0, |_| RawIft { raw_hex: String::new() }, |c: &RawIft, s| {
        let h = c.raw_hex.strip_prefix("hex:").unwrap_or(&c.raw_hex);
        let d: Vec<u8> = (0..h.len() / 2).filter_map(|i| u8::from_str_radix(h.get(2 * i..2 * i + 2)?, 16).ok()).collect();
        if d.len() < 2 {
            return Ok(());
        }
        let mut chunks: Vec<&[u8]> = vec![];
        let mut rest = &d[2..];
        while rest.len() >= 2 && chunks.len() < 6 {
            let n = (u16::from_be_bytes([rest[0], rest[1]]) as usize).min(rest.len() - 2);
            chunks.push(&rest[2..2 + n]);
            rest = &rest[2 + n..];
        }
        match guard::catch(|| iftdrive::drive_raw(d[0], d[1], &chunks)) {
            Ok(_) => Ok(()),
            Err(p) => {
                if strict && !p.is_overflow_or_assert() {
                    s.class("non_overflow_panic_ignored(strict)");
                    return Ok(());
                }
                Err(Fail::from_panic(&p))
            }
        }
    });
    // (4) shared-brotli decoder
    ctx.prop_stage("brotli", Isolation::Procs, ctx.n(50_000, 500_000), brotli_strategy, |c, s| {
        let r = guard::catch(|| iftdrive::drive_brotli(&c.stream, c.dict.as_deref(), c.max_len as usize));
        match r {
            Ok(n) => {
                if n != u64::MAX {
                    s.class("brotli_decoded_ok");
                    s.nontrivial(hash_json(c));
                }
                Ok(())
            }
            Err(p) => {
                if strict && !p.is_overflow_or_assert() {
                    return Ok(());
                }
                Err(Fail::from_panic(&p))
            }
        }
    });
}

#[derive(Clone, Debug, Serialize, Deserialize)]
pub struct RawIft {
    pub raw_hex: String,
}

#[derive(Clone, Debug, Serialize, Deserialize)]
pub struct HostileCase {
    pub font: crate::hostile::HostileFont,
    pub args: SkArgs,
}
