//! C13: generated COLR v0/v1 paint graphs (indexed node lists, so cycles and sharing are first-class), a harness COLR
//! assembler (hand-encoded, independent of write-fonts) and the recording painter with its LIFO-balance oracle.
use read_fonts::FontRef;
use serde::{Deserialize, Serialize};
use skrifa::color::{Brush, ColorPainter, CompositeMode, PaintCachedColorGlyph, PaintError, Transform};
use skrifa::prelude::LocationRef;
use skrifa::raw::types::{BoundingBox, F2Dot14};
use skrifa::{GlyphId, MetadataProvider};

#[derive(Clone, Debug, Serialize, Deserialize, PartialEq)]
pub enum Node {
    /// PaintColrLayers over layer indices first..first+count (layer i == node i; indices taken modulo / clipped by `wild`)
    Layers { first: u8, count: u8, wild: bool },
    Solid { var: bool, palette: u16, alpha: i16 },
    /// kind 0 linear, 1 radial, 2 sweep
    Gradient { kind: u8, var: bool, stops: u8, extend: u8, vals: [i16; 6] },
    Glyph { child: u8, direct: bool, gid: u16 },
    ColrGlyph { gid: u16 },
    /// fmt: 0 transform, 1 translate, 2 scale, 3 scale-around, 4 scale-uniform, 5 scale-uniform-around, 6 rotate,
    /// 7 rotate-around, 8 skew, 9 skew-around
    Xform { fmt: u8, var: bool, child: u8, direct: bool, vals: [i16; 4] },
    Composite { src: u8, src_direct: bool, mode: u8, backdrop: u8, backdrop_direct: bool },
}

#[derive(Clone, Debug, Serialize, Deserialize, PartialEq)]
pub struct ColrCase {
    pub nodes: Vec<Node>,
    /// v1 base glyphs: (glyph id, root node); sorted by glyph id at assembly
    pub roots: Vec<(u16, u8)>,
    /// v0 base glyph records (gid, first layer, num layers) and layer records (gid, palette)
    pub v0_base: Vec<(u16, u16, u16)>,
    pub v0_layers: Vec<(u16, u16)>,
    /// clip boxes (start gid, end gid, variable)
    pub clips: Vec<(u16, u16, bool)>,
    /// var index bases are drawn from this pool (incl. 0xFFFFFFFF = none, and out-of-range values)
    pub var_bases: Vec<u32>,
    pub with_index_map: bool,
    pub coords: Vec<i16>,
    /// answers of paint_cached_color_glyph in call order: 0 Ok, 1 Unimplemented, 2 Err; exhausted => Unimplemented
    pub script: Vec<u8>,
}

fn be16(v: &mut Vec<u8>, x: u16) {
    v.extend_from_slice(&x.to_be_bytes());
}
fn be24(v: &mut Vec<u8>, x: u32) {
    v.extend_from_slice(&x.to_be_bytes()[1..]);
}
fn be32(v: &mut Vec<u8>, x: u32) {
    v.extend_from_slice(&x.to_be_bytes());
}

fn node_len(n: &Node) -> usize {
    match n {
        Node::Layers { .. } => 6,
        Node::Solid { var, .. } => 5 + 4 * *var as usize,
        Node::Gradient { kind, var, stops, .. } => {
            let base = match kind % 3 {
                0 => 16,
                1 => 16,
                _ => 12,
            };
            let stop = if *var { 10 } else { 6 };
            base + 4 * *var as usize + 3 + (*stops as usize % 5) * stop
        }
        Node::Glyph { .. } => 6,
        Node::ColrGlyph { .. } => 3,
        Node::Xform { fmt, var, .. } => {
            let v = 4 * *var as usize;
            match fmt % 10 {
                0 => 7 + 24 + v, // paint + inline Affine2x3 placed right behind
                1 => 8 + v,
                2 => 8 + v,
                3 => 12 + v,
                4 => 6 + v,
                5 => 10 + v,
                6 => 6 + v,
                7 => 10 + v,
                8 => 8 + v,
                _ => 12 + v,
            }
        }
        Node::Composite { .. } => 8,
    }
}

pub struct Assembled {
    pub colr: Vec<u8>,
    pub num_glyphs: u16,
}

/// Hand assembler. Layout: header | v0 base records | v0 layer records | BaseGlyphList | LayerList | nodes | wrappers |
/// ClipList | VarIndexMap | ItemVariationStore. Child references: forward Offset24 when `direct` and the child sits later,
/// otherwise an inline `PaintColrLayers(1, child)` wrapper (true cycles go through layer indices / glyph ids, as in real fonts).
pub fn assemble(c: &ColrCase) -> Assembled {
    let n = c.nodes.len().max(1);
    let nodes: Vec<Node> = if c.nodes.is_empty() { vec![Node::Solid { var: false, palette: 0, alpha: 0x4000 }] } else { c.nodes.clone() };
    let mut roots = c.roots.clone();
    roots.sort();
    roots.dedup_by_key(|r| r.0);
    let mut v0 = c.v0_base.clone();
    v0.sort();
    v0.dedup_by_key(|r| r.0);
    let has_v1 = !roots.is_empty();
    let header_len = 34usize;
    let v0_base_off = header_len;
    let v0_layer_off = v0_base_off + 6 * v0.len();
    let bgl_off = v0_layer_off + 4 * c.v0_layers.len();
    let bgl_len = 4 + 6 * roots.len();
    let ll_off = bgl_off + bgl_len;
    let ll_len = 4 + 4 * n;
    // node positions (absolute)
    let mut pos = vec![0usize; n];
    let mut p = ll_off + ll_len;
    for (i, nd) in nodes.iter().enumerate() {
        pos[i] = p;
        p += node_len(nd);
    }
    // wrappers appended after the nodes
    let mut wrappers: Vec<u8> = vec![];
    let wrappers_off = p;
    let pool = |k: usize| -> u32 { if c.var_bases.is_empty() { 0xFFFF_FFFF } else { c.var_bases[k % c.var_bases.len()] } };
    let mut body: Vec<u8> = vec![];
    for (i, nd) in nodes.iter().enumerate() {
        let here = pos[i];
        let child_off = |child: u8, direct: bool, wrappers: &mut Vec<u8>| -> u32 {
            let ci = child as usize % n;
            if direct && ci > i {
                (pos[ci] - here) as u32
            } else {
                let at = wrappers_off + wrappers.len();
                wrappers.push(1);
                wrappers.push(1);
                be32(wrappers, ci as u32);
                (at - here) as u32
            }
        };
        let start = body.len();
        match nd {
            Node::Layers { first, count, wild } => {
                body.push(1);
                let (f, k) = if *wild { (*first as u32, *count) } else { ((*first as usize % n) as u32, (*count % 4).min((n - *first as usize % n) as u8)) };
                body.push(k);
                be32(&mut body, f);
            }
            Node::Solid { var, palette, alpha } => {
                body.push(2 + *var as u8);
                be16(&mut body, *palette);
                be16(&mut body, *alpha as u16);
                if *var {
                    be32(&mut body, pool(i));
                }
            }
            Node::Gradient { kind, var, stops, extend, vals } => {
                let k = kind % 3;
                body.push(4 + 2 * k + *var as u8);
                let fixed = match k {
                    0 => 16,
                    1 => 16,
                    _ => 12,
                } + 4 * *var as usize;
                be24(&mut body, fixed as u32); // colour line right behind the fixed part
                match k {
                    0 => {
                        for v in vals.iter().take(6) {
                            be16(&mut body, *v as u16);
                        }
                    }
                    1 => {
                        be16(&mut body, vals[0] as u16);
                        be16(&mut body, vals[1] as u16);
                        be16(&mut body, vals[2] as u16); // r0 (UFWORD)
                        be16(&mut body, vals[3] as u16);
                        be16(&mut body, vals[4] as u16);
                        be16(&mut body, vals[5] as u16); // r1
                    }
                    _ => {
                        be16(&mut body, vals[0] as u16);
                        be16(&mut body, vals[1] as u16);
                        be16(&mut body, vals[2] as u16);
                        be16(&mut body, vals[3] as u16);
                    }
                }
                if *var {
                    be32(&mut body, pool(i));
                }
                body.push(*extend);
                let ns = *stops as usize % 5;
                be16(&mut body, ns as u16);
                for s in 0..ns {
                    be16(&mut body, (vals[s % 6].wrapping_mul(37).wrapping_add(s as i16 * 4096)) as u16);
                    be16(&mut body, (s as u16) % 3);
                    be16(&mut body, 0x4000);
                    if *var {
                        be32(&mut body, pool(i + s + 1));
                    }
                }
            }
            Node::Glyph { child, direct, gid } => {
                body.push(10);
                let o = child_off(*child, *direct, &mut wrappers);
                be24(&mut body, o);
                be16(&mut body, *gid);
            }
            Node::ColrGlyph { gid } => {
                body.push(11);
                be16(&mut body, *gid);
            }
            Node::Xform { fmt, var, child, direct, vals } => {
                let f = fmt % 10;
                body.push(12 + 2 * f + *var as u8);
                let o = child_off(*child, *direct, &mut wrappers);
                be24(&mut body, o);
                match f {
                    0 => {
                        be24(&mut body, 7); // Affine2x3 right behind
                        for k in 0..6 {
                            be32(&mut body, ((vals[k % 4] as i32) << 8) as u32);
                        }
                    }
                    1 | 2 | 8 => {
                        be16(&mut body, vals[0] as u16);
                        be16(&mut body, vals[1] as u16);
                    }
                    3 | 9 => {
                        for v in vals {
                            be16(&mut body, *v as u16);
                        }
                    }
                    4 | 6 => be16(&mut body, vals[0] as u16),
                    _ => {
                        be16(&mut body, vals[0] as u16);
                        be16(&mut body, vals[1] as u16);
                        be16(&mut body, vals[2] as u16);
                    }
                }
                if *var {
                    be32(&mut body, pool(i));
                }
            }
            Node::Composite { src, src_direct, mode, backdrop, backdrop_direct } => {
                body.push(32);
                let o = child_off(*src, *src_direct, &mut wrappers);
                be24(&mut body, o);
                body.push(*mode);
                let o = child_off(*backdrop, *backdrop_direct, &mut wrappers);
                be24(&mut body, o);
            }
        }
        debug_assert_eq!(body.len() - start, node_len(nd), "node {i} {nd:?}");
    }
    let clip_off = wrappers_off + wrappers.len();
    let mut clip = vec![];
    let mut clips = c.clips.clone();
    clips.sort();
    if !clips.is_empty() {
        clip.push(1u8);
        be32(&mut clip, clips.len() as u32);
        let boxes_at = 5 + 7 * clips.len();
        let mut boxes = vec![];
        for (s, e, var) in &clips {
            be16(&mut clip, *s);
            be16(&mut clip, *e);
            be24(&mut clip, (boxes_at + boxes.len()) as u32);
            boxes.push(1 + *var as u8);
            for v in [0i16, 0, 100, 100] {
                be16(&mut boxes, v as u16);
            }
            if *var {
                be32(&mut boxes, pool(*s as usize));
            }
        }
        clip.extend(boxes);
    }
    let map_off = clip_off + clip.len();
    let mut map = vec![];
    if c.with_index_map {
        // DeltaSetIndexMap format 0: entryFormat (1 byte inner, 1 byte entries), mapCount, entries
        map.push(0u8);
        map.push(0x00 | (0 << 4) | 0x07); // inner bits 8, entry size 1
        be16(&mut map, 8);
        map.extend_from_slice(&[0, 1, 2, 3, 3, 2, 1, 0]);
    }
    let ivs_off = map_off + map.len();
    let mut ivs = vec![];
    let has_var = !c.var_bases.is_empty();
    if has_var {
        be16(&mut ivs, 1);
        be32(&mut ivs, 12); // region list
        be16(&mut ivs, 1);
        be32(&mut ivs, 12 + 4 + 6); // item variation data
        be16(&mut ivs, 1); // axis count
        be16(&mut ivs, 1); // region count
        be16(&mut ivs, 0);
        be16(&mut ivs, 0x4000);
        be16(&mut ivs, 0x4000);
        be16(&mut ivs, 8); // item count
        be16(&mut ivs, 1); // word delta count
        be16(&mut ivs, 1); // region index count
        be16(&mut ivs, 0);
        for k in 0..8i16 {
            be16(&mut ivs, (k * 40 - 100) as u16);
        }
    }
    let mut out = vec![];
    be16(&mut out, if has_v1 || !clips.is_empty() || has_var { 1 } else { 0 });
    be16(&mut out, v0.len() as u16);
    be32(&mut out, if v0.is_empty() { 0 } else { v0_base_off as u32 });
    be32(&mut out, if c.v0_layers.is_empty() { 0 } else { v0_layer_off as u32 });
    be16(&mut out, c.v0_layers.len() as u16);
    be32(&mut out, if has_v1 { bgl_off as u32 } else { 0 });
    be32(&mut out, ll_off as u32);
    be32(&mut out, if clips.is_empty() { 0 } else { clip_off as u32 });
    be32(&mut out, if c.with_index_map { map_off as u32 } else { 0 });
    be32(&mut out, if has_var { ivs_off as u32 } else { 0 });
    for (g, f, k) in &v0 {
        be16(&mut out, *g);
        be16(&mut out, *f);
        be16(&mut out, *k);
    }
    for (g, pal) in &c.v0_layers {
        be16(&mut out, *g);
        be16(&mut out, *pal);
    }
    be32(&mut out, roots.len() as u32);
    for (g, r) in &roots {
        be16(&mut out, *g);
        be32(&mut out, (pos[*r as usize % n] - bgl_off) as u32);
    }
    be32(&mut out, n as u32);
    for p in &pos {
        be32(&mut out, (*p - ll_off) as u32);
    }
    out.extend(body);
    out.extend(wrappers);
    out.extend(clip);
    out.extend(map);
    out.extend(ivs);
    let maxg = roots.iter().map(|r| r.0).chain(v0.iter().map(|r| r.0)).max().unwrap_or(0);
    Assembled { colr: out, num_glyphs: maxg.saturating_add(8) }
}

/// Does a reference cycle exist that is reachable from `root`? (edges: layer ranges, children, ColrGlyph -> root of that gid)
pub fn cycle_reachable(c: &ColrCase, root: usize) -> bool {
    let n = c.nodes.len();
    if n == 0 {
        return false;
    }
    let mut roots = c.roots.clone();
    roots.sort();
    roots.dedup_by_key(|r| r.0);
    let succ = |i: usize| -> Vec<usize> {
        match &c.nodes[i] {
            Node::Layers { first, count, wild } => {
                if *wild {
                    (*first as usize..(*first as usize + *count as usize)).filter(|x| *x < n).collect()
                } else {
                    let f = *first as usize % n;
                    let k = (*count % 4).min((n - f) as u8) as usize;
                    (f..f + k).collect()
                }
            }
            Node::Glyph { child, .. } | Node::Xform { child, .. } => vec![*child as usize % n],
            Node::Composite { src, backdrop, .. } => vec![*src as usize % n, *backdrop as usize % n],
            Node::ColrGlyph { gid } => roots.iter().filter(|r| r.0 == *gid).map(|r| r.1 as usize % n).collect(),
            _ => vec![],
        }
    };
    // iterative DFS with colours
    let mut colour = vec![0u8; n];
    let mut stack: Vec<(usize, Vec<usize>, usize)> = vec![(root % n, succ(root % n), 0)];
    colour[root % n] = 1;
    while let Some((node, ch, k)) = stack.last_mut() {
        if *k < ch.len() {
            let nx = ch[*k];
            *k += 1;
            match colour[nx] {
                1 => return true,
                0 => {
                    colour[nx] = 1;
                    let s = succ(nx);
                    stack.push((nx, s, 0));
                }
                _ => {}
            }
        } else {
            colour[*node] = 2;
            stack.pop();
        }
    }
    false
}

/// Upper bound on the number of paint-node visits skrifa's traversal can make from `root` (stops counting at `cap`).
/// Mirrors the traversal's shape: depth cut at 64, the cycle guard on layer and colour-glyph hops (path-wise), every child
/// of a layer range / composite visited, and the child of a PaintGlyph visited TWICE (the speculative fill-glyph pass plus
/// the regular pass when the speculation fails). Errors only cut walks short, so the real number is never larger.
/// Graphs whose bound exceeds the cap are formally bounded but astronomically long walks (DESIGN.md C13-L): they are
/// left out of the generated stage by construction and counted.
pub fn walk_upper_bound(c: &ColrCase, root: usize, cap: u64) -> u64 {
    let n = c.nodes.len();
    if n == 0 {
        return 0;
    }
    let mut roots = c.roots.clone();
    roots.sort();
    roots.dedup_by_key(|r| r.0);
    // returns (ok, clean): ok = false when the modelled traversal ends in an error (cycle / depth), which ends the whole walk
    // as in skrifa; clean = only transform and fill callbacks were emitted (what the speculative fill-glyph pass tolerates)
    fn go(c: &ColrCase, roots: &[(u16, u8)], i: usize, depth: usize, guarded: &mut Vec<usize>, visits: &mut u64, cap: u64) -> (bool, bool) {
        if *visits > cap || depth >= 64 {
            return (false, true);
        }
        *visits += 1;
        let n = c.nodes.len();
        match &c.nodes[i] {
            Node::Layers { first, count, wild } => {
                let ch: Vec<usize> = if *wild {
                    (*first as usize..(*first as usize + *count as usize)).filter(|x| *x < n).collect()
                } else {
                    let f = *first as usize % n;
                    let k = (*count % 4).min((n - f) as u8) as usize;
                    (f..f + k).collect()
                };
                let mut clean = true;
                for x in ch {
                    if guarded.contains(&x) || guarded.len() >= 64 {
                        return (false, clean);
                    }
                    guarded.push(x);
                    let (ok, cl) = go(c, roots, x, depth + 1, guarded, visits, cap);
                    guarded.pop();
                    clean &= cl;
                    if !ok {
                        return (false, clean);
                    }
                }
                (true, clean)
            }
            Node::Glyph { child, .. } => {
                // speculative fill-glyph pass; the regular pass follows when the speculation saw a clip or layer callback.
                // Either way the node itself emits fill_glyph / push_clip_glyph to its parent: not clean.
                let (ok, clean) = go(c, roots, *child as usize % n, depth + 1, guarded, visits, cap);
                if clean {
                    return (ok, false);
                }
                let (ok2, _) = go(c, roots, *child as usize % n, depth + 1, guarded, visits, cap);
                (ok && ok2, false)
            }
            Node::Xform { child, .. } => go(c, roots, *child as usize % n, depth + 1, guarded, visits, cap),
            Node::Composite { src, backdrop, .. } => {
                let (ok, _) = go(c, roots, *backdrop as usize % n, depth + 1, guarded, visits, cap);
                if !ok {
                    return (false, false);
                }
                (go(c, roots, *src as usize % n, depth + 1, guarded, visits, cap).0, false)
            }
            Node::ColrGlyph { gid } => {
                // (a cached / failing paint_cached_color_glyph answer only shortens the walk; a clip box may be pushed: not clean)
                for r in roots.iter().filter(|r| r.0 == *gid) {
                    let x = n + r.1 as usize % n; // guard key space of base-glyph paints, distinct from layers
                    if guarded.contains(&x) || guarded.len() >= 64 {
                        return (false, false);
                    }
                    guarded.push(x);
                    let (ok, _) = go(c, roots, r.1 as usize % n, depth + 1, guarded, visits, cap);
                    guarded.pop();
                    if !ok {
                        return (false, false);
                    }
                }
                (true, false)
            }
            _ => (true, true),
        }
    }
    let mut visits = 0u64;
    let mut guarded = vec![n + root % n];
    go(c, &roots, root % n, 0, &mut guarded, &mut visits, cap);
    visits
}

// ---------------------------------------------------------------------------------------------
// recording painter

#[derive(Debug, PartialEq, Clone, Copy)]
pub enum K {
    Transform,
    Clip,
    Layer,
}
pub struct Budget;
pub struct Recorder {
    pub stack: Vec<K>,
    pub calls: u64,
    pub budget: u64,
    pub bad: Option<String>,
    pub max_depth: usize,
    pub kinds_pushed: [bool; 3],
    pub script: Vec<u8>,
    pub script_i: usize,
    pub cached_fail_after_push: bool,
}
impl Recorder {
    pub fn new(script: &[u8], budget: u64) -> Self {
        Recorder { stack: vec![], calls: 0, budget, bad: None, max_depth: 0, kinds_pushed: [false; 3], script: script.to_vec(), script_i: 0, cached_fail_after_push: false }
    }
    fn tick(&mut self) {
        self.calls += 1;
        if self.calls > self.budget {
            std::panic::panic_any(Budget);
        }
    }
    fn push(&mut self, k: K) {
        self.tick();
        self.stack.push(k);
        self.kinds_pushed[k as usize] = true;
        self.max_depth = self.max_depth.max(self.stack.len());
    }
    fn pop(&mut self, k: K) {
        self.tick();
        match self.stack.pop() {
            Some(t) if t == k => {}
            other => {
                if self.bad.is_none() {
                    self.bad = Some(format!("pop of {k:?} but the most recent unmatched push is {other:?} (callback #{})", self.calls));
                }
            }
        }
    }
}
impl ColorPainter for Recorder {
    fn push_transform(&mut self, _: Transform) {
        self.push(K::Transform)
    }
    fn pop_transform(&mut self) {
        self.pop(K::Transform)
    }
    fn push_clip_glyph(&mut self, _: GlyphId) {
        self.push(K::Clip)
    }
    fn push_clip_box(&mut self, _: BoundingBox<f32>) {
        self.push(K::Clip)
    }
    fn pop_clip(&mut self) {
        self.pop(K::Clip)
    }
    fn fill(&mut self, _: Brush<'_>) {
        self.tick()
    }
    fn push_layer(&mut self, _: CompositeMode) {
        self.push(K::Layer)
    }
    fn pop_layer(&mut self) {
        self.pop(K::Layer)
    }
    fn paint_cached_color_glyph(&mut self, _: GlyphId) -> Result<PaintCachedColorGlyph, PaintError> {
        let c = self.script.get(self.script_i).copied().unwrap_or(1);
        self.script_i += 1;
        match c % 3 {
            0 => Ok(PaintCachedColorGlyph::Ok),
            1 => Ok(PaintCachedColorGlyph::Unimplemented),
            _ => {
                if !self.stack.is_empty() {
                    self.cached_fail_after_push = true;
                }
                Err(PaintError::GlyphNotFound(GlyphId::new(0)))
            }
        }
    }
}

#[derive(Debug, Default, Clone)]
pub struct PaintStats {
    pub paints: u64,
    pub ok: u64,
    pub err: u64,
    pub budget_exhausted: u64,
    pub deep: u64,
    pub cyclic_err: u64,
    pub cached_fail_after_push: u64,
    pub callbacks: u64,
}

/// Paint `gid` and apply the balance oracle. `expect_err`: the generator knows a cycle is on the traversal path.
pub fn paint_and_check(font: &FontRef, gid: u32, coords: &[F2Dot14], script: &[u8], expect_err: bool, st: &mut PaintStats) -> Result<(), (String, String)> {
    let Some(cg) = font.color_glyphs().get(GlyphId::new(gid)) else { return Ok(()) };
    let mut rec = Recorder::new(script, 300_000);
    st.paints += 1;
    let r = std::panic::catch_unwind(std::panic::AssertUnwindSafe(|| cg.paint(LocationRef::new(coords), &mut rec)));
    st.callbacks += rec.calls;
    match r {
        Err(e) => {
            if e.is::<Budget>() {
                st.budget_exhausted += 1;
                return Ok(());
            }
            std::panic::resume_unwind(e);
        }
        Ok(Ok(())) => {
            st.ok += 1;
            if let Some(b) = rec.bad {
                return Err(("c13|unbalanced-pop".into(), format!("paint of glyph {gid} returned Ok but: {b}")));
            }
            if !rec.stack.is_empty() {
                return Err(("c13|unpopped".into(), format!("paint of glyph {gid} returned Ok with {} pushes never popped: {:?}", rec.stack.len(), rec.stack)));
            }
            if expect_err {
                return Err(("c13|cycle-not-reported".into(), format!("paint of glyph {gid} returned Ok although its paint graph contains a reachable cycle")));
            }
            if rec.max_depth >= 3 && rec.kinds_pushed.iter().filter(|x| **x).count() >= 2 {
                st.deep += 1;
            }
        }
        Ok(Err(_)) => {
            st.err += 1;
            if expect_err {
                st.cyclic_err += 1;
            }
            if rec.cached_fail_after_push {
                st.cached_fail_after_push += 1;
            }
        }
    }
    Ok(())
}
