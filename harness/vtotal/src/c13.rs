//! C13 stages (also run by C20 in the strict profile with `strict = true`).
use crate::colrgen::{self, ColrCase, Node, PaintStats};
use proptest::prelude::*;
use read_fonts::FontRef;
use serde::{Deserialize, Serialize};
use skrifa::raw::types::F2Dot14;
use skrifa::{GlyphId, MetadataProvider};
use vcore::mutate::{havoc_strategy, CorpusIndex, MutCase};
use vcore::*;

fn node_strategy() -> impl Strategy<Value = Node> {
    let vals4 = any::<[i16; 4]>();
    prop_oneof![
        3 => (any::<u8>(), 0u8..5, proptest::bool::weighted(0.05)).prop_map(|(first, count, wild)| Node::Layers { first, count, wild }),
        2 => (any::<bool>(), 0u16..4, prop_oneof![Just(0x4000i16), any::<i16>()]).prop_map(|(var, palette, alpha)| Node::Solid { var, palette, alpha }),
        2 => (0u8..3, any::<bool>(), 0u8..5, 0u8..4, any::<[i16; 6]>()).prop_map(|(kind, var, stops, extend, vals)| Node::Gradient { kind, var, stops, extend, vals }),
        3 => (any::<u8>(), any::<bool>(), 0u16..12).prop_map(|(child, direct, gid)| Node::Glyph { child, direct, gid }),
        2 => (0u16..8).prop_map(|gid| Node::ColrGlyph { gid }),
        5 => (0u8..10, any::<bool>(), any::<u8>(), any::<bool>(), vals4).prop_map(|(fmt, var, child, direct, vals)| Node::Xform { fmt, var, child, direct, vals }),
        2 => (any::<u8>(), any::<bool>(), 0u8..30, any::<u8>(), any::<bool>()).prop_map(|(src, src_direct, mode, backdrop, backdrop_direct)| Node::Composite { src, src_direct, mode, backdrop, backdrop_direct }),
    ]
}

/// forward-biased: children are mostly later nodes (acyclic, deep), some arbitrary (cycles, sharing)
fn forwardize(mut nodes: Vec<Node>, fwd: &[bool]) -> Vec<Node> {
    let n = nodes.len();
    for (i, nd) in nodes.iter_mut().enumerate() {
        let f = fwd.get(i).copied().unwrap_or(true);
        if !f || i + 1 >= n {
            continue;
        }
        let map = |c: u8| -> u8 { (i + 1 + (c as usize % (n - i - 1))) as u8 };
        match nd {
            Node::Layers { first, .. } => *first = map(*first),
            Node::Glyph { child, .. } | Node::Xform { child, .. } => *child = map(*child),
            Node::Composite { src, backdrop, .. } => {
                *src = map(*src);
                *backdrop = map(*backdrop);
            }
            _ => {}
        }
    }
    nodes
}

pub fn colr_strategy() -> impl Strategy<Value = ColrCase> {
    (
        (proptest::collection::vec(node_strategy(), 1..28), proptest::collection::vec(proptest::bool::weighted(0.85), 28)),
        proptest::collection::vec((0u16..8, any::<u8>()), 1..5),
        (proptest::collection::vec((8u16..12, 0u16..6, 0u16..5), 0..3), proptest::collection::vec((0u16..12, 0u16..4), 0..6)),
        proptest::collection::vec((0u16..8, 0u16..10, any::<bool>()), 0..3),
        (proptest::collection::vec(prop_oneof![Just(0xFFFF_FFFFu32), 0u32..8, 0u32..20, any::<u32>()], 0..4), any::<bool>(), proptest::collection::vec(prop_oneof![Just(0i16), Just(0x4000), Just(0x2000), any::<i16>()], 0..3)),
        prop_oneof![3 => Just(vec![]), 2 => proptest::collection::vec(0u8..3, 1..6)],
    )
        .prop_map(|((nodes, fwd), roots, (v0_base, v0_layers), clips, (var_bases, with_index_map, coords), script)| {
            let nodes = forwardize(nodes, &fwd);
            let mut roots = roots;
            roots[0].1 = 0; // at least one root at node 0, so that the forward-biased chain is reachable
            ColrCase { nodes, roots, v0_base, v0_layers, clips: clips.into_iter().map(|(s, e, v)| (s.min(e), s.max(e), v)).collect(), var_bases, with_index_map, coords, script }
        })
}

/// Deep acyclic chains: `depth` nested paints (transforms, glyph clips, composites, single-layer PaintColrLayers) with a
/// PaintColrGlyph hop to a fresh base glyph every `hop` levels (0 = never). "Too-deep paint graphs are reported as
/// errors rather than recursed into": far beyond any documented depth limit (the library's is 64) the paint must fail.
#[derive(Clone, Debug, Serialize, Deserialize)]
pub struct DeepCase {
    pub depth: u8,
    pub hop: u8,
    pub kinds: Vec<u8>,
    pub direct: Vec<bool>,
}

pub fn deep_strategy() -> impl Strategy<Value = DeepCase> {
    (prop_oneof![20u8..60, 60u8..70, 70u8..130, 130u8..=250], prop_oneof![Just(0u8), 2u8..20, 20u8..64, 64u8..80], proptest::collection::vec(0u8..5, 8), proptest::collection::vec(proptest::bool::weighted(0.8), 8))
        .prop_map(|(depth, hop, kinds, direct)| DeepCase { depth, hop, kinds, direct })
}

pub fn deep_to_colr(d: &DeepCase) -> (ColrCase, u64) {
    let n = d.depth as usize;
    let mut nodes: Vec<Node> = Vec::with_capacity(n + 1);
    let mut roots: Vec<(u16, u8)> = vec![(0, 0)];
    let mut levels = 0u64; // paint tables on the single root-to-leaf path
    let mut glyph_nodes = 0;
    for i in 0..n {
        let child = (i + 1) as u8;
        let direct = d.direct[i % d.direct.len()];
        if d.hop > 0 && i > 0 && i % d.hop as usize == 0 {
            let gid = roots.len() as u16;
            roots.push((gid, child));
            nodes.push(Node::ColrGlyph { gid });
            levels += 1;
            continue;
        }
        // PaintGlyph re-traverses its subtree when the fill optimisation fails (2^k work for k nested PaintGlyph,
        // none of it visible to the painter's callback budget): at most 6 of them per chain (DESIGN.md C13-L)
        let mut kind = d.kinds[i % d.kinds.len()];
        if kind == 1 {
            if glyph_nodes >= 6 {
                kind = 0;
            } else {
                glyph_nodes += 1;
            }
        }
        let node = match kind {
            0 => Node::Xform { fmt: (i % 10) as u8, var: false, child, direct, vals: [3, 5, 7, 11] },
            1 => Node::Glyph { child, direct, gid: 1 },
            2 => Node::Composite { src: child, src_direct: direct, mode: 3, backdrop: n as u8, backdrop_direct: true },
            3 => Node::Layers { first: child, count: 1, wild: true },
            _ => Node::Xform { fmt: 1, var: false, child, direct, vals: [1, 1, 0, 0] },
        };
        // a non-direct child goes through an inline PaintColrLayers(1, child) wrapper: one more table on the path
        levels += match &node {
            Node::Layers { .. } => 1,
            _ => 1 + u64::from(!direct),
        };
        nodes.push(node);
    }
    nodes.push(Node::Solid { var: false, palette: 0, alpha: 0x4000 });
    levels += 1;
    (ColrCase { nodes, roots, v0_base: vec![], v0_layers: vec![], clips: vec![], var_bases: vec![], with_index_map: false, coords: vec![], script: vec![] }, levels)
}

pub fn test_deep(d: &DeepCase, stats: &Stats, strict: bool) -> CaseResult {
    let (c, levels) = deep_to_colr(d);
    let bytes = build_font(&c);
    let mut st = PaintStats::default();
    let r = guard::catch(|| -> Result<(), (String, String)> {
        let font = FontRef::new(&bytes).map_err(|e| ("c13|harness-font".to_string(), format!("generated font does not open: {e}")))?;
        let before_ok = st.ok;
        colrgen::paint_and_check(&font, 0, &[], &[], false, &mut st)?;
        let painted_ok = st.ok > before_ok;
        // the path from the root holds at least d.depth paint tables; the library documents a depth limit of 64
        if painted_ok && d.depth >= 130 {
            return Err(("c13|too-deep-not-reported".into(), format!("a paint graph nesting {} paint tables ({} counting layer wrappers) under one colour glyph painted successfully: too-deep graphs must be reported as errors, not recursed into", d.depth, levels)));
        }
        if painted_ok {
            stats.class("deep_chain_painted_ok");
        } else {
            stats.class("deep_chain_err");
        }
        Ok(())
    });
    if d.depth >= 130 {
        stats.nontrivial(hash_json(d));
    }
    stats.class(if d.hop == 0 { "deep_chain_without_glyph_hops" } else { "deep_chain_with_glyph_hops" });
    note(stats, &st, hash_json(d) ^ 7);
    fail_of(strict, r, stats)
}

pub fn build_font(c: &ColrCase) -> Vec<u8> {
    let a = colrgen::assemble(c);
    let kit = fontkit::Kit { num_glyphs: a.num_glyphs.max(16), upem: 1000, extra: vec![(*b"COLR", a.colr)], ..Default::default() };
    kit.build()
}

fn fail_of(strict: bool, r: Result<Result<(), (String, String)>, guard::PanicInfo>, stats: &Stats) -> CaseResult {
    match r {
        Ok(Ok(())) => Ok(()),
        Ok(Err((sig, msg))) => {
            if strict {
                Ok(())
            } else {
                Err(Fail::new(sig, msg))
            }
        }
        Err(p) => {
            if strict && !p.is_overflow_or_assert() {
                stats.class(&format!("non_overflow_panic_ignored(strict):{}", guard::rel_file(&p.file)));
                return Ok(());
            }
            Err(Fail::from_panic(&p))
        }
    }
}

fn note(stats: &Stats, st: &PaintStats, h: u64) {
    stats.class_n("paints", st.paints);
    stats.class_n("paints_ok", st.ok);
    stats.class_n("paints_err", st.err);
    stats.class_n("paint_budget_exhausted", st.budget_exhausted);
    stats.class_n("ok_paints_with>=3_nested_pushes_of>=2_kinds", st.deep);
    stats.class_n("cyclic_graph_reported_as_err", st.cyclic_err);
    stats.class_n("cached_glyph_callback_failed_after_a_push", st.cached_fail_after_push);
    stats.class_n("callbacks", st.callbacks);
    if st.deep > 0 || st.cyclic_err > 0 || st.cached_fail_after_push > 0 {
        stats.nontrivial(h);
    }
}

/// cap on the modelled number of paint-node visits per root in the generated stage (see `colrgen::walk_upper_bound`)
const WALK_CAP: u64 = 300_000;

pub fn test_generated(c: &ColrCase, stats: &Stats, strict: bool) -> CaseResult {
    let bytes = build_font(c);
    let mut st = PaintStats::default();
    let r = guard::catch(|| -> Result<(), (String, String)> {
        let font = FontRef::new(&bytes).map_err(|e| ("c13|harness-font".to_string(), format!("generated font does not open: {e}")))?;
        let coords: Vec<F2Dot14> = c.coords.iter().map(|b| F2Dot14::from_bits(*b)).collect();
        let mut roots = c.roots.clone();
        roots.sort();
        roots.dedup_by_key(|r| r.0);
        let all_unimplemented = c.script.iter().all(|s| s % 3 == 1);
        for (gid, root) in &roots {
            let cyclic = colrgen::cycle_reachable(c, *root as usize);
            if cyclic {
                stats.class("root_with_reachable_cycle");
            }
            // formally bounded but astronomically long walks (fan-out / doubled PaintGlyph children to depth 64) are not
            // violations under DESIGN.md C13-L and cannot be watched by the painter's callback budget: left out, counted
            if colrgen::walk_upper_bound(c, *root as usize, WALK_CAP) > WALK_CAP {
                stats.class("excluded_by_construction:walk_bound_above_cap");
                continue;
            }
            colrgen::paint_and_check(&font, *gid as u32, &coords, &c.script, cyclic && all_unimplemented, &mut st)?;
            // bounding box must not panic either
            if let Some(cg) = font.color_glyphs().get(GlyphId::new(*gid as u32)) {
                let _ = cg.bounding_box(skrifa::prelude::LocationRef::new(&coords), skrifa::prelude::Size::new(16.0));
            }
        }
        for (gid, _, _) in &c.v0_base {
            colrgen::paint_and_check(&font, *gid as u32, &coords, &c.script, false, &mut st)?;
        }
        Ok(())
    });
    let h = hash_json(c);
    note(stats, &st, h);
    if stats.want_sample() && st.deep > 0 && h % 64 == 0 {
        stats.sample(serde_json::json!({"colr_case": c, "paints": st.paints, "ok": st.ok, "err": st.err, "callbacks": st.callbacks}));
    }
    fail_of(strict, r, stats)
}

#[derive(Clone, Debug, Serialize, Deserialize)]
pub struct ByteCase {
    pub m: MutCase,
    pub coords: Vec<i16>,
    pub script: Vec<u8>,
}

pub fn colr_corpus() -> CorpusIndex {
    let fonts: Vec<_> = corpus::all_fonts().into_iter().filter(|f| FontRef::new(&f.data).map(|r| r.table_data(read_fonts::types::Tag::new(b"COLR")).is_some()).unwrap_or(false)).collect();
    CorpusIndex::new(&fonts)
}

pub fn test_bytes(ix: &CorpusIndex, c: &ByteCase, stats: &Stats, strict: bool) -> CaseResult {
    let Some((bytes, _)) = ix.materialize(&c.m) else { return Ok(()) };
    let mut st = PaintStats::default();
    let r = guard::catch(|| -> Result<(), (String, String)> {
        let Ok(font) = FontRef::new(&bytes) else { return Ok(()) };
        let coords: Vec<F2Dot14> = c.coords.iter().map(|b| F2Dot14::from_bits(*b)).collect();
        let n = font.glyph_metrics(skrifa::prelude::Size::unscaled(), skrifa::prelude::LocationRef::default()).glyph_count().min(400);
        for gid in 0..n {
            colrgen::paint_and_check(&font, gid, &coords, &c.script, false, &mut st)?;
        }
        Ok(())
    });
    note(stats, &st, hash_json(c));
    fail_of(strict, r, stats)
}

pub fn stages(ctx: &Ctx, strict: bool) {
    ctx.prop_stage("generated-graphs", Isolation::Procs, ctx.n(1_000_000, 10_000_000), colr_strategy, |c, s| test_generated(c, s, strict));
    ctx.prop_stage("deep-chains", Isolation::Procs, ctx.n(40_000, 400_000), deep_strategy, |c, s| test_deep(c, s, strict));
    let ix = colr_corpus();
    // corpus COLR fonts unmutated, then COLR/CPAL/glyf table havoc
    let plain: Vec<ByteCase> = ix.fonts.iter().map(|f| ByteCase { m: MutCase { font: f.name.clone(), table: "FILE".into(), edits: vec![] }, coords: vec![], script: vec![] }).collect();
    ctx.index_stage("corpus-colr-unmutated", Isolation::Procs, plain.len() as u64, |i| plain[i as usize].clone(), |c, s| test_bytes(&ix, c, s, strict));
    let targets: Vec<(String, String)> = ix.fonts.iter().flat_map(|f| f.tables.iter().filter(|t| &t.0 == b"COLR").map(|t| (f.name.clone(), mutate::tag_str(&t.0))).collect::<Vec<_>>()).collect();
    let strat = || {
        (
            proptest::sample::select(targets.clone()),
            proptest::collection::vec(mutate::edit_strategy(), 1..6),
            proptest::collection::vec(prop_oneof![Just(0i16), Just(0x4000), any::<i16>()], 0..3),
            proptest::collection::vec(0u8..3, 0..4),
        )
            .prop_map(|((font, table), edits, coords, script)| ByteCase { m: MutCase { font, table, edits }, coords, script })
    };
    ctx.prop_stage("corpus-colr-havoc", Isolation::Procs, ctx.n(20_000, 200_000), strat, |c, s| test_bytes(&ix, c, s, strict));
    let _ = havoc_strategy; // (whole-font havoc on COLR fonts is covered by C02)
    // replays of inputs found by the coverage-guided target c13_colr
    ctx.index_stage("colr-raw", Isolation::Threads, 0, |_| RawColr { colr_hex: String::new(), ctl: [0; 8] }, |c: &RawColr, _s| {
        let d: Vec<u8> = (0..c.colr_hex.len() / 2).filter_map(|i| u8::from_str_radix(c.colr_hex.get(2 * i..2 * i + 2)?, 16).ok()).collect();
        let d = if c.colr_hex.starts_with("hex:") { (0..(c.colr_hex.len() - 4) / 2).filter_map(|i| u8::from_str_radix(c.colr_hex.get(4 + 2 * i..6 + 2 * i)?, 16).ok()).collect() } else { d };
        fail_of(strict, guard::catch(|| paint_raw_colr(&d, &c.ctl)), _s)
    });
}

#[derive(Clone, Debug, Serialize, Deserialize)]
pub struct RawColr {
    pub colr_hex: String,
    pub ctl: [u8; 8],
}

/// raw COLR bytes (coverage-guided target / its replays): paint glyphs 0..24 with the balance oracle
pub fn paint_raw_colr(colr: &[u8], ctl: &[u8; 8]) -> Result<(), (String, String)> {
    let kit = fontkit::Kit { num_glyphs: 0xFFFF, upem: 1000, extra: vec![(*b"COLR", colr.to_vec())], ..Default::default() };
    let bytes = kit.build();
    let Ok(font) = FontRef::new(&bytes) else { return Ok(()) };
    // glyph ids to paint: the first ids listed by the table itself (v0 records and v1 base glyph list) + a few fixed ones
    let mut gids: Vec<u32> = (0..6).collect();
    {
        use read_fonts::TableProvider;
        if let Ok(t) = font.colr() {
            if let Some(Ok(recs)) = t.base_glyph_records() {
                gids.extend(recs.iter().take(24).map(|r| r.glyph_id().to_u32()));
            }
            if let Some(Ok(list)) = t.base_glyph_list() {
                gids.extend(list.base_glyph_paint_records().iter().take(24).map(|r| r.glyph_id().to_u32()));
            }
        }
    }
    gids.sort();
    gids.dedup();
    let coords: Vec<F2Dot14> = (0..(ctl[0] % 3) as usize).map(|i| F2Dot14::from_bits(i16::from_be_bytes([ctl[1 + i], ctl[2 + i]]))).collect();
    let script: Vec<u8> = ctl[4..8].iter().take((ctl[3] % 5) as usize).copied().collect();
    let mut st = PaintStats::default();
    for gid in gids {
        colrgen::paint_and_check(&font, gid, &coords, &script, false, &mut st)?;
    }
    Ok(())
}
