//! C01 stages (also run by C20 in the strict profile with `strict = true`).
use crate::observe::{self, Dig};
use proptest::prelude::*;
use serde::{Deserialize, Serialize};
use vcore::mutate::{havoc_strategy, str_tag, CorpusIndex, MutCase};
use vcore::*;

#[derive(Clone, Debug, Serialize, Deserialize)]
pub struct Case {
    pub m: MutCase,
    pub ctl: [u8; 16],
    /// 0: whole file through FileRef/FontRef + TableProvider; 1: mutated table payload read directly as table types
    pub mode: u8,
}

pub fn corpus_index() -> CorpusIndex {
    // mutation targets: every repo font + the two smaller vendored ones (per-case cost stays bounded)
    let fonts: Vec<_> = corpus::all_fonts().into_iter().filter(|f| f.data.len() <= 400_000).collect();
    CorpusIndex::new(&fonts)
}

fn run_observer(c: &Case, bytes: &[u8], payload: &[u8]) -> Dig {
    if c.mode == 0 {
        observe::observe_file(bytes, &c.ctl)
    } else {
        observe::observe_payload(&str_tag(&c.m.table), payload, &c.ctl)
    }
}

pub fn test_case(ix: &CorpusIndex, c: &Case, stats: &Stats, strict: bool) -> CaseResult {
    let Some((bytes, payload)) = ix.materialize(&c.m) else {
        stats.class("unmaterializable");
        return Ok(());
    };
    let d = match guard::catch(|| run_observer(c, &bytes, &payload)) {
        Ok(d) => d,
        Err(p) => {
            if strict && !p.is_overflow_or_assert() {
                stats.class(&format!("non_overflow_panic_ignored(strict):{}", guard::rel_file(&p.file)));
                return Ok(());
            }
            return Err(Fail::from_panic(&p));
        }
    };
    stats.class(if c.mode == 0 { "mode=file" } else { "mode=payload" });
    if d.budget_exhausted > 0 {
        stats.class("budget_exhausted");
    }
    let opened = d.fields > 4;
    if opened {
        stats.class("opened");
    }
    let h = hash_json(c);
    if opened && d.errs > 0 {
        stats.class("on_validation_boundary");
        stats.nontrivial(h);
        if stats.want_sample() && h % 64 == 0 {
            stats.sample(serde_json::json!({"case": c, "fields_digested": d.fields, "errors_below_root": d.errs}));
        }
    }
    // purity: same bytes => same observations, on every call, wherever the bytes sit, on every thread
    if !strict && h % 8 == 0 {
        stats.class("purity_checked");
        if d.fields >= 100 {
            stats.nontrivial(h ^ 1);
        }
        let again = run_observer(c, &bytes, &payload);
        if again.h != d.h {
            return Err(Fail::new("c01|impure|repeat", format!("digest differs between two calls on the same buffer: {:x} vs {:x}", d.h, again.h)));
        }
        for off in 1..4usize {
            let mut sb = vec![0xA5u8; bytes.len() + off];
            sb[off..].copy_from_slice(&bytes);
            let mut sp = vec![0x5Au8; payload.len() + off];
            sp[off..].copy_from_slice(&payload);
            let moved = run_observer(c, &sb[off..], &sp[off..]);
            if moved.h != d.h {
                return Err(Fail::new("c01|impure|placement", format!("digest differs when the bytes sit at offset {off} of an allocation: {:x} vs {:x}", d.h, moved.h)));
            }
        }
        let other = std::thread::scope(|s| s.spawn(|| guard::catch(|| run_observer(c, &bytes, &payload))).join());
        match other {
            Ok(Ok(o)) => {
                if o.h != d.h {
                    return Err(Fail::new("c01|impure|thread", format!("digest differs on another thread: {:x} vs {:x}", d.h, o.h)));
                }
            }
            Ok(Err(p)) => return Err(Fail::from_panic(&p)),
            Err(_) => return Err(Fail::new("c01|impure|thread-panic", "observer panicked on the second thread only")),
        }
    }
    Ok(())
}

pub fn ctl_of(i: u64) -> [u8; 16] {
    let mut c = [0u8; 16];
    let a = mix(i, 0x51);
    let b = mix(i, 0x52);
    c[..8].copy_from_slice(&a.to_le_bytes());
    c[8..].copy_from_slice(&b.to_le_bytes());
    c
}

/// A generated `cvar` tuple variation store (well formed, hostile values): accumulation over several tuples active at
/// the same location with word deltas at the type limits, explicit and all-points point numbers.
#[derive(Clone, Debug, Serialize, Deserialize)]
pub struct CvarCase {
    pub axis_count: u8,
    /// (peak per axis as F2Dot14 bits, explicit cvt indices or None = all, deltas)
    pub tuples: Vec<(Vec<i16>, Option<Vec<u8>>, Vec<i16>)>,
    pub coords: Vec<i16>,
    pub cvt_len: u8,
}

pub fn cvar_bytes(c: &CvarCase) -> Vec<u8> {
    let ac = c.axis_count.clamp(1, 4) as usize;
    let mut headers = vec![];
    let mut data = vec![];
    for (peak, points, deltas) in c.tuples.iter().take(8) {
        let mut d = vec![];
        let n = match points {
            Some(p) => {
                let p: Vec<u8> = p.iter().take(60).copied().collect();
                // packed point numbers: count, then one run of byte-sized *differences*
                d.push(p.len() as u8);
                if !p.is_empty() {
                    d.push(p.len() as u8 - 1);
                    let mut sorted = p.clone();
                    sorted.sort();
                    let mut last = 0u8;
                    for x in &sorted {
                        d.push(x - last);
                        last = *x;
                    }
                }
                p.len()
            }
            None => {
                d.push(0); // all points
                c.cvt_len as usize
            }
        };
        // packed deltas: runs of at most 64 words
        let vals: Vec<i16> = (0..n).map(|i| if deltas.is_empty() { 0 } else { deltas[i % deltas.len()] }).collect();
        for chunk in vals.chunks(64) {
            d.push(0x40 | (chunk.len() as u8 - 1));
            for v in chunk {
                d.extend_from_slice(&v.to_be_bytes());
            }
        }
        headers.extend_from_slice(&(d.len() as u16).to_be_bytes());
        headers.extend_from_slice(&[0xA0, 0x00]); // EMBEDDED_PEAK_TUPLE | PRIVATE_POINT_NUMBERS
        for a in 0..ac {
            headers.extend_from_slice(&peak.get(a).copied().unwrap_or(0x4000).to_be_bytes());
        }
        data.extend(d);
    }
    let count = c.tuples.len().min(8) as u16;
    let mut t = vec![0, 1, 0, 0];
    t.extend_from_slice(&count.to_be_bytes());
    t.extend_from_slice(&((8 + headers.len()) as u16).to_be_bytes());
    t.extend(headers);
    t.extend(data);
    t
}

pub fn test_cvar(c: &CvarCase, stats: &Stats, strict: bool) -> CaseResult {
    use read_fonts::{tables::cvar::Cvar, types::F2Dot14, FontData, FontRead};
    let bytes = cvar_bytes(c);
    let r = guard::catch(|| {
        let Ok(cvar) = Cvar::read(FontData::new(&bytes)) else { return (false, 0u64) };
        let coords: Vec<F2Dot14> = c.coords.iter().map(|b| F2Dot14::from_bits(*b)).collect();
        let mut out = vec![0i32; c.cvt_len as usize];
        let ok = cvar.deltas(c.axis_count.clamp(1, 4) as u16, &coords, &mut out).is_ok();
        let mut n = 0u64;
        if let Ok(vd) = cvar.variation_data(c.axis_count.clamp(1, 4) as u16) {
            for t in vd.tuples().take(16) {
                n += t.deltas().take(1000).count() as u64;
                let _ = t.compute_scalar(&coords);
            }
        }
        (ok, n)
    });
    match r {
        Ok((ok, n)) => {
            if ok && n > 0 && c.tuples.len() >= 2 {
                stats.nontrivial(hash_json(c));
            }
            Ok(())
        }
        Err(p) => {
            if strict && !p.is_overflow_or_assert() {
                return Ok(());
            }
            Err(Fail::from_panic(&p))
        }
    }
}

fn cvar_strategy() -> impl Strategy<Value = CvarCase> {
    let coord = || prop_oneof![Just(0x4000i16), Just(-0x4000), Just(0x2000), Just(0), any::<i16>()];
    let delta = || prop_oneof![Just(i16::MAX), Just(i16::MIN), Just(0i16), Just(1), Just(-1), any::<i16>()];
    (
        1u8..4,
        proptest::collection::vec((proptest::collection::vec(coord(), 1..4), proptest::option::of(proptest::collection::vec(0u8..12, 1..6)), proptest::collection::vec(delta(), 1..5)), 1..6),
        proptest::collection::vec(coord(), 0..5),
        1u8..16,
    )
        .prop_map(|(axis_count, tuples, coords, cvt_len)| CvarCase { axis_count, tuples, coords, cvt_len })
}

pub fn stages(ctx: &Ctx, strict: bool) {
    let ix = corpus_index();
    let q = ctx.quick();
    // (0) unmutated corpus, both modes
    let mut plain: Vec<Case> = vec![];
    for f in &ix.fonts {
        plain.push(Case { m: MutCase { font: f.name.clone(), table: "FILE".into(), edits: vec![] }, ctl: ctl_of(plain.len() as u64), mode: 0 });
        for (t, _) in &f.tables {
            plain.push(Case { m: MutCase { font: f.name.clone(), table: mutate::tag_str(t), edits: vec![] }, ctl: ctl_of(plain.len() as u64), mode: 1 });
        }
    }
    ctx.index_stage("unmutated", Isolation::Procs, plain.len() as u64, |i| plain[i as usize].clone(), |c, s| test_case(&ix, c, s, strict));

    // (a) truncation sweep
    let trunc = ix.truncation_sweep(if q { 160 } else { 600 }, 300_000);
    ctx.index_stage(
        "truncation-sweep",
        Isolation::Procs,
        trunc.len() as u64,
        |i| Case { m: trunc[i as usize].clone(), ctl: ctl_of(i), mode: (i % 3 == 2) as u8 },
        |c, s| test_case(&ix, c, s, strict),
    );
    // (b) field sweep
    let fields = ix.field_sweep(if q { 256 } else { 768 }, 300_000, if q { 6 } else { 1 });
    ctx.index_stage(
        "field-sweep",
        Isolation::Procs,
        fields.len() as u64,
        |i| Case { m: fields[i as usize].clone(), ctl: ctl_of(i), mode: (i % 3 == 2) as u8 },
        |c, s| test_case(&ix, c, s, strict),
    );
    // (c) havoc, file mode and payload mode (payload mode cross-reads bytes as arbitrary table types with generated args)
    let strat = || (havoc_strategy(&ix, 300_000, 8), any::<[u8; 16]>(), prop_oneof![2 => Just(0u8), 1 => Just(1u8)]).prop_map(|(m, ctl, mode)| Case { m, ctl, mode });
    ctx.prop_stage("cvar-generated", Isolation::Procs, ctx.n(60_000, 600_000), cvar_strategy, |c, s| test_cvar(c, s, strict));
    crate::raregen::stage(ctx, strict);
    ctx.prop_stage("havoc", Isolation::Procs, ctx.n(30_000, 200_000), strat, |c, s| test_case(&ix, c, s, strict));
}
