//! Generated TrueType bytecode (for prep / fpgm replacement): pushes of boundary values and an opcode mix biased to
//! control flow, stack arithmetic, delta / loop-driven instructions and zone selection (twilight zone).
use proptest::prelude::*;
use serde::{Deserialize, Serialize};

#[derive(Clone, Debug, Serialize, Deserialize, PartialEq)]
pub enum Ins {
    Push(Vec<i16>),
    Op(u8),
    /// build a large value on the stack without large literals: PUSHW a, DUP, MUL, PUSHW b, MUL (26.6 arithmetic)
    Big(i16, i16),
    /// a count-driven instruction (DELTAP/DELTAC 1-3, LOOPCALL, SLOOP + a loop-consuming op) fed with a huge or
    /// boundary count: runaway work inside ONE instruction is not seen by the interpreter's instruction budget
    Counted { op: u8, big: Option<(i16, i16)>, count: i16 },
    /// a short block repeated (unrolled) `reps` times
    Repeat(Vec<Ins>, u8),
}

pub fn encode(prog: &[Ins]) -> Vec<u8> {
    let mut out = vec![];
    for i in prog {
        match i {
            Ins::Op(b) => out.push(*b),
            Ins::Push(v) => {
                if v.is_empty() {
                    continue;
                }
                if v.iter().all(|x| (0..=255).contains(x)) {
                    if v.len() <= 8 {
                        out.push(0xB0 + (v.len() as u8 - 1));
                    } else {
                        out.push(0x40);
                        out.push(v.len().min(255) as u8);
                    }
                    out.extend(v.iter().take(255).map(|x| *x as u8));
                } else {
                    if v.len() <= 8 {
                        out.push(0xB8 + (v.len() as u8 - 1));
                    } else {
                        out.push(0x41);
                        out.push(v.len().min(255) as u8);
                    }
                    for x in v.iter().take(255) {
                        out.extend_from_slice(&x.to_be_bytes());
                    }
                }
            }
            Ins::Counted { op, big, count } => {
                match big {
                    Some((a, b)) => out.extend(encode(&[Ins::Big(*a, *b)])),
                    None => out.extend(encode(&[Ins::Push(vec![*count])])),
                }
                match op % 9 {
                    0 => out.push(0x5D),                   // DELTAP1
                    1 => out.push(0x71),                   // DELTAP2
                    2 => out.push(0x72),                   // DELTAP3
                    3 => out.push(0x73),                   // DELTAC1
                    4 => out.push(0x74),                   // DELTAC2
                    5 => out.push(0x75),                   // DELTAC3
                    6 => out.extend([0xB0, 0x00, 0x2A]),   // PUSHB 0 (function), LOOPCALL
                    7 => out.extend([0x17, 0x3C]),         // SLOOP, ALIGNRP
                    _ => out.extend([0x17, 0x80]),         // SLOOP, FLIPPT
                }
            }
            Ins::Repeat(block, reps) => {
                let b = encode(block);
                for _ in 0..(*reps).min(64) {
                    if out.len() + b.len() > 60_000 {
                        break;
                    }
                    out.extend_from_slice(&b);
                }
            }
            Ins::Big(a, b) => {
                out.push(0xB8);
                out.extend_from_slice(&a.to_be_bytes());
                out.push(0x20); // DUP
                out.push(0x63); // MUL
                out.push(0xB8);
                out.extend_from_slice(&b.to_be_bytes());
                out.push(0x63); // MUL
            }
        }
    }
    out
}

fn val() -> impl Strategy<Value = i16> {
    prop_oneof![
        4 => 0i16..8,
        2 => prop_oneof![Just(0i16), Just(1), Just(-1), Just(2), Just(64), Just(0x40), Just(255), Just(256), Just(0x1000), Just(0x7FFF), Just(-0x8000), Just(0x4000)],
        1 => any::<i16>(),
    ]
}

fn op() -> impl Strategy<Value = u8> {
    const CURATED: &[u8] = &[
        0x00, 0x01, 0x10, 0x11, 0x12, 0x13, 0x14, 0x15, 0x16, 0x17, 0x18, 0x1A, 0x1B, 0x1C, 0x1D, 0x20, 0x21, 0x22, 0x23, 0x24, 0x25, 0x26, 0x27, 0x29, 0x2A, 0x2B, 0x2C, 0x2D, 0x2E,
        0x2F, 0x30, 0x31, 0x32, 0x33, 0x34, 0x35, 0x36, 0x37, 0x38, 0x39, 0x3A, 0x3B, 0x3C, 0x3E, 0x3F, 0x42, 0x43, 0x44, 0x45, 0x46, 0x47, 0x48, 0x49, 0x4A, 0x4B, 0x4C, 0x50, 0x51,
        0x52, 0x53, 0x54, 0x55, 0x58, 0x59, 0x5A, 0x5B, 0x5C, 0x5D, 0x5E, 0x5F, 0x60, 0x61, 0x62, 0x63, 0x64, 0x65, 0x66, 0x67, 0x68, 0x6C, 0x70, 0x71, 0x72, 0x73, 0x74, 0x75, 0x76,
        0x77, 0x78, 0x79, 0x7A, 0x7E, 0x80, 0x81, 0x82, 0x85, 0x86, 0x87, 0x88, 0x89, 0x8A, 0x8B, 0x8C, 0x8D, 0x8E, 0x91, 0xC0, 0xDF, 0xE0, 0xFF,
    ];
    prop_oneof![6 => proptest::sample::select(CURATED.to_vec()), 1 => any::<u8>()]
}

fn counted() -> impl Strategy<Value = Ins> {
    (0u8..9, proptest::option::weighted(0.5, (prop_oneof![Just(0x7FFFi16), Just(0x4000), any::<i16>()], prop_oneof![Just(0x1000i16), Just(0x7FFF), Just(64)])), prop_oneof![Just(-1i16), Just(0x7FFF), 0i16..8, any::<i16>()])
        .prop_map(|(op, big, count)| Ins::Counted { op, big, count })
}

pub fn program_strategy() -> impl Strategy<Value = Vec<Ins>> {
    let simple = prop_oneof![
        5 => proptest::collection::vec(val(), 1..5).prop_map(Ins::Push),
        8 => op().prop_map(Ins::Op),
        2 => counted(),
    ];
    let ins = prop_oneof![
        2 => counted(),
        1 => (proptest::collection::vec(simple, 1..4), prop_oneof![2u8..8, 32u8..=64]).prop_map(|(b, r)| Ins::Repeat(b, r)),
        5 => proptest::collection::vec(val(), 1..5).prop_map(Ins::Push),
        8 => op().prop_map(Ins::Op),
        1 => (prop_oneof![Just(0x7FFFi16), Just(0x4000), Just(-0x8000), any::<i16>()], prop_oneof![Just(0x1000i16), Just(64), Just(0x7FFF), any::<i16>()]).prop_map(|(a, b)| Ins::Big(a, b)),
    ];
    proptest::collection::vec(ins, 1..40)
}
