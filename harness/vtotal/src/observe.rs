//! C01 observer: everything reachable from a successful read, folded into a digest.
//! (a) generic `traversal::SomeTable::get_field` walk of whole table graphs, (b) the hand-written helper families.
use read_fonts::collections::IntSet;
use read_fonts::tables::layout::{ClassDef, CoverageTable};
use read_fonts::traversal::{FieldType, SomeArray, SomeTable};
use read_fonts::types::{F2Dot14, Fixed, GlyphId, GlyphId16, Tag};
use read_fonts::{FileRef, FontData, FontRead, FontReadWithArgs, FontRef, TableProvider};

pub const IT: usize = 70_000; // cap for library iterators driven by the harness

#[derive(Clone, Debug, Default)]
pub struct Dig {
    pub h: u64,
    /// scalar fields / values folded in
    pub fields: u64,
    /// reads below the root that returned Err, offsets that resolved to an error (validation boundary hits)
    pub errs: u64,
    /// harness budgets that ran out (not a verdict)
    pub budget_exhausted: u64,
}
impl Dig {
    #[inline]
    pub fn u(&mut self, v: u64) {
        self.h = (self.h ^ v).wrapping_mul(0x100000001b3).rotate_left(5);
        self.fields = self.fields.wrapping_add(1);
    }
    #[inline]
    pub fn i(&mut self, v: i64) {
        self.u(v as u64)
    }
    pub fn ok<T, E>(&mut self, r: &Result<T, E>) -> bool {
        match r {
            Ok(_) => {
                self.u(1);
                true
            }
            Err(_) => {
                self.u(2);
                self.errs = self.errs.wrapping_add(1);
                false
            }
        }
    }
    pub fn some<T>(&mut self, r: &Option<T>) -> bool {
        self.u(if r.is_some() { 3 } else { 4 });
        r.is_some()
    }
    pub fn bytes(&mut self, b: &[u8]) {
        self.u(b.len() as u64);
        for c in b.iter().take(64) {
            self.u(*c as u64);
        }
    }
    pub fn count<I: Iterator>(&mut self, it: I) {
        let n = it.take(IT).count();
        if n == IT {
            self.budget_exhausted = self.budget_exhausted.wrapping_add(1);
        }
        self.u(n as u64)
    }
}

pub struct Budget(pub usize);

pub fn walk_field<'a>(f: FieldType<'a>, b: &mut Budget, depth: usize, d: &mut Dig) {
    if b.0 == 0 || depth > 48 {
        d.budget_exhausted = d.budget_exhausted.wrapping_add(1);
        return;
    }
    b.0 -= 1;
    match f {
        FieldType::I8(v) => d.i(v as i64),
        FieldType::U8(v) => d.u(v as u64),
        FieldType::I16(v) => d.i(v as i64),
        FieldType::U16(v) => d.u(v as u64),
        FieldType::I32(v) => d.i(v as i64),
        FieldType::U32(v) => d.u(v as u64),
        FieldType::I24(v) => d.i(i32::from(v) as i64),
        FieldType::U24(v) => d.u(u32::from(v) as u64),
        FieldType::Tag(v) => d.u(u32::from_be_bytes(v.to_be_bytes()) as u64),
        FieldType::FWord(v) => d.i(v.to_i16() as i64),
        FieldType::UfWord(v) => d.u(v.to_u16() as u64),
        FieldType::MajorMinor(v) => d.u(((v.major as u64) << 16) | v.minor as u64),
        FieldType::Version16Dot16(v) => d.u(u32::from_be_bytes(v.to_be_bytes()) as u64),
        FieldType::F2Dot14(v) => d.i(v.to_bits() as i64),
        FieldType::Fixed(v) => d.i(v.to_bits() as i64),
        FieldType::LongDateTime(v) => d.i(v.as_secs()),
        FieldType::GlyphId16(v) => d.u(v.to_u16() as u64),
        FieldType::NameId(v) => d.u(v.to_u16() as u64),
        FieldType::BareOffset(o) => d.u(o.to_u32() as u64),
        FieldType::ResolvedOffset(off) => {
            d.u(off.offset.to_u32() as u64);
            match off.target {
                Ok(t) => walk_table(&*t, b, depth + 1, d),
                Err(_) => {
                    d.u(7);
                    d.errs = d.errs.wrapping_add(1);
                }
            }
        }
        FieldType::ArrayOffset(a) => {
            d.u(a.offset.to_u32() as u64);
            match a.target {
                Ok(a) => walk_array(&*a, b, depth + 1, d),
                Err(_) => {
                    d.u(8);
                    d.errs = d.errs.wrapping_add(1);
                }
            }
        }
        FieldType::StringOffset(s) => {
            d.u(s.offset.to_u32() as u64);
            match s.target {
                Ok(s) => {
                    let mut n = 0u64;
                    for c in s.iter_chars().take(4096) {
                        n = n.wrapping_mul(31).wrapping_add(c as u64);
                    }
                    d.u(n)
                }
                Err(_) => {
                    d.u(9);
                    d.errs = d.errs.wrapping_add(1);
                }
            }
        }
        FieldType::Record(r) => walk_table(&r, b, depth + 1, d),
        FieldType::Array(a) => walk_array(&*a, b, depth + 1, d),
        FieldType::Unknown => d.u(11),
    }
}

pub fn walk_array<'a>(a: &(dyn SomeArray<'a> + 'a), b: &mut Budget, depth: usize, d: &mut Dig) {
    let len = a.len();
    d.u(len as u64);
    let mut i = 0;
    while let Some(item) = a.get(i) {
        if b.0 == 0 {
            d.budget_exhausted = d.budget_exhausted.wrapping_add(1);
            return;
        }
        walk_field(item, b, depth, d);
        i += 1;
        if i >= 4096 {
            // long arrays: sample the tail as well, then stop
            if len > 4096 {
                for j in [len - 1, len / 2, len] {
                    if let Some(item) = a.get(j) {
                        walk_field(item, b, depth, d);
                    }
                }
            }
            break;
        }
    }
}

pub fn walk_table<'a>(t: &(dyn SomeTable<'a> + 'a), b: &mut Budget, depth: usize, d: &mut Dig) {
    let mut i = 0;
    while let Some(f) = t.get_field(i) {
        if b.0 == 0 {
            d.budget_exhausted = d.budget_exhausted.wrapping_add(1);
            return;
        }
        walk_field(f.value, b, depth, d);
        i += 1;
        if i > 100_000 {
            break;
        }
    }
    d.u(i as u64);
}

pub const NODE_BUDGET: usize = 30_000;

fn walk_top<'a, T: SomeTable<'a> + 'a>(r: Result<T, read_fonts::ReadError>, d: &mut Dig) {
    match r {
        Ok(t) => {
            d.u(1);
            let mut b = Budget(NODE_BUDGET);
            walk_table(&t, &mut b, 0, d);
        }
        Err(_) => d.u(2),
    }
}

macro_rules! walk_all {
    ($font:expr, $d:expr, $($m:ident),* $(,)?) => { $( walk_top($font.$m(), $d); )* }
}

// ---------------------------------------------------------------------------------------------
// external arguments derived from the control block

#[derive(Clone, Debug)]
pub struct Ext {
    pub gids: Vec<u32>,
    pub coords: Vec<F2Dot14>,
    pub cps: Vec<u32>,
    pub ctl: [u8; 16],
}

pub fn ext_from(ctl: &[u8; 16], nglyphs: u32, axis_count: usize) -> Ext {
    let g0 = u16::from_be_bytes([ctl[0], ctl[1]]) as u32;
    let mut gids: Vec<u32> = (0..nglyphs.min(24)).collect();
    gids.extend([g0, nglyphs.saturating_sub(1), nglyphs, nglyphs.wrapping_add(1), 0xFFFE, 0xFFFF, 0x10000, u32::MAX]);
    let ncoords = match ctl[8] % 4 {
        0 => axis_count,
        1 => axis_count.saturating_sub(1),
        2 => axis_count + 2,
        _ => 0,
    }
    .min(64);
    let coords: Vec<F2Dot14> = (0..ncoords)
        .map(|i| {
            let i = i as u8;
            match ctl[9].wrapping_add(i) % 6 {
                0 => F2Dot14::ZERO,
                1 => F2Dot14::ONE,
                2 => F2Dot14::from_bits(-0x4000),
                3 => F2Dot14::from_bits(0x2000),
                _ => F2Dot14::from_bits(i16::from_be_bytes([ctl[2].wrapping_mul(i.wrapping_add(1)), ctl[3].wrapping_add(i.wrapping_mul(37))])),
            }
        })
        .collect();
    let cps = vec![0u32, 0x20, 0x41, 0xFFFE, 0xFFFF, 0x10000, 0x10FFFF, 0x110000, u32::MAX, u16::from_be_bytes([ctl[4], ctl[5]]) as u32, u32::from_be_bytes([0, ctl[5], ctl[6], ctl[7]])];
    Ext { gids, coords, cps, ctl: *ctl }
}

fn cov(c: &CoverageTable, e: &Ext, d: &mut Dig) {
    d.count(c.iter());
    for g in &e.gids {
        let r = c.get(GlyphId::new(*g));
        d.u(r.map(|x| x as u64 + 1).unwrap_or(0));
    }
    let mut s = IntSet::<GlyphId>::empty();
    s.insert(GlyphId::new(3));
    s.insert(GlyphId::new(e.gids[e.gids.len() - 8]));
    d.u(c.intersects(&s) as u64);
}
fn cls(c: &ClassDef, e: &Ext, d: &mut Dig) {
    d.count(c.iter());
    for g in &e.gids {
        d.u(c.get(GlyphId16::new(*g as u16)) as u64);
    }
    d.u(c.population() as u64);
}

/// (b) the hand-written helper families on an opened font
pub fn helpers(font: &FontRef, e: &Ext, d: &mut Dig) {
    // ---- cmap
    if let Ok(cmap) = font.cmap() {
        for cp in &e.cps {
            d.u(cmap.map_codepoint(*cp).map(|g| g.to_u32() as u64 + 1).unwrap_or(0));
        }
        for rec in cmap.encoding_records().iter().take(32) {
            let st = rec.subtable(cmap.offset_data());
            if !d.ok(&st) {
                continue;
            }
            use read_fonts::tables::cmap::CmapSubtable::*;
            let st = st.unwrap();
            d.u(st.language() as u64);
            match st {
                Format4(t) => {
                    let mut n = 0u64;
                    for (cp, g) in t.iter().take(IT) {
                        n = n.wrapping_mul(31).wrapping_add(cp as u64 ^ ((g.to_u32() as u64) << 21));
                    }
                    d.u(n);
                    for cp in &e.cps {
                        d.u(t.map_codepoint(*cp).map(|g| g.to_u32() as u64 + 1).unwrap_or(0));
                    }
                }
                Format12(t) => {
                    let mut n = 0u64;
                    for (cp, g) in t.iter().take(IT) {
                        n = n.wrapping_mul(31).wrapping_add(cp as u64 ^ ((g.to_u32() as u64) << 21));
                    }
                    d.u(n);
                    d.count(t.iter_with_limits(Default::default()));
                    for cp in &e.cps {
                        d.u(t.map_codepoint(*cp).map(|g| g.to_u32() as u64 + 1).unwrap_or(0));
                    }
                }
                Format14(t) => {
                    d.count(t.iter());
                    for cp in &e.cps {
                        let r = t.map_variant(*cp, 0xFE00u32);
                        d.u(match r {
                            None => 0,
                            Some(read_fonts::tables::cmap::MapVariant::UseDefault) => 1,
                            Some(read_fonts::tables::cmap::MapVariant::Variant(g)) => g.to_u32() as u64 + 2,
                        });
                    }
                    let mut u = IntSet::<u32>::empty();
                    u.insert_range(0..=0xFFFF);
                    let mut g = IntSet::<GlyphId>::empty();
                    t.closure_glyphs(&u, &mut g);
                    d.u(g.len());
                }
                _ => {}
            }
        }
        let mut u = IntSet::<u32>::empty();
        u.insert_range(0x20..=0x200);
        u.insert(e.cps[9]);
        let mut g = IntSet::<GlyphId>::empty();
        cmap.closure_glyphs(&u, &mut g);
        d.u(g.len());
    }
    // ---- glyf / loca
    for is_long in [None, Some(false), Some(true)] {
        let (Ok(loca), Ok(glyf)) = (font.loca(is_long), font.glyf()) else { continue };
        d.u(loca.len() as u64);
        d.u(loca.all_offsets_are_ascending() as u64);
        for g in &e.gids {
            let r = loca.get_glyf(GlyphId::new(*g), &glyf);
            if !d.ok(&r) {
                continue;
            }
            use read_fonts::tables::glyf::Glyph::*;
            match r.unwrap() {
                None => d.u(0),
                Some(Simple(s)) => {
                    let n = s.num_points();
                    d.u(n as u64);
                    d.u(s.has_overlapping_contours() as u64);
                    let mut acc = 0u64;
                    for p in s.points().take(IT) {
                        acc = acc.wrapping_mul(31).wrapping_add((p.x as u16 as u64) << 17 ^ (p.y as u16 as u64) << 1 ^ p.on_curve as u64);
                    }
                    d.u(acc);
                    d.bytes(s.instructions());
                    d.u(s.end_pts_of_contours().len() as u64);
                    if n <= IT {
                        let mut pts = vec![read_fonts::types::Point::<i32>::default(); n];
                        let mut fl = vec![Default::default(); n];
                        let r = s.read_points_fast(&mut pts, &mut fl);
                        if d.ok(&r) {
                            let mut acc = 0u64;
                            for p in &pts {
                                acc = acc.wrapping_mul(31).wrapping_add((p.x as u32 as u64) << 20 ^ (p.y as u32 as u64));
                            }
                            d.u(acc);
                        }
                        let mut pts = vec![read_fonts::types::Point::<i32>::default(); n / 2];
                        let mut fl = vec![Default::default(); n / 2];
                        let r = s.read_points_fast(&mut pts, &mut fl);
                        d.ok(&r);
                        let mut ptsf = vec![read_fonts::types::Point::<F26Dot6>::default(); n];
                        let mut fl = vec![Default::default(); n];
                        let r = s.read_points_fast(&mut ptsf, &mut fl);
                        d.ok(&r);
                    }
                }
                Some(Composite(c)) => {
                    let mut acc = 0u64;
                    for comp in c.components().take(IT) {
                        acc = acc.wrapping_mul(31).wrapping_add(comp.glyph.to_u32() as u64 ^ ((comp.flags.bits() as u64) << 16));
                    }
                    d.u(acc);
                    d.count(c.component_glyphs_and_flags());
                    let (n, ins) = c.count_and_instructions();
                    d.u(n as u64);
                    d.some(&ins);
                    d.some(&c.instructions());
                }
            }
        }
    }
    // ---- gvar / cvar
    if let Ok(gvar) = font.gvar() {
        for g in &e.gids {
            let g = GlyphId::new(*g);
            let r = gvar.data_for_gid(g);
            d.ok(&r);
            let r = gvar.glyph_variation_data(g);
            if d.ok(&r) {
                if let Some(vd) = r.unwrap() {
                    for t in vd.tuples().take(300) {
                        d.count(t.peak().values.iter());
                        d.some(&t.compute_scalar(&e.coords));
                        d.some(&t.compute_scalar_f32(&e.coords));
                        d.u(t.has_deltas_for_all_points() as u64);
                        d.count(t.point_numbers());
                        let mut acc = 0u64;
                        let mut n = 0;
                        for dl in t.deltas() {
                            acc = acc.wrapping_mul(31).wrapping_add(dl.position as u64 ^ ((dl.x_delta as u32 as u64) << 16) ^ ((dl.y_delta as u32 as u64) << 40));
                            n += 1;
                            if n >= IT {
                                break;
                            }
                        }
                        d.u(acc);
                    }
                    d.count(vd.active_tuples_at(&e.coords).take(300));
                }
            }
            if let (Ok(glyf), Ok(loca)) = (font.glyf(), font.loca(None)) {
                let r = gvar.phantom_point_deltas(&glyf, &loca, &e.coords, g);
                if d.ok(&r) {
                    if let Some(p) = r.unwrap() {
                        for q in p {
                            d.i(q.x.to_bits() as i64);
                            d.i(q.y.to_bits() as i64);
                        }
                    }
                }
            }
        }
        let n = font.maxp().map(|m| m.num_glyphs()).unwrap_or(0) as usize;
        d.ok(&gvar.glyph_variation_data_for_range(0..n.min(8)));
        d.ok(&gvar.glyph_variation_data_for_range(n.saturating_sub(1)..n + 1));
    }
    if let (Ok(cvar), Ok(fvar)) = (font.cvar(), font.fvar()) {
        let n = font.cvt().map(|c| c.len()).unwrap_or(0).min(IT);
        let mut dl = vec![0i32; n];
        d.ok(&cvar.deltas(fvar.axis_count(), &e.coords, &mut dl));
        for x in dl.iter().take(64) {
            d.i(*x as i64);
        }
        for ac in [fvar.axis_count(), e.ctl[10] as u16, 0, 0xFFFF] {
            if let Ok(vd) = cvar.variation_data(ac) {
                for t in vd.tuples().take(100) {
                    d.count(t.deltas());
                }
            }
        }
    }
    // ---- metrics tables
    if let Ok(h) = font.hmtx() {
        for g in &e.gids {
            d.some(&h.advance(GlyphId::new(*g)));
            d.some(&h.side_bearing(GlyphId::new(*g)));
        }
    }
    if let Ok(h) = font.vmtx() {
        for g in &e.gids {
            d.some(&h.advance(GlyphId::new(*g)));
            d.some(&h.side_bearing(GlyphId::new(*g)));
        }
    }
    if let Ok(h) = font.hvar() {
        for g in &e.gids {
            let g = GlyphId::new(*g);
            let r = h.advance_width_delta(g, &e.coords);
            if d.ok(&r) {
                d.i(r.unwrap().to_bits() as i64);
            }
            d.ok(&h.lsb_delta(g, &e.coords));
            d.ok(&h.rsb_delta(g, &e.coords));
        }
    }
    if let Ok(h) = font.vvar() {
        for g in &e.gids {
            let g = GlyphId::new(*g);
            d.ok(&h.advance_height_delta(g, &e.coords));
            d.ok(&h.tsb_delta(g, &e.coords));
            d.ok(&h.bsb_delta(g, &e.coords));
            d.ok(&h.v_org_delta(g, &e.coords));
        }
    }
    if let Ok(m) = font.mvar() {
        for t in [b"hasc", b"xhgt", b"undo", b"zzzz"] {
            let r = m.metric_delta(Tag::new(t), &e.coords);
            if d.ok(&r) {
                d.i(r.unwrap().to_bits() as i64);
            }
        }
    }
    if let Ok(h) = font.hdmx() {
        d.some(&h.record_for_size(e.ctl[6]));
        for r in h.records().iter().take(64) {
            if let Ok(r) = r {
                d.u(r.pixel_size() as u64);
                d.u(r.widths().len() as u64);
            }
        }
    }
    if let Ok(v) = font.vorg() {
        for g in &e.gids {
            d.i(v.vertical_origin_y(GlyphId::new(*g)) as i64);
        }
    }
    if let Ok(f) = font.fvar() {
        let mut out = vec![F2Dot14::ZERO; (e.ctl[11] % 12) as usize];
        let av = font.avar().ok();
        let user = Fixed::from_bits(i32::from_be_bytes([e.ctl[4], e.ctl[5], e.ctl[6], e.ctl[7]]));
        let tags: Vec<Tag> = f.axes().map(|a| a.iter().take(16).map(|a| a.axis_tag()).collect()).unwrap_or_default();
        let mut sel: Vec<(Tag, Fixed)> = tags.iter().map(|t| (*t, user)).collect();
        sel.push((Tag::new(b"wght"), user));
        sel.push((Tag::new(b"zzzz"), Fixed::MAX));
        f.user_to_normalized(av.as_ref(), sel, &mut out);
        for o in &out {
            d.i(o.to_bits() as i64);
        }
        if let Ok(inst) = f.instances() {
            d.count(inst.iter());
        }
        if let Ok(axes) = f.axes() {
            for a in axes.iter().take(64) {
                for v in [Fixed::MIN, Fixed::MAX, Fixed::ZERO, user, a.min_value(), a.default_value(), a.max_value()] {
                    d.i(a.normalize(v).to_bits() as i64);
                }
            }
        }
    }
    if let Ok(av) = font.avar() {
        for m in av.axis_segment_maps().iter().take(64) {
            if let Ok(m) = m {
                for v in [Fixed::MIN, Fixed::MAX, Fixed::ZERO, Fixed::ONE, Fixed::from_bits(0x8000)] {
                    d.i(m.apply(v).to_bits() as i64);
                }
            }
        }
    }
    // ---- names
    if let Ok(p) = font.post() {
        d.u(p.num_names() as u64);
        for g in &e.gids {
            if let Some(n) = p.glyph_name(GlyphId16::new(*g as u16)) {
                d.bytes(n.as_bytes());
            }
        }
    }
    if let Ok(n) = font.name() {
        for r in n.name_record().iter().take(200) {
            let s = r.string(n.string_data());
            if d.ok(&s) {
                d.count(s.unwrap().chars());
            }
            d.u(r.is_unicode() as u64);
        }
        if let Some(lt) = n.lang_tag_record() {
            for r in lt.iter().take(50) {
                let s = r.lang_tag(n.string_data());
                if d.ok(&s) {
                    d.count(s.unwrap().chars());
                }
            }
        }
    }
    if let Ok(m) = font.meta() {
        for dm in m.data_maps().iter().take(50) {
            d.ok(&dm.data(m.offset_data()));
        }
    }
    if let Ok(l) = font.ltag() {
        d.count(l.tag_indices());
        for i in 0..4 {
            d.some(&l.index_for_tag(["en", "sr-Latn", "", "x"][i]));
        }
    }
    if let Ok(s) = font.stat() {
        if let Some(Ok(av)) = s.offset_to_axis_values() {
            for v in av.axis_values().iter().take(64) {
                d.ok(&v);
            }
        }
    }
    // ---- layout
    if let Ok(gdef) = font.gdef() {
        if let Some(Ok(c)) = gdef.glyph_class_def() {
            cls(&c, e, d);
        }
        if let Some(Ok(c)) = gdef.mark_attach_class_def() {
            cls(&c, e, d);
        }
        if let Some(Ok(l)) = gdef.lig_caret_list() {
            if let Ok(c) = l.coverage() {
                cov(&c, e, d);
            }
        }
        if let Some(Ok(l)) = gdef.attach_list() {
            if let Ok(c) = l.coverage() {
                cov(&c, e, d);
            }
        }
    }
    if let Ok(gsub) = font.gsub() {
        let mut s = IntSet::<GlyphId16>::empty();
        for g in e.gids.iter().take(20) {
            s.insert(GlyphId16::new(*g as u16));
        }
        let r = gsub.closure_glyphs(s);
        if d.ok(&r) {
            d.u(r.unwrap().len());
        }
        let r = gsub.collect_features(&IntSet::all(), &IntSet::all(), &IntSet::all());
        if d.ok(&r) {
            d.u(r.unwrap().len());
        }
        let mut some = IntSet::<Tag>::empty();
        some.insert(Tag::new(b"latn"));
        some.insert(Tag::new(b"DFLT"));
        d.ok(&gsub.collect_features(&some, &IntSet::all(), &some));
        if let Ok(ll) = gsub.lookup_list() {
            for l in ll.lookups().iter().take(64).flatten() {
                use read_fonts::tables::gsub::SubstitutionLookup::*;
                if let Single(l) = l {
                    for st in l.subtables().iter().take(16).flatten() {
                        use read_fonts::tables::gsub::SingleSubst::*;
                        match st {
                            Format1(t) => {
                                if let Ok(c) = t.coverage() {
                                    cov(&c, e, d);
                                }
                            }
                            Format2(t) => {
                                if let Ok(c) = t.coverage() {
                                    cov(&c, e, d);
                                }
                            }
                        }
                    }
                }
            }
        }
    }
    if let Ok(gpos) = font.gpos() {
        if let Ok(ll) = gpos.lookup_list() {
            for l in ll.lookups().iter().take(64).flatten() {
                use read_fonts::tables::gpos::PositionLookup::*;
                match l {
                    Pair(l) => {
                        for st in l.subtables().iter().take(16).flatten() {
                            use read_fonts::tables::gpos::PairPos::*;
                            match st {
                                Format1(t) => {
                                    if let Ok(c) = t.coverage() {
                                        cov(&c, e, d);
                                    }
                                    for ps in t.pair_sets().iter().take(64).flatten() {
                                        for r in ps.pair_value_records().iter().take(256).flatten() {
                                            d.u(r.second_glyph().to_u16() as u64);
                                            d.i(r.value_record1().x_advance().unwrap_or(0) as i64);
                                        }
                                    }
                                }
                                Format2(t) => {
                                    if let Ok(c) = t.coverage() {
                                        cov(&c, e, d);
                                    }
                                    if let Ok(c) = t.class_def1() {
                                        cls(&c, e, d);
                                    }
                                    if let Ok(c) = t.class_def2() {
                                        cls(&c, e, d);
                                    }
                                    for r in t.class1_records().iter().take(64).flatten() {
                                        for r2 in r.class2_records().iter().take(64).flatten() {
                                            d.i(r2.value_record1().x_advance().unwrap_or(0) as i64);
                                        }
                                    }
                                }
                            }
                        }
                    }
                    MarkToBase(l) => {
                        for st in l.subtables().iter().take(16).flatten() {
                            if let Ok(c) = st.mark_coverage() {
                                cov(&c, e, d);
                            }
                            if let Ok(c) = st.base_coverage() {
                                cov(&c, e, d);
                            }
                            if let Ok(b) = st.base_array() {
                                for r in b.base_records().iter().take(64).flatten() {
                                    for a in r.base_anchors(b.offset_data()).iter().take(16) {
                                        d.some(&a);
                                    }
                                }
                            }
                            if let Ok(m) = st.mark_array() {
                                for r in m.mark_records().iter().take(64) {
                                    d.ok(&r.mark_anchor(m.offset_data()));
                                }
                            }
                        }
                    }
                    _ => {}
                }
            }
        }
    }
    // ---- COLR closures
    if let Ok(colr) = font.colr() {
        let mut gs = IntSet::<GlyphId>::empty();
        for g in &e.gids {
            gs.insert(GlyphId::new(*g));
        }
        let mut a = IntSet::empty();
        let mut b = IntSet::empty();
        let mut c = IntSet::empty();
        colr.v1_closure(&mut gs, &mut a, &mut b, &mut c);
        d.u(gs.len());
        d.u(a.len());
        d.u(b.len());
        d.u(c.len());
        let gs2 = gs.clone();
        colr.v0_closure_glyphs(&gs2, &mut gs);
        colr.v0_closure_palette_indices(&gs, &mut b);
        d.u(gs.len());
        d.u(b.len());
        for g in &e.gids {
            let g = GlyphId::new(*g);
            d.ok(&colr.v0_base_glyph(g));
            d.ok(&colr.v1_base_glyph(g));
            d.ok(&colr.v1_clip_box(g));
        }
    }
    // ---- bitmaps
    for g in &e.gids {
        let g = GlyphId::new(*g);
        if let Ok(t) = font.cblc() {
            for sz in t.bitmap_sizes().iter().take(16) {
                let loc = sz.location(t.offset_data(), g);
                if d.ok(&loc) {
                    if let Ok(bd) = font.cbdt() {
                        d.ok(&bd.data(&loc.unwrap()));
                    }
                }
            }
        }
        if let Ok(t) = font.eblc() {
            for sz in t.bitmap_sizes().iter().take(16) {
                let loc = sz.location(t.offset_data(), g);
                if d.ok(&loc) {
                    if let Ok(bd) = font.ebdt() {
                        d.ok(&bd.data(&loc.unwrap()));
                    }
                }
            }
        }
        if let Ok(s) = font.sbix() {
            for st in s.strikes().iter().take(8).flatten() {
                d.ok(&st.glyph_data(g));
            }
        }
        if let Ok(s) = font.svg() {
            d.ok(&s.glyph_data(g));
        }
    }
    // ---- VARC
    if let Ok(v) = font.varc() {
        if let Ok(c) = v.coverage() {
            cov(&c, e, d);
        }
        for i in 0..4 {
            d.ok(&v.axis_indices(i));
            if let Ok(g) = v.glyph(i) {
                for c in g.components().take(64) {
                    d.ok(&c);
                }
            }
        }
        if let Some(Ok(mv)) = v.multi_var_store() {
            let vd = mv.variation_data();
            for dd in vd.iter().take(8).flatten() {
                d.ok(&dd.delta_sets());
                if let Ok(p) = dd.delta_set(0) {
                    d.count(p.iter());
                }
            }
        }
    }
    // ---- CFF / CFF2
    if let Ok(cff) = font.cff() {
        d.u(cff.header().hdr_size() as u64);
        d.u(cff.names().count() as u64);
        for i in 0..2 {
            d.some(&cff.name(i));
            if let Ok(Some(c)) = cff.charset(i) {
                d.u(c.num_glyphs() as u64);
                d.count(c.iter());
                for g in &e.gids {
                    d.ok(&c.string_id(GlyphId::new(*g)));
                }
            }
        }
        let td = cff.top_dicts();
        for i in 0..td.count().min(2) {
            if let Ok(dd) = td.get(i as usize) {
                d.count(read_fonts::tables::postscript::dict::entries(dd, None).take(1000));
            }
        }
        let gs = cff.global_subrs();
        d.u(gs.count() as u64);
        d.u(gs.size_in_bytes().unwrap_or(0) as u64);
        for i in 0..gs.count().min(16) {
            d.ok(&gs.get(i as usize));
        }
        for sid in [0u16, 390, 391, 500, 65535] {
            d.some(&cff.string(read_fonts::tables::postscript::StringId::new(sid)));
        }
    }
    if let Ok(cff2) = font.cff2() {
        d.u(cff2.header().header_size() as u64);
        d.count(read_fonts::tables::postscript::dict::entries(cff2.top_dict_data(), None).take(1000));
        let gs = cff2.global_subrs();
        for i in 0..gs.count().min(16) {
            d.ok(&gs.get(i as usize));
        }
    }
}

use read_fonts::types::F26Dot6;

/// observe one font: generic traversal of every top-level table + helpers
pub fn observe_font(font: &FontRef, ctl: &[u8; 16], d: &mut Dig) {
    for r in font.table_directory.table_records().iter().take(64) {
        d.u(u32::from_be_bytes(r.tag().to_be_bytes()) as u64);
        d.some(&font.table_data(r.tag()));
    }
    walk_all!(
        font, d, head, name, hhea, vhea, hmtx, hdmx, vmtx, vorg, fvar, avar, hvar, vvar, mvar, maxp, os2, post, gasp, glyf, gvar, cvar,
        cmap, gdef, gpos, gsub, feat, ltag, ankr, colr, cpal, cblc, cbdt, eblc, ebdt, sbix, stat, svg, varc, ift, iftx, meta, base
    );
    for l in [None, Some(false), Some(true)] {
        walk_top(font.loca(l), d);
    }
    let nglyphs = font.maxp().map(|m| m.num_glyphs()).unwrap_or(0) as u32;
    let axes = font.fvar().map(|f| f.axis_count()).unwrap_or(0) as usize;
    let e = ext_from(ctl, nglyphs, axes);
    helpers(font, &e, d);
}

/// whole-file observation: file/collection opening, every font (up to 4)
pub fn observe_file(data: &[u8], ctl: &[u8; 16]) -> Dig {
    let mut d = Dig::default();
    let file = FileRef::new(data);
    if !d.ok(&file) {
        return d;
    }
    match file.unwrap() {
        FileRef::Font(f) => observe_font(&f, ctl, &mut d),
        FileRef::Collection(c) => {
            d.u(c.len() as u64);
            for i in [0u32, 1, 2, c.len().saturating_sub(1), c.len(), u32::MAX] {
                let f = c.get(i);
                if d.ok(&f) {
                    observe_font(&f.unwrap(), ctl, &mut d);
                }
            }
        }
    }
    // FontRef::from_index as well
    for i in [0u32, 1, ctl[12] as u32] {
        d.ok(&FontRef::from_index(data, i));
    }
    d
}

// ---------------------------------------------------------------------------------------------
// raw payloads read as individual (sub)table types

macro_rules! plain_dispatch {
    ($($idx:literal => $ty:path,)*) => {
        pub fn read_plain(kind: usize, data: &[u8], d: &mut Dig) -> bool {
            match kind {
                $( $idx => { let r = <$ty as FontRead>::read(FontData::new(data)); let ok = r.is_ok(); walk_top(r, d); ok } )*
                _ => false,
            }
        }
        pub fn plain_type_name(kind: usize) -> &'static str {
            match kind { $( $idx => stringify!($ty), )* _ => "?" }
        }
    };
}
crate::for_each_plain_table_type!(plain_dispatch);
pub use crate::table_types::PLAIN_TABLE_TYPE_COUNT;

fn b16(ctl: &[u8; 16], i: usize, actual: u16) -> u16 {
    // boundary-biased external argument: 0, 1, actual, actual±1, 0xFFFF, raw
    match ctl[i] % 8 {
        0 => 0,
        1 => 1,
        2 | 3 => actual,
        4 => actual.wrapping_sub(1),
        5 => actual.wrapping_add(1),
        6 => 0xFFFF,
        _ => u16::from_be_bytes([ctl[i], ctl[(i + 1) % 16]]),
    }
}

pub const ARG_TYPE_COUNT: usize = 24;

/// payload read with external arguments (derived from `ctl`, biased around `hint`)
pub fn read_with_args(kind: usize, data: &[u8], ctl: &[u8; 16], hint: u16, d: &mut Dig) -> bool {
    use read_fonts::tables::*;
    use read_fonts::types::Uint24;
    let fd = FontData::new(data);
    let a = b16(ctl, 1, hint);
    let b = b16(ctl, 3, hint);
    let c = b16(ctl, 5, 2);
    macro_rules! go {
        ($ty:ty, $args:expr) => {{
            let r = <$ty as FontReadWithArgs>::read_with_args(fd, &$args);
            let ok = r.is_ok();
            walk_top(r, d);
            ok
        }};
    }
    let vf = |x: u16| gpos::ValueFormat::from_bits_truncate(x);
    match kind {
        0 => go!(hmtx::Hmtx, (a, b)),
        1 => go!(vmtx::Vmtx, (a, b)),
        2 => go!(loca::Loca, ctl[1] & 1 == 1),
        3 => go!(hdmx::Hdmx, a),
        4 => go!(sbix::Sbix, a),
        5 => go!(sbix::Strike, a),
        6 => go!(gvar::SharedTuples, (a, c)),
        7 => go!(variations::TupleVariationHeader, c),
        8 => false,
        9 => go!(gpos::PairSet, (vf(a), vf(b))),
        10 => go!(gpos::BaseArray, c),
        11 => go!(gpos::LigatureArray, c),
        12 => go!(gpos::LigatureAttach, c),
        13 => go!(gpos::Mark2Array, c),
        14 => go!(bitmap::IndexSubtableList, a as u32),
        15 => go!(bitmap::IndexSubtable, (GlyphId16::new(a), GlyphId16::new(b))),
        16 => go!(fvar::AxisInstanceArrays, (c, a, b16(ctl, 7, 4u16.wrapping_add(c.wrapping_mul(4))))),
        17 => go!(feat::SettingNameArray, a),
        18 => go!(stat::AxisValueArray, a),
        19 => go!(ift::GlyphMap, (Uint24::new(a as u32), b)),
        20 => go!(ift::FeatureMap, a),
        21 => go!(layout::Feature, Tag::new(&[ctl[0], ctl[1], ctl[2], ctl[3]])),
        22 => go!(layout::FeatureParams, Tag::new(if ctl[0] & 1 == 0 { b"size" } else if ctl[0] & 2 == 0 { b"ss01" } else { b"cv01" })),
        23 => false,
        _ => false,
    }
}

/// native top-level type for a tag (index into the plain list), if any
pub fn native_kind(tag: &[u8; 4]) -> Option<usize> {
    let want = match tag {
        b"head" => "head::Head",
        b"name" => "name::Name",
        b"hhea" => "hhea::Hhea",
        b"vhea" => "vhea::Vhea",
        b"VORG" => "vorg::Vorg",
        b"fvar" => "fvar::Fvar",
        b"avar" => "avar::Avar",
        b"HVAR" => "hvar::Hvar",
        b"VVAR" => "vvar::Vvar",
        b"MVAR" => "mvar::Mvar",
        b"maxp" => "maxp::Maxp",
        b"OS/2" => "os2::Os2",
        b"post" => "post::Post",
        b"gasp" => "gasp::Gasp",
        b"glyf" => "glyf::Glyph",
        b"gvar" => "gvar::Gvar",
        b"cvar" => "cvar::Cvar",
        b"cmap" => "cmap::Cmap",
        b"GDEF" => "gdef::Gdef",
        b"GPOS" => "gpos::Gpos",
        b"GSUB" => "gsub::Gsub",
        b"feat" => "feat::Feat",
        b"ltag" => "ltag::Ltag",
        b"ankr" => "ankr::Ankr",
        b"COLR" => "colr::Colr",
        b"CPAL" => "cpal::Cpal",
        b"CBLC" => "cblc::Cblc",
        b"CBDT" => "cbdt::Cbdt",
        b"EBLC" => "eblc::Eblc",
        b"EBDT" => "ebdt::Ebdt",
        b"STAT" => "stat::Stat",
        b"SVG " => "svg::Svg",
        b"VARC" => "varc::Varc",
        b"IFT " | b"IFTX" => "ift::Ift",
        b"meta" => "meta::Meta",
        b"BASE" => "base::Base",
        b"CFF " => "cff::CffHeader",
        b"CFF2" => "cff2::Cff2Header",
        _ => return None,
    };
    (0..PLAIN_TABLE_TYPE_COUNT).find(|k| plain_type_name(*k).ends_with(want))
}

/// Table-payload observation: the payload read as its native type (if any), as a type picked by the control
/// block (cross-reading) and with external arguments; plus CFF/postscript and packed-data helpers on raw bytes.
pub fn observe_payload(tag: &[u8; 4], data: &[u8], ctl: &[u8; 16]) -> Dig {
    let mut d = Dig::default();
    if let Some(k) = native_kind(tag) {
        read_plain(k, data, &mut d);
    }
    let k = (u16::from_be_bytes([ctl[13], ctl[14]]) as usize) % (PLAIN_TABLE_TYPE_COUNT + ARG_TYPE_COUNT);
    let hint = (data.len() / 4).min(0xFFFF) as u16;
    if k < PLAIN_TABLE_TYPE_COUNT {
        read_plain(k, data, &mut d);
    } else {
        read_with_args(k - PLAIN_TABLE_TYPE_COUNT, data, ctl, hint, &mut d);
    }
    // native arg-types
    match tag {
        b"hmtx" | b"vmtx" => {
            read_with_args(if tag == b"hmtx" { 0 } else { 1 }, data, ctl, hint, &mut d);
        }
        b"loca" => {
            read_with_args(2, data, ctl, hint, &mut d);
        }
        b"hdmx" => {
            read_with_args(3, data, ctl, hint, &mut d);
        }
        b"sbix" => {
            read_with_args(4, data, ctl, hint, &mut d);
        }
        _ => {}
    }
    raw_helpers(data, ctl, &mut d);
    d
}

/// helpers that take raw bytes: packed deltas / point numbers, CFF INDEX / DICT / charstrings, sparse bit set
pub fn raw_helpers(data: &[u8], ctl: &[u8; 16], d: &mut Dig) {
    use read_fonts::tables::postscript::{dict, Index1, Index2};
    use read_fonts::tables::variations::{PackedDeltas, PackedPointNumbers};
    let fd = FontData::new(data);
    match ctl[15] % 6 {
        0 => {
            let pd = PackedDeltas::consume_all(fd);
            let mut acc = 0u64;
            for x in pd.iter().take(IT) {
                acc = acc.wrapping_mul(31).wrapping_add(x as u32 as u64);
            }
            d.u(acc);
        }
        1 => {
            let (pp, rest) = PackedPointNumbers::split_off_front(fd);
            d.u(pp.count() as u64);
            d.u(rest.len() as u64);
            let mut acc = 0u64;
            for x in pp.iter().take(IT) {
                acc = acc.wrapping_mul(31).wrapping_add(x as u64);
            }
            d.u(acc);
        }
        2 => {
            if let Ok(ix) = Index1::read(fd) {
                d.u(ix.count() as u64);
                d.u(ix.size_in_bytes().unwrap_or(0) as u64);
                for i in (0..ix.count() as usize).take(64).chain([ix.count() as usize, usize::MAX / 2]) {
                    let r = ix.get(i);
                    if d.ok(&r) {
                        d.bytes(r.unwrap());
                    }
                    d.ok(&ix.get_offset(i));
                }
            }
            if let Ok(ix) = Index2::read(fd) {
                d.u(ix.count() as u64);
                for i in (0..ix.count() as usize).take(64).chain([ix.count() as usize]) {
                    d.ok(&ix.get(i));
                }
            }
        }
        3 => {
            let mut n = 0u64;
            for e in dict::entries(data, None).take(2000) {
                n = n.wrapping_mul(31).wrapping_add(e.is_ok() as u64);
            }
            d.u(n);
            d.count(dict::tokens(data).take(2000));
        }
        4 => {
            // full 32-bit bias on half of the cases (a filled node pushed across u32::MAX must clamp, not overflow)
            let bias = match ctl[9] & 3 {
                0 | 1 => u32::from_be_bytes([0, ctl[1], ctl[2], ctl[3]]),
                2 => u32::from_be_bytes([ctl[0], ctl[1], ctl[2], ctl[3]]),
                _ => 0xFFFF_FF00 | ctl[3] as u32,
            };
            let max = match ctl[4] % 4 {
                0 => u32::MAX,
                1 => 0x10FFFF,
                2 => bias,
                _ => u32::from_be_bytes([ctl[5], ctl[6], ctl[7], ctl[8]]),
            };
            let r = IntSet::<u32>::from_sparse_bit_set_bounded(data, bias, max);
            if d.ok(&r) {
                let (s, rest) = r.unwrap();
                d.u(s.len());
                d.u(rest.len() as u64);
                d.count(s.iter_ranges().take(1000));
            }
        }
        _ => {
            // charstring evaluation with a counting sink
            use read_fonts::tables::postscript::charstring::{self, CommandSink};
            struct Sink(u64);
            impl CommandSink for Sink {
                fn move_to(&mut self, x: Fixed, y: Fixed) {
                    self.0 = self.0.wrapping_mul(31).wrapping_add(x.to_bits() as u64 ^ y.to_bits() as u64)
                }
                fn line_to(&mut self, x: Fixed, y: Fixed) {
                    self.0 = self.0.wrapping_mul(31).wrapping_add(x.to_bits() as u64 ^ y.to_bits() as u64 ^ 1)
                }
                fn curve_to(&mut self, a: Fixed, b: Fixed, c: Fixed, dd: Fixed, e: Fixed, f: Fixed) {
                    self.0 = self.0.wrapping_mul(31).wrapping_add((a + b + c + dd + e + f).to_bits() as u64 ^ 2)
                }
                fn close(&mut self) {
                    self.0 = self.0.wrapping_mul(31).wrapping_add(3)
                }
            }
            let empty = Index1::read(FontData::new(&[0, 0])).ok();
            if let Some(empty) = empty {
                let mut sink = Sink(0);
                let r = charstring::evaluate(data, empty.clone().into(), None, None, &mut sink);
                d.ok(&r);
                d.u(sink.0);
            }
        }
    }
}
