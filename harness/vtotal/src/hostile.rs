//! Structurally valid fonts with hostile *values* (C02 / C20): extreme coordinates, metrics, units per em, component
//! offsets and transforms, several variation tuples with limit deltas active at the same location, generated
//! `prep` programs. Byte mutation mostly breaks structure; this generator keeps structure and attacks arithmetic.
use crate::ttgen::{self, Ins};
use proptest::prelude::*;
use serde::{Deserialize, Serialize};
use vcore::fontkit;

#[derive(Clone, Debug, Serialize, Deserialize)]
pub struct HComp {
    pub target: u8,
    pub dx: i16,
    pub dy: i16,
    pub scale_kind: u8,
    pub scale: [i16; 4],
    pub extra_flags: u16,
}

#[derive(Clone, Debug, Serialize, Deserialize)]
pub enum HGlyph {
    Simple { contours: Vec<Vec<(i16, i16, bool)>>, instructions: Option<Vec<Ins>> },
    Composite { comps: Vec<HComp> },
}

#[derive(Clone, Debug, Serialize, Deserialize)]
pub struct HostileFont {
    pub upem: u16,
    pub glyphs: Vec<HGlyph>,
    pub axes: u8,
    /// (peak per axis as F2Dot14 bits, delta pool) applied to every simple glyph
    pub tuples: Vec<(Vec<i16>, Vec<i16>)>,
    pub metrics: Vec<(u16, i16)>,
    pub ascender: i16,
    pub descender: i16,
    pub prep: Option<Vec<Ins>>,
    pub cvt: Vec<i16>,
}

fn be16(v: &mut Vec<u8>, x: i32) {
    v.extend_from_slice(&(x as i16).to_be_bytes());
}

pub fn build(f: &HostileFont) -> Vec<u8> {
    let mut glyf: Vec<u8> = vec![];
    let mut offsets: Vec<u32> = vec![0, 0];
    let mut npts: Vec<usize> = vec![0];
    for g in &f.glyphs {
        match g {
            HGlyph::Simple { contours, instructions } => {
                let contours: Vec<&Vec<(i16, i16, bool)>> = contours.iter().filter(|c| !c.is_empty()).collect();
                let n: usize = contours.iter().map(|c| c.len()).sum();
                if n == 0 {
                    offsets.push(glyf.len() as u32);
                    npts.push(0);
                    continue;
                }
                be16(&mut glyf, contours.len() as i32);
                let xs: Vec<i32> = contours.iter().flat_map(|c| c.iter().map(|p| p.0 as i32)).collect();
                let ys: Vec<i32> = contours.iter().flat_map(|c| c.iter().map(|p| p.1 as i32)).collect();
                for v in [*xs.iter().min().unwrap(), *ys.iter().min().unwrap(), *xs.iter().max().unwrap(), *ys.iter().max().unwrap()] {
                    be16(&mut glyf, v);
                }
                let mut end = 0usize;
                for c in &contours {
                    end += c.len();
                    be16(&mut glyf, end as i32 - 1);
                }
                let prog = instructions.as_ref().map(|p| ttgen::encode(p)).unwrap_or_default();
                let prog = &prog[..prog.len().min(2000)];
                be16(&mut glyf, prog.len() as i32);
                glyf.extend_from_slice(prog);
                for c in &contours {
                    for p in c.iter() {
                        glyf.push(p.2 as u8);
                    }
                }
                let mut last = 0i32;
                for x in &xs {
                    be16(&mut glyf, x.wrapping_sub(last));
                    last = *x;
                }
                last = 0;
                for y in &ys {
                    be16(&mut glyf, y.wrapping_sub(last));
                    last = *y;
                }
                if glyf.len() % 2 == 1 {
                    glyf.push(0);
                }
                offsets.push(glyf.len() as u32);
                npts.push(n);
            }
            HGlyph::Composite { comps } => {
                let avail = npts.len();
                let usable: Vec<&HComp> = comps.iter().take(5).collect();
                if avail < 2 || usable.is_empty() {
                    offsets.push(glyf.len() as u32);
                    npts.push(0);
                    continue;
                }
                be16(&mut glyf, -1);
                for v in [-32768, -32768, 32767, 32767] {
                    be16(&mut glyf, v);
                }
                let mut total = 0usize;
                for (ci, c) in usable.iter().enumerate() {
                    let t = 1 + (c.target as usize % (avail - 1));
                    let mut flags: u16 = 0x0001 | 0x0002 | (c.extra_flags & (0x0004 | 0x0200 | 0x0400 | 0x0800 | 0x1000));
                    match c.scale_kind % 4 {
                        1 => flags |= 0x0008,
                        2 => flags |= 0x0040,
                        3 => flags |= 0x0080,
                        _ => {}
                    }
                    if ci + 1 < usable.len() {
                        flags |= 0x0020;
                    }
                    be16(&mut glyf, flags as i32);
                    be16(&mut glyf, t as i32);
                    be16(&mut glyf, c.dx as i32);
                    be16(&mut glyf, c.dy as i32);
                    let k = match c.scale_kind % 4 {
                        1 => 1,
                        2 => 2,
                        3 => 4,
                        _ => 0,
                    };
                    for s in c.scale.iter().take(k) {
                        be16(&mut glyf, *s as i32);
                    }
                    total += npts[t];
                }
                if glyf.len() % 2 == 1 {
                    glyf.push(0);
                }
                offsets.push(glyf.len() as u32);
                npts.push(total);
            }
        }
    }
    let num_glyphs = (offsets.len() - 1) as u16;
    let mut hm: Vec<(u16, i16)> = (0..num_glyphs as usize).map(|i| if f.metrics.is_empty() { (500, 0) } else { f.metrics[i % f.metrics.len()] }).collect();
    hm.truncate(num_glyphs as usize);
    let mut extra: Vec<([u8; 4], Vec<u8>)> = vec![];
    if let Some(p) = &f.prep {
        extra.push((*b"prep", ttgen::encode(p)));
    }
    if !f.cvt.is_empty() {
        extra.push((*b"cvt ", f.cvt.iter().flat_map(|c| c.to_be_bytes()).collect()));
    }
    let ac = (f.axes % 3) as usize;
    let mut axes = vec![];
    for a in 0..ac {
        axes.push(fontkit::Axis { tag: [b'a', b'x', b'0' + a as u8, b' '], min: 100 << 16, default: 400 << 16, max: 900 << 16 });
    }
    if ac > 0 && !f.tuples.is_empty() {
        use write_fonts::tables::gvar::{GlyphDelta, GlyphDeltas, GlyphVariations, Gvar, Tent};
        use write_fonts::types::{F2Dot14, GlyphId};
        let mut vars = vec![];
        for (gid, n) in npts.iter().enumerate() {
            let mut gv = vec![];
            if *n > 0 && matches!(f.glyphs.get(gid.wrapping_sub(1)), Some(HGlyph::Simple { .. })) {
                for (ti, (peak, pool)) in f.tuples.iter().take(4).enumerate() {
                    let tents: Vec<Tent> = (0..ac)
                        .map(|a| {
                            let p = peak.get(a).copied().unwrap_or(0x4000).clamp(-0x4000, 0x4000);
                            Tent::new(F2Dot14::from_bits(if p == 0 { 0x4000 } else { p }), None)
                        })
                        .collect();
                    let deltas: Vec<GlyphDelta> = (0..*n + 4)
                        .map(|i| {
                            let dx = if pool.is_empty() { 0 } else { pool[(i * 2 + ti) % pool.len()] };
                            let dy = if pool.is_empty() { 0 } else { pool[(i * 2 + 1 + ti) % pool.len()] };
                            GlyphDelta::required(dx, dy)
                        })
                        .collect();
                    gv.push(GlyphDeltas::new(tents, deltas));
                }
            }
            vars.push(GlyphVariations::new(GlyphId::new(gid as u32), gv));
        }
        if let Ok(gvar) = Gvar::new(vars, ac as u16) {
            if let Ok(bytes) = write_fonts::dump_table(&gvar) {
                extra.push((*b"gvar", bytes));
            }
        }
    }
    let kit = fontkit::Kit { num_glyphs, upem: f.upem, glyf: Some((glyf, offsets)), h_metrics: hm, axes, extra, ..Default::default() };
    let mut tables = kit.tables();
    // hostile vertical metrics in hhea (ascender / descender) and a zero / huge unitsPerEm in head
    for t in tables.iter_mut() {
        if &t.0 == b"hhea" && t.1.len() >= 8 {
            t.1[4..6].copy_from_slice(&f.ascender.to_be_bytes());
            t.1[6..8].copy_from_slice(&f.descender.to_be_bytes());
        }
        if &t.0 == b"head" && t.1.len() >= 20 {
            t.1[18..20].copy_from_slice(&f.upem.to_be_bytes());
        }
    }
    vcore::sfnt::assemble(0x00010000, &tables)
}

fn ext() -> impl Strategy<Value = i16> {
    prop_oneof![
        3 => proptest::sample::select(vec![0i16, 1, -1, 32767, -32768, 32766, -32767, 16384, -16384, 255, 256, 1000]),
        2 => -2000i16..2000,
        1 => any::<i16>(),
    ]
}

pub fn strategy() -> impl Strategy<Value = HostileFont> {
    let point = (ext(), ext(), any::<bool>());
    let simple = (proptest::collection::vec(proptest::collection::vec(point, 1..8), 1..4), proptest::option::weighted(0.3, ttgen::program_strategy()))
        .prop_map(|(contours, instructions)| HGlyph::Simple { contours, instructions });
    let comp = (any::<u8>(), ext(), ext(), 0u8..4, [ext(), ext(), ext(), ext()], any::<u16>()).prop_map(|(target, dx, dy, scale_kind, scale, extra_flags)| HComp { target, dx, dy, scale_kind, scale, extra_flags });
    let glyph = prop_oneof![3 => simple, 1 => proptest::collection::vec(comp, 1..4).prop_map(|comps| HGlyph::Composite { comps })];
    (
        proptest::sample::select(vec![0u16, 1, 15, 16, 1000, 2048, 16384, 16385, 65535]),
        proptest::collection::vec(glyph, 1..7),
        0u8..3,
        proptest::collection::vec((proptest::collection::vec(proptest::sample::select(vec![0x4000i16, -0x4000, 0x2000, 1]), 1..3), proptest::collection::vec(ext(), 1..8)), 0..4),
        proptest::collection::vec((prop_oneof![Just(0u16), Just(65535), Just(32768), 0u16..3000], ext()), 0..4),
        (ext(), ext()),
        proptest::option::weighted(0.3, ttgen::program_strategy()),
        proptest::collection::vec(ext(), 0..6),
    )
        .prop_map(|(upem, glyphs, axes, tuples, metrics, (ascender, descender), prep, cvt)| HostileFont { upem, glyphs, axes, tuples, metrics, ascender, descender, prep, cvt })
}
