//! Entry points for the libFuzzer targets (/verif/fuzz): bytes -> structured case -> the same drivers and oracles as
//! the generated stages. Unknown failures write a replay file and abort (libFuzzer keeps the input); failures at listed
//! known-finding sites are tolerated and counted so a campaign is not stuck rediscovering one crash.
use crate::{c01, c02, c13, colrgen, iftdrive, observe, skdrive};
use std::sync::OnceLock;
use vcore::engine::{KnownFile, KnownFinding};
use vcore::mutate::{hex_font, CorpusIndex, MutCase};
use vcore::*;

static KNOWN: OnceLock<Vec<KnownFinding>> = OnceLock::new();
static INDEX: OnceLock<CorpusIndex> = OnceLock::new();

fn known() -> &'static Vec<KnownFinding> {
    KNOWN.get_or_init(|| {
        std::fs::read_to_string(verif_dir().join("known_findings.json"))
            .ok()
            .and_then(|s| serde_json::from_str::<KnownFile>(&s).ok())
            .map(|k| k.findings)
            .unwrap_or_default()
    })
}
fn index() -> &'static CorpusIndex {
    INDEX.get_or_init(|| {
        let fonts: Vec<_> = corpus::repo_fonts().into_iter().filter(|f| f.data.len() <= 100_000).collect();
        CorpusIndex::new(&fonts)
    })
}

fn is_known(prop: &str, sig: &str) -> bool {
    known().iter().any(|k| k.property == prop && (k.sig == sig || k.sig.strip_suffix('*').map(|p| sig.starts_with(p)).unwrap_or(false)))
}

/// Report a failure found by a fuzz target: attribute, tolerate if known, else write a replay file and abort.
fn report(default_prop: &str, stage: &str, sig: &str, msg: &str, case: serde_json::Value, overflow: bool) {
    let prop = if overflow { "C20" } else { default_prop };
    if is_known(prop, sig) {
        return;
    }
    let body = serde_json::json!({"property": prop, "stage": stage, "sig": sig, "msg": msg, "seed": 0, "case": case, "found_by": "libFuzzer"});
    let text = serde_json::to_string(&body).unwrap();
    let dir = verif_dir().join("replay_out").join(prop);
    let _ = std::fs::create_dir_all(&dir);
    let path = dir.join(format!("fuzz-{:016x}.json", fnv64(sig.as_bytes())));
    let _ = std::fs::write(&path, &text);
    eprintln!("FUZZ-VIOLATION property={prop} sig={sig} replay={} :: {msg}", path.display());
    std::process::abort();
}

fn run<T>(default_prop: &str, stage: &str, case: impl Fn() -> serde_json::Value, f: impl FnOnce() -> Result<T, (String, String)>) {
    match guard::catch(f) {
        Ok(Ok(_)) => {}
        Ok(Err((sig, msg))) => report(default_prop, stage, &sig, &msg, case(), false),
        Err(p) => report(default_prop, stage, &p.sig(), &format!("panic at {}", p.describe()), case(), p.is_overflow_or_assert()),
    }
}

fn split_ctl<const N: usize>(data: &[u8]) -> Option<(&[u8], [u8; N])> {
    if data.len() < N {
        return None;
    }
    let (a, b) = data.split_at(data.len() - N);
    Some((a, b.try_into().unwrap()))
}

pub fn c01_file(data: &[u8]) {
    let Some((font, ctl)) = split_ctl::<16>(data) else { return };
    run("C01", "havoc", || serde_json::to_value(c01::Case { m: MutCase { font: hex_font(font), table: "FILE".into(), edits: vec![] }, ctl, mode: 0 }).unwrap(), || {
        observe::observe_file(font, &ctl);
        Ok(())
    });
}

const TAGS: [&[u8; 4]; 40] = [
    b"head", b"name", b"hhea", b"vhea", b"VORG", b"fvar", b"avar", b"HVAR", b"VVAR", b"MVAR", b"maxp", b"OS/2", b"post", b"gasp", b"glyf", b"gvar", b"cvar", b"cmap", b"GDEF", b"GPOS",
    b"GSUB", b"feat", b"ltag", b"ankr", b"COLR", b"CPAL", b"CBLC", b"CBDT", b"EBLC", b"EBDT", b"STAT", b"SVG ", b"VARC", b"IFT ", b"meta", b"BASE", b"CFF ", b"CFF2", b"hmtx", b"loca",
];

pub fn c01_table(data: &[u8]) {
    let Some((payload, ctl17)) = split_ctl::<17>(data) else { return };
    let tag = TAGS[ctl17[16] as usize % TAGS.len()];
    let ctl: [u8; 16] = ctl17[..16].try_into().unwrap();
    // replayed as a one-table font whose only table is the payload, payload mode
    run(
        "C01",
        "havoc",
        || {
            let font = vcore::sfnt::assemble(0x00010000, &[(*tag, payload.to_vec())]);
            serde_json::to_value(c01::Case { m: MutCase { font: hex_font(&font), table: "FILE".into(), edits: vec![] }, ctl, mode: 0 }).unwrap()
        },
        || {
            observe::observe_payload(tag, payload, &ctl);
            // and through the provider route, so that the saved replay (whole-file mode) reaches the same code
            let font = vcore::sfnt::assemble(0x00010000, &[(*tag, payload.to_vec())]);
            observe::observe_file(&font, &ctl);
            Ok(())
        },
    );
}

fn skargs_from(t: &[u8; 24]) -> skdrive::SkArgs {
    skdrive::SkArgs {
        gid_extra: u32::from_be_bytes([t[0], t[1], t[2], t[3]]) >> (t[4] % 32),
        size_kind: t[5] % 13,
        size_bits: u32::from_be_bytes([t[6], t[7], t[8], t[9]]),
        coord_bits: (0..(t[10] % 5) as usize).map(|i| i16::from_be_bytes([t[11 + i], t[12 + i]])).collect(),
        coord_len: t[16] % 5,
        engine: t[17] % 4,
        target: t[18] % 6,
        pedantic: t[19] & 1 == 1,
        mem_mode: t[20] % 14,
        harfbuzz_style: t[19] & 2 == 2,
        inst_mode: t[21] % 3,
        meta_id: u16::from_be_bytes([t[22], t[23]]),
    }
}

pub fn c02_skrifa(data: &[u8]) {
    let Some((font, tail)) = split_ctl::<24>(data) else { return };
    let args = skargs_from(&tail);
    let ix = index();
    let other = &ix.fonts[tail[3] as usize % ix.fonts.len()];
    run(
        "C02",
        "skrifa-havoc",
        || serde_json::to_value(c02::SkCase { m: MutCase { font: hex_font(font), table: "FILE".into(), edits: vec![] }, other: other.name.clone(), args: args.clone(), prep: None, fpgm: None, sibling_maxp: None }).unwrap(),
        || {
            skdrive::drive_file(font, Some(&other.data), &args);
            Ok(())
        },
    );
}

/// input: [flags][def kind] then chunks (u16 length + bytes): IFT table, IFTX table, then patches
pub fn c02_ift(data: &[u8]) {
    if data.len() < 2 {
        return;
    }
    let flags = data[0];
    let defk = data[1];
    let mut chunks: Vec<&[u8]> = vec![];
    let mut rest = &data[2..];
    while rest.len() >= 2 && chunks.len() < 6 {
        let n = u16::from_be_bytes([rest[0], rest[1]]) as usize;
        let n = n.min(rest.len() - 2);
        chunks.push(&rest[2..2 + n]);
        rest = &rest[2 + n..];
    }
    let case = || serde_json::json!({"raw_hex": hex_font(data)});
    run("C02", "ift-raw", case, || {
        iftdrive::drive_raw(flags, defk, &chunks);
        Ok(())
    });
}

pub fn c13_colr(data: &[u8]) {
    let Some((colr, ctl)) = split_ctl::<8>(data) else { return };
    let case = || serde_json::json!({"colr_hex": hex_font(colr), "ctl": ctl});
    run("C13", "colr-raw", case, || c13::paint_raw_colr(colr, &ctl));
}

pub fn replay_raw_ift(hex: &str) {
    let d: Vec<u8> = (0..hex.len() / 2).filter_map(|i| u8::from_str_radix(hex.get(2 * i..2 * i + 2)?, 16).ok()).collect();
    c02_ift(&d);
}

pub use colrgen::PaintStats;
