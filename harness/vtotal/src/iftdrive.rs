//! C02 (IFT half): drive the incremental-font-transfer client with generated (font, subset definition, patch map,
//! patch bytes, applied-set) tuples; bases come from the repository's own IFT fixtures, then byte havoc.
use font_test_data::ift as fx;
use incremental_font_transfer::{
    patch_group::{PatchGroup, UriStatus},
    patchmap::{intersecting_patches, DesignSpace, FeatureSet, SubsetDefinition},
};
use read_fonts::{
    collections::{IntSet, RangeSet},
    types::{Fixed, Tag},
    FontRef,
};
use serde::{Deserialize, Serialize};
use shared_brotli_patch_decoder::{decode_error::DecodeError, BuiltInBrotliDecoder, NoopBrotliDecoder, SharedBrotliDecoder};
use std::collections::{BTreeMap, BTreeSet, HashMap};
use vcore::mutate::{CorpusIndex, Edit};

#[derive(Clone, Debug, Serialize, Deserialize, PartialEq)]
pub struct DefSpec {
    pub cps: Vec<u32>,
    pub cp_ranges: Vec<(u32, u32)>,
    pub invert_cps: bool,
    /// None = all features
    pub features: Option<Vec<[u8; 4]>>,
    /// None = all design space; values are 16.16 bits
    pub design: Option<Vec<([u8; 4], Vec<(i32, i32)>)>>,
}

#[derive(Clone, Debug, Serialize, Deserialize, PartialEq)]
pub struct IftCase {
    /// 0: small raw tables only, 1: IFT_BASE (glyf/gvar), 2: CFF font, 3: CFF2 font
    pub base: u8,
    /// mapping-table fixture index + edits, for `IFT ` and `IFTX`
    pub ift: Option<(u8, Vec<Edit>)>,
    pub iftx: Option<(u8, Vec<Edit>)>,
    pub def: DefSpec,
    /// patch fixture index + edits + "rewrite the patch's compatibility id to the one the mapping entry expects"
    /// (so that generated combinations get past the compatibility check); assigned round-robin to the requested URIs
    pub patches: Vec<(u8, Vec<Edit>, bool)>,
    /// indexes (mod #uris) of URIs marked as already applied; and URIs that are missing from the map
    pub applied: Vec<u8>,
    pub missing: Vec<u8>,
    /// 0: transparent (noop) decoder, 1: built-in brotli decoder, 2: decoder failing at call `fail_at`
    pub decoder: u8,
    pub fail_at: u8,
    pub rounds: u8,
    /// when set, `IFT ` is a generated format-2 map whose entries form a deep child-index DAG
    #[serde(default)]
    pub dag: Option<DagSpec>,
    /// byte edits of tables of the BASE font (table chosen by index among glyf/loca/gvar/CFF /CFF2/head/maxp/hmtx, when present)
    #[serde(default)]
    pub base_edits: Vec<(u8, Vec<Edit>)>,
    /// structure-aware tweaks of the base font's glyph offset arrays (the arrays glyph-keyed patching rewrites)
    #[serde(default)]
    pub offset_tweaks: Vec<OffsetTweak>,
    /// make the pieces fit together the way the repository's own tests do: the charstrings-offset placeholders of the mapping
    /// fixtures (456 / 789) are replaced by the real CharStrings offsets of the CFF / CFF2 base font, and a `CFF ` glyph patch
    /// is retargeted to `CFF2` for the CFF2 base — so that glyph-keyed patching of CFF data gets past its consistency checks
    #[serde(default)]
    pub coherent: bool,
    /// generated glyph-keyed patches, valid by construction for the base font (used round-robin instead of the patch
    /// fixtures when non-empty; compatibility ids are rewritten like for fixtures)
    #[serde(default)]
    pub gen_patches: Vec<GkPatch>,
}

/// a glyph-keyed patch: `gids` (taken modulo the base font's glyph count, sorted, de-duplicated), the glyph-carrying tables
/// of the base font selected by `tables` bits (0 glyf, 1 gvar, 2 CFF , 3 CFF2; absent ones are dropped, at least one kept),
/// per (table, glyph) data of `lens[k % lens.len()]` bytes, 16- or 24-bit glyph ids, optionally a hostile twist
#[derive(Clone, Debug, Serialize, Deserialize, PartialEq)]
pub struct GkPatch {
    pub gids: Vec<u16>,
    pub tables: u8,
    pub lens: Vec<u8>,
    pub wide: bool,
    /// 0 valid; 1 unsorted gids; 2 duplicate table tag; 3 last offset short; 4 offsets descending at one place; 5 unknown table tag added
    pub twist: u8,
    pub fill: u8,
}

pub fn gk_patch_bytes(p: &GkPatch, present: &[[u8; 4]], num_glyphs: u32) -> Vec<u8> {
    let n = num_glyphs.max(1);
    let mut gids: Vec<u32> = p.gids.iter().map(|g| *g as u32 % n).collect();
    gids.sort();
    gids.dedup();
    if p.twist == 1 && gids.len() >= 2 {
        gids.swap(0, 1);
    }
    let cand = [*b"glyf", *b"gvar", *b"CFF ", *b"CFF2"];
    let mut tables: Vec<[u8; 4]> = (0..4).filter(|i| p.tables & (1 << i) != 0 && present.contains(&cand[*i])).map(|i| cand[i]).collect();
    if tables.is_empty() {
        if let Some(t) = cand.iter().find(|t| present.contains(t)) {
            tables.push(*t);
        }
    }
    if p.twist == 2 {
        if let Some(t) = tables.first().copied() {
            tables.push(t);
        }
    }
    if p.twist == 5 {
        tables.push(*b"zzzz");
    }
    let mut payload: Vec<u8> = vec![];
    payload.extend_from_slice(&(gids.len() as u32).to_be_bytes());
    payload.push(tables.len() as u8);
    for g in &gids {
        if p.wide {
            payload.extend_from_slice(&g.to_be_bytes()[1..]);
        } else {
            payload.extend_from_slice(&(*g as u16).to_be_bytes());
        }
    }
    for t in &tables {
        payload.extend_from_slice(t);
    }
    let n_off = gids.len() * tables.len() + 1;
    let data_start = payload.len() + 4 * n_off;
    let mut offs: Vec<u32> = vec![];
    let mut data: Vec<u8> = vec![];
    for k in 0..gids.len() * tables.len() {
        offs.push((data_start + data.len()) as u32);
        let len = if p.lens.is_empty() { 3 } else { p.lens[k % p.lens.len()] as usize };
        data.extend((0..len).map(|i| p.fill.wrapping_add((k * 7 + i) as u8)));
    }
    offs.push((data_start + data.len()) as u32);
    if p.twist == 3 {
        if let Some(l) = offs.last_mut() {
            *l = l.wrapping_sub(2);
        }
    }
    if p.twist == 4 && offs.len() >= 3 {
        let m = offs.len() / 2;
        offs.swap(m, m - 1);
    }
    for o in &offs {
        payload.extend_from_slice(&o.to_be_bytes());
    }
    payload.extend_from_slice(&data);
    let mut v = b"ifgk".to_vec();
    v.extend_from_slice(&0u32.to_be_bytes());
    v.push(p.wide as u8);
    for x in [6u32, 7, 8, 9] {
        v.extend_from_slice(&x.to_be_bytes());
    }
    v.extend_from_slice(&(payload.len() as u32).to_be_bytes());
    v.extend_from_slice(&payload);
    v
}

/// add `delta` to the entry `from_end` positions before the end of: 0 loca, 1 gvar's glyph variation data offsets,
/// 2 the CharStrings INDEX offset array of CFF / CFF2 (located through the Top DICT)
#[derive(Clone, Debug, Serialize, Deserialize, PartialEq)]
pub struct OffsetTweak {
    pub array: u8,
    pub from_end: u8,
    pub delta: i32,
}

fn be_read(d: &[u8], pos: usize, size: usize) -> Option<u32> {
    let b = d.get(pos..pos.checked_add(size)?)?;
    Some(b.iter().fold(0u32, |a, x| (a << 8) | *x as u32))
}
fn be_write(d: &mut [u8], pos: usize, size: usize, v: u32) {
    for i in 0..size {
        d[pos + i] = (v >> (8 * (size - 1 - i))) as u8;
    }
}
/// (position of entry 0, entry size, entry count) of the offset array named by `array` inside `table`
fn offset_array(array: u8, tag: &[u8; 4], table: &[u8], head: Option<&[u8]>) -> Option<(usize, usize, usize)> {
    match (array % 3, tag) {
        (0, b"loca") => {
            let long = head.and_then(|h| be_read(h, 50, 2)).unwrap_or(0) != 0;
            let size = if long { 4 } else { 2 };
            Some((0, size, table.len() / size))
        }
        (1, b"gvar") => {
            let count = be_read(table, 12, 2)? as usize;
            let long = be_read(table, 14, 2)? & 1 != 0;
            Some((20, if long { 4 } else { 2 }, count + 1))
        }
        (2, b"CFF ") => {
            use read_fonts::tables::postscript::dict;
            use read_fonts::FontRead;
            let cff = read_fonts::tables::cff::Cff::read(read_fonts::FontData::new(table)).ok()?;
            let top = cff.top_dicts().get(0).ok()?;
            let off = dict::entries(top, None).filter_map(|e| e.ok()).find_map(|e| match e {
                dict::Entry::CharstringsOffset(o) => Some(o),
                _ => None,
            })?;
            let count = be_read(table, off, 2)? as usize;
            let size = be_read(table, off + 2, 1)? as usize;
            (1..=4).contains(&size).then_some((off + 3, size, count + 1))
        }
        (2, b"CFF2") => {
            use read_fonts::tables::postscript::dict;
            use read_fonts::FontRead;
            let cff = read_fonts::tables::cff2::Cff2::read(read_fonts::FontData::new(table)).ok()?;
            let off = dict::entries(cff.top_dict_data(), None).filter_map(|e| e.ok()).find_map(|e| match e {
                dict::Entry::CharstringsOffset(o) => Some(o),
                _ => None,
            })?;
            let count = be_read(table, off, 4)? as usize;
            let size = be_read(table, off + 4, 1)? as usize;
            (1..=4).contains(&size).then_some((off + 5, size, count + 1))
        }
        _ => None,
    }
}

/// entries 0 and 1 carry code points; entry k >= 2 has child indices {k-1-a, k-1-b} (a, b from `fan`, cycled) with a
/// conjunctive or disjunctive match mode (from `conj`, cycled); some entries also carry their own code points
#[derive(Clone, Debug, Serialize, Deserialize, PartialEq)]
pub struct DagSpec {
    pub n: u8,
    pub conj: Vec<bool>,
    pub fan: Vec<(u8, u8)>,
    pub own_codepoints_every: u8,
    /// when > 0 the entry count (up to 40 000): long child chains (recursion depth = chain length unless the walk is iterative)
    #[serde(default)]
    pub n_big: u16,
    /// cycled over entries k >= 2: the entry carries the IGNORED flag (it is skipped by the selection loop but still reachable
    /// as somebody's child); `ignored_but_last`: every entry except the last few is ignored
    #[serde(default)]
    pub ignored: Vec<bool>,
    #[serde(default)]
    pub ignored_but_last: u8,
}

pub fn dag_map(d: &DagSpec) -> Vec<u8> {
    let n = if d.n_big > 0 { (d.n_big as usize).clamp(2, 40_000) } else { (d.n as usize).clamp(2, 200) };
    let mut v = vec![2u8, 0, 0, 0, 0];
    for c in [1u32, 2, 3, 4] {
        v.extend_from_slice(&c.to_be_bytes());
    }
    v.push(3); // glyph keyed
    v.extend_from_slice(&(n as u32).to_be_bytes()[1..]);
    let off_pos = v.len();
    v.extend_from_slice(&0u32.to_be_bytes());
    v.extend_from_slice(&0u32.to_be_bytes());
    let tmpl = b"foo/{id}";
    v.extend_from_slice(&(tmpl.len() as u16).to_be_bytes());
    v.extend_from_slice(tmpl);
    let off = v.len() as u32;
    v[off_pos..off_pos + 4].copy_from_slice(&off.to_be_bytes());
    let cps = [0b00001101u8, 0b00000011, 0b00110001]; // sparse bit set covering bias..bias+17
    for k in 0..n {
        if k < 2 {
            v.push(0b0010_0000); // CODEPOINT_BIT_2 (16-bit bias)
            v.extend_from_slice(&((5 + 45 * k) as u16).to_be_bytes());
            v.extend_from_slice(&cps);
            continue;
        }
        let own = d.own_codepoints_every > 0 && k % d.own_codepoints_every as usize == 0;
        let ign = (!d.ignored.is_empty() && d.ignored[k % d.ignored.len()]) || (d.ignored_but_last > 0 && k + (d.ignored_but_last as usize) < n);
        v.push(0b0000_0010 | if own { 0b0010_0000 } else { 0 } | if ign { 0b0100_0000 } else { 0 });
        let (a, b) = if d.fan.is_empty() { (0, 1) } else { d.fan[k % d.fan.len()] };
        let c1 = (k - 1).saturating_sub(a as usize % 3);
        let c2 = (k - 1).saturating_sub(1 + b as usize % 3);
        let conj = if d.conj.is_empty() { true } else { d.conj[k % d.conj.len()] };
        let children: Vec<usize> = if c1 == c2 { vec![c1] } else { vec![c1, c2] };
        v.push(children.len() as u8 | if conj { 0x80 } else { 0 });
        for c in children {
            v.extend_from_slice(&(c as u32).to_be_bytes()[1..]);
        }
        if own {
            v.extend_from_slice(&5u16.to_be_bytes());
            v.extend_from_slice(&cps);
        }
    }
    v
}

pub const MAP_FIXTURES: usize = 13;
pub fn map_fixture(i: u8) -> Vec<u8> {
    match i as usize % MAP_FIXTURES {
        0 => fx::simple_format1().to_vec(),
        1 => fx::simple_format1_with_one_charstrings_offset().to_vec(),
        2 => fx::simple_format1_with_two_charstrings_offsets().to_vec(),
        3 => fx::u16_entries_format1().to_vec(),
        4 => fx::feature_map_format1().to_vec(),
        5 => fx::codepoints_only_format2().to_vec(),
        6 => fx::format2_with_one_charstrings_offset().to_vec(),
        7 => fx::format2_with_two_charstrings_offset().to_vec(),
        8 => fx::features_and_design_space_format2().to_vec(),
        9 => fx::child_indices_format2().to_vec(),
        10 => fx::custom_ids_format2().to_vec(),
        11 => fx::string_ids_format2().to_vec(),
        _ => fx::table_keyed_format2().to_vec(),
    }
}

fn glyph_keyed(payload: Vec<u8>) -> Vec<u8> {
    let mut h = fx::glyph_keyed_patch_header();
    h.write_at("max_uncompressed_length", payload.len() as u32);
    let mut v = h.to_vec();
    v.extend_from_slice(&payload);
    v
}

pub const PATCH_FIXTURES: usize = 9;
/// patch bytes as the transparent decoder expects them (glyph keyed: header + raw payload)
pub fn patch_fixture(i: u8) -> Vec<u8> {
    match i as usize % PATCH_FIXTURES {
        0 => fx::table_keyed_patch().to_vec(),
        1 => fx::noop_table_keyed_patch().to_vec(),
        2 => glyph_keyed(fx::noop_glyf_glyph_patches().to_vec()),
        3 => glyph_keyed(fx::glyf_u16_glyph_patches().to_vec()),
        4 => glyph_keyed(fx::glyf_u16_glyph_patches_2().to_vec()),
        5 => glyph_keyed(fx::glyf_u24_glyph_patches().to_vec()),
        6 => glyph_keyed(fx::glyf_and_gvar_u16_glyph_patches().to_vec()),
        7 => glyph_keyed(fx::cff_u16_glyph_patches().to_vec()),
        _ => vec![],
    }
}

pub fn base_tables(base: u8) -> Vec<([u8; 4], Vec<u8>)> {
    let raw = match base % 4 {
        0 => {
            return vec![
                (*b"tab1", b"abcdef\n".to_vec()),
                (*b"tab2", b"foobar\n".to_vec()),
                (*b"tab4", b"abcdef\n".to_vec()),
                (*b"tab5", b"foobar\n".to_vec()),
            ]
        }
        1 => fx::IFT_BASE,
        2 => fx::CFF_FONT,
        _ => fx::CFF2_FONT,
    };
    vcore::sfnt::split_tables(raw).map(|x| x.1).unwrap_or_default()
}

pub fn build_font(ix: &CorpusIndex, c: &IftCase) -> Vec<u8> {
    let mut tables = base_tables(c.base);
    tables.retain(|t| &t.0 != b"IFT " && &t.0 != b"IFTX");
    // hostile BASE font: byte edits of the glyph-carrying tables and tweaks of their offset arrays
    const EDITABLE: [&[u8; 4]; 8] = [b"glyf", b"loca", b"gvar", b"CFF ", b"CFF2", b"head", b"maxp", b"hmtx"];
    for (which, edits) in &c.base_edits {
        let present: Vec<usize> = (0..tables.len()).filter(|i| EDITABLE.contains(&&tables[*i].0)).collect();
        if let Some(i) = present.get(*which as usize % present.len().max(1)) {
            ix.apply_edits(&mut tables[*i].1, edits);
        }
    }
    for t in &c.offset_tweaks {
        let head: Option<Vec<u8>> = tables.iter().find(|x| &x.0 == b"head").map(|x| x.1.clone());
        for (tag, data) in tables.iter_mut() {
            if let Some((pos0, size, n)) = offset_array(t.array, tag, data, head.as_deref()) {
                if n == 0 {
                    continue;
                }
                let k = n - 1 - (t.from_end as usize).min(n - 1);
                let pos = pos0 + k * size;
                if let Some(v) = be_read(data, pos, size) {
                    // (short loca / short gvar entries hold offset / 2: the tweak applies to the stored value)
                    be_write(data, pos, size, v.wrapping_add(t.delta as u32));
                }
            }
        }
    }
    if let Some(d) = &c.dag {
        tables.push((*b"IFT ", dag_map(d)));
    }
    for (tag, spec) in [(*b"IFT ", &c.ift), (*b"IFTX", &c.iftx)] {
        if c.dag.is_some() && &tag == b"IFT " {
            continue;
        }
        if let Some((fi, edits)) = spec {
            let mut d = map_fixture(*fi);
            if c.coherent {
                for (placeholder, real) in [(456u32, fx::CFF_FONT_CHARSTRINGS_OFFSET), (789u32, fx::CFF2_FONT_CHARSTRINGS_OFFSET)] {
                    let pat = placeholder.to_be_bytes();
                    let mut i = 0;
                    while i + 4 <= d.len() {
                        if d[i..i + 4] == pat {
                            d[i..i + 4].copy_from_slice(&real.to_be_bytes());
                            i += 4;
                        } else {
                            i += 1;
                        }
                    }
                }
            }
            ix.apply_edits(&mut d, edits);
            tables.push((tag, d));
        }
    }
    vcore::sfnt::assemble(if c.base % 4 >= 2 { u32::from_be_bytes(*b"OTTO") } else { 0x00010000 }, &tables)
}

pub fn build_def(d: &DefSpec) -> SubsetDefinition {
    let mut cps = IntSet::<u32>::empty();
    for c in &d.cps {
        cps.insert(*c);
    }
    for (a, b) in &d.cp_ranges {
        let (a, b) = (*a.min(b), *a.max(b));
        cps.insert_range(a..=b.min(a.saturating_add(5000)));
    }
    if d.invert_cps {
        cps.invert();
    }
    let features = match &d.features {
        None => FeatureSet::All,
        Some(t) => FeatureSet::Set(t.iter().map(|t| Tag::from_be_bytes(*t)).collect::<BTreeSet<_>>()),
    };
    let design = match &d.design {
        None => DesignSpace::All,
        Some(v) => {
            let mut m: HashMap<Tag, RangeSet<Fixed>> = HashMap::new();
            for (tag, ranges) in v {
                let rs: RangeSet<Fixed> = ranges.iter().map(|(a, b)| Fixed::from_bits(*a.min(b))..=Fixed::from_bits(*a.max(b))).collect();
                m.insert(Tag::from_be_bytes(*tag), rs);
            }
            DesignSpace::Ranges(m)
        }
    };
    SubsetDefinition::new(cps, features, design)
}

pub struct FaultyDecoder {
    pub fail_at: usize,
    pub calls: std::cell::Cell<usize>,
    pub kind: u8,
}
impl SharedBrotliDecoder for FaultyDecoder {
    fn decode(&self, e: &[u8], d: Option<&[u8]>, m: usize) -> Result<Vec<u8>, DecodeError> {
        let c = self.calls.get();
        self.calls.set(c + 1);
        if c == self.fail_at {
            Err(match self.kind % 5 {
                0 => DecodeError::InitFailure,
                1 => DecodeError::InvalidStream,
                2 => DecodeError::InvalidDictionary,
                3 => DecodeError::MaxSizeExceeded,
                _ => DecodeError::ExcessInputData,
            })
        } else {
            NoopBrotliDecoder.decode(e, d, m)
        }
    }
}

#[derive(Default, Debug, Clone)]
pub struct IftOutcome {
    pub opened: bool,
    pub offered: u64,
    pub selected_uris: u64,
    pub applies: u64,
    pub applies_ok: u64,
    pub digest: u64,
    pub errors: Vec<String>,
}

pub fn drive(ix: &CorpusIndex, c: &IftCase) -> IftOutcome {
    let mut o = IftOutcome::default();
    let mut font_bytes = build_font(ix, c);
    let def = build_def(&c.def);
    let mut status: BTreeMap<String, bool> = BTreeMap::new(); // applied so far
    for round in 0..(c.rounds % 4 + 1) {
        let Ok(font) = FontRef::new(&font_bytes) else { return o };
        o.opened = true;
        let mut compat: BTreeMap<String, ([u8; 16], bool)> = BTreeMap::new();
        match intersecting_patches(&font, &def) {
            Ok(ps) => {
                o.offered += ps.len() as u64;
                for p in ps.iter().take(512) {
                    let glyph_keyed = matches!(p.encoding(), incremental_font_transfer::patchmap::PatchFormat::GlyphKeyed);
                    if let Ok(u) = p.uri_string() {
                        compat.insert(u, (p.expected_compatibility_id().as_slice().try_into().unwrap_or([0; 16]), glyph_keyed));
                    }
                }
            }
            Err(_) => {}
        }
        let _ = intersecting_patches(&font, &SubsetDefinition::all()).map(|p| o.digest = o.digest.wrapping_add(p.len() as u64));
        let Ok(group) = PatchGroup::select_next_patches(font, &def) else { return o };
        let has = group.has_uris();
        let uris: Vec<String> = group.uris().map(|s| s.to_string()).collect();
        o.selected_uris += uris.len() as u64;
        o.digest = o.digest.wrapping_mul(31).wrapping_add(uris.len() as u64 + has as u64);
        if uris.is_empty() {
            return o;
        }
        let mut map: HashMap<String, UriStatus> = HashMap::new();
        for (i, u) in uris.iter().enumerate() {
            if c.missing.iter().any(|m| *m as usize % uris.len() == i) && round == 0 {
                continue;
            }
            if c.applied.iter().any(|m| *m as usize % uris.len() == i) || status.get(u).copied().unwrap_or(false) {
                map.insert(u.clone(), UriStatus::Applied);
                continue;
            }
            let bytes = if c.patches.is_empty() {
                vec![]
            } else {
                let (fi, edits, fix_compat) = &c.patches[(i + round as usize) % c.patches.len()];
                // with fix_compat the fixture is also coerced to the patch format the mapping entry announces
                let fi = match (fix_compat, compat.get(u)) {
                    (true, Some((_, true))) => 2 + *fi % 6,
                    (true, Some((_, false))) => *fi % 2,
                    _ => *fi,
                };
                // coherent CFF cases: glyph-keyed fixtures are replaced by the CFF glyph patch (retargeted to CFF2 for that base)
                let fi = if c.coherent && c.base % 4 >= 2 && fi >= 2 { 7 } else { fi };
                let mut b = if !c.gen_patches.is_empty() && fi >= 2 {
                    let present: Vec<[u8; 4]> = base_tables(c.base).iter().map(|t| t.0).collect();
                    let ng = base_tables(c.base).iter().find(|t| &t.0 == b"maxp").and_then(|t| be_read(&t.1, 4, 2)).unwrap_or(1);
                    gk_patch_bytes(&c.gen_patches[(i + round as usize) % c.gen_patches.len()], &present, ng)
                } else {
                    patch_fixture(fi)
                };
                if c.coherent && c.base % 4 == 3 && fi == 7 {
                    if let Some(p) = b.windows(4).position(|w| w == b"CFF ") {
                        b[p..p + 4].copy_from_slice(b"CFF2");
                    }
                }
                ix.apply_edits(&mut b, edits);
                if *fix_compat {
                    if let Some((id, _)) = compat.get(u) {
                        let at = if b.starts_with(b"ifgk") { 9 } else { 8 };
                        if b.len() >= at + 16 {
                            b[at..at + 16].copy_from_slice(id);
                        }
                    }
                }
                b
            };
            map.insert(u.clone(), UriStatus::Pending(bytes));
        }
        o.applies += 1;
        let r = match c.decoder % 3 {
            0 => group.apply_next_patches_with_decoder(&mut map, &NoopBrotliDecoder),
            1 => group.apply_next_patches_with_decoder(&mut map, &BuiltInBrotliDecoder),
            _ => group.apply_next_patches_with_decoder(&mut map, &FaultyDecoder { fail_at: c.fail_at as usize % 6, calls: Default::default(), kind: c.fail_at / 6 }),
        };
        match r {
            Ok(new_font) => {
                o.applies_ok += 1;
                o.digest = o.digest.wrapping_mul(31).wrapping_add(vcore::fnv64(&new_font));
                for (u, s) in &map {
                    if *s == UriStatus::Applied {
                        status.insert(u.clone(), true);
                    }
                }
                font_bytes = new_font;
            }
            Err(e) => {
                let t = format!("{e:?}");
                o.errors.push(t.split(|c: char| !c.is_alphanumeric() && c != '_').take(2).collect::<Vec<_>>().join(":"));
                return o;
            }
        }
    }
    o
}

/// the built-in shared-brotli decoder on arbitrary bytes with a small output limit
pub fn drive_brotli(stream: &[u8], dict: Option<&[u8]>, max_len: usize) -> u64 {
    match BuiltInBrotliDecoder.decode(stream, dict, max_len) {
        Ok(v) => {
            assert!(v.len() <= max_len, "decoder returned {} bytes, more than max_uncompressed_length {}", v.len(), max_len);
            v.len() as u64
        }
        Err(_) => u64::MAX,
    }
}

/// Raw-bytes driver for the coverage-guided target: the mapping tables and patches are given directly.
pub fn drive_raw(flags: u8, defk: u8, chunks: &[&[u8]]) -> IftOutcome {
    let mut o = IftOutcome::default();
    let mut tables = base_tables(flags & 3);
    tables.retain(|t| &t.0 != b"IFT " && &t.0 != b"IFTX");
    if let Some(c) = chunks.first().filter(|c| !c.is_empty()) {
        tables.push((*b"IFT ", c.to_vec()));
    }
    if let Some(c) = chunks.get(1).filter(|c| !c.is_empty()) {
        tables.push((*b"IFTX", c.to_vec()));
    }
    let mut font_bytes = vcore::sfnt::assemble(if flags & 3 >= 2 { u32::from_be_bytes(*b"OTTO") } else { 0x00010000 }, &tables);
    let def = match defk % 4 {
        0 => SubsetDefinition::all(),
        1 => {
            let mut s = IntSet::<u32>::empty();
            s.insert_range(0x20..=0x7F);
            s.insert_range(0x600..=0x6FF);
            SubsetDefinition::codepoints(s)
        }
        2 => SubsetDefinition::default(),
        _ => {
            let mut s = IntSet::<u32>::empty();
            s.insert(defk as u32);
            let mut f = BTreeSet::new();
            f.insert(Tag::new(b"liga"));
            f.insert(Tag::new(b"smcp"));
            SubsetDefinition::new(s, FeatureSet::Set(f), DesignSpace::All)
        }
    };
    let patches: Vec<&[u8]> = chunks.iter().skip(2).copied().collect();
    for round in 0..3usize {
        let Ok(font) = FontRef::new(&font_bytes) else { return o };
        o.opened = true;
        let mut compat: BTreeMap<String, [u8; 16]> = BTreeMap::new();
        if let Ok(ps) = intersecting_patches(&font, &def) {
            o.offered += ps.len() as u64;
            for p in ps.iter().take(512) {
                if let Ok(u) = p.uri_string() {
                    compat.insert(u, p.expected_compatibility_id().as_slice().try_into().unwrap_or([0; 16]));
                }
            }
        }
        let Ok(group) = PatchGroup::select_next_patches(font, &def) else { return o };
        let _ = group.has_uris();
        let uris: Vec<String> = group.uris().map(|s| s.to_string()).collect();
        if uris.is_empty() || patches.is_empty() {
            return o;
        }
        let mut map: HashMap<String, UriStatus> = HashMap::new();
        for (i, u) in uris.iter().enumerate() {
            let mut b = patches[(i + round) % patches.len()].to_vec();
            if flags & 8 != 0 {
                if let Some(id) = compat.get(u) {
                    let at = if b.starts_with(b"ifgk") { 9 } else { 8 };
                    if b.len() >= at + 16 {
                        b[at..at + 16].copy_from_slice(id);
                    }
                }
            }
            map.insert(u.clone(), UriStatus::Pending(b));
        }
        o.applies += 1;
        let r = if flags & 4 == 0 { group.apply_next_patches_with_decoder(&mut map, &NoopBrotliDecoder) } else { group.apply_next_patches_with_decoder(&mut map, &BuiltInBrotliDecoder) };
        match r {
            Ok(f) => {
                o.applies_ok += 1;
                font_bytes = f;
            }
            Err(_) => return o,
        }
    }
    o
}

/// seeds for the raw target, from the repository's fixtures
pub fn raw_seeds() -> Vec<Vec<u8>> {
    let mut out = vec![];
    let chunk = |v: &mut Vec<u8>, d: &[u8]| {
        v.extend_from_slice(&(d.len() as u16).to_be_bytes());
        v.extend_from_slice(d);
    };
    for m in 0..MAP_FIXTURES as u8 {
        for (flags, patch) in [(1u8 | 8, 3u8), (0 | 8, 0), (2 | 8, 7), (1 | 8, 6), (4, 0)] {
            let mut v = vec![flags, 0];
            chunk(&mut v, &map_fixture(m));
            chunk(&mut v, &[]);
            chunk(&mut v, &patch_fixture(patch));
            chunk(&mut v, &patch_fixture(patch + 1));
            out.push(v);
        }
    }
    out
}
