//! Three small by-construction generators for C02 / C20 input classes that byte mutation of corpus fonts does not reach:
//!
//! * `ift-uri-generated`: format 2 IFT patch maps (numeric id deltas or string ids of every length incl. empty, URI
//!   templates assembled from literal runs and every expansion variable in any order / multiplicity, malformed pieces),
//!   driven through `intersecting_patches` -> `PatchUri::uri_string` and `PatchGroup::select_next_patches` -> `uris`.
//! * `name-generated`: hand-encoded `name` tables (version 0 / 1, platforms 0 / 1 / 3, Mac Roman and UTF-16BE strings incl.
//!   unpaired surrogates and odd lengths, language ids below and above 0x8000, language-tag records of 0..80 characters,
//!   string ranges inside / straddling / beyond the storage), driven through `MetadataProvider::localized_strings`.
//! * `varcomposite-generated`: variable TrueType fonts whose glyph set has nested composites with sibling composites,
//!   per-component gvar deltas (write-fonts) whose delta counts may disagree with the component counts, plus edits
//!   confined to the glyph variation data (tuple flags, packed runs, truncation, unlocatable offsets), drawn through
//!   the common skrifa driver at non-default locations.
use crate::skdrive::SkArgs;
use proptest::prelude::*;
use serde::{Deserialize, Serialize};
use vcore::fontkit;

// =============================================================================================
// (A) IFT format 2 patch maps / URI templates

#[derive(Clone, Debug, Serialize, Deserialize, PartialEq)]
pub enum TplPart {
    /// literal bytes (any ASCII; some need percent-encoding, some are not allowed in a template)
    Lit(Vec<u8>),
    /// 0 {id}, 1 {id64}, 2..=5 {d1}..{d4}
    Var(u8),
    /// malformed / boundary pieces, by index into BAD_PARTS
    Bad(u8),
    /// arbitrary bytes (possibly not UTF-8)
    Raw(Vec<u8>),
}

pub const BAD_PARTS: &[&str] = &["{", "}", "{d5}", "{d0}", "{id6}", "{idx}", "{i}", "{}", "%", "%4", "%GG", "%41", "{d1", "{{id}}", "\u{7f}", "\u{e9}", " ", "<", "{D1}", "{id64", "{d}", "{d12}", "%e9", "\u{10348}"];

#[derive(Clone, Debug, Serialize, Deserialize, PartialEq)]
pub struct UriEntry {
    /// ENTRY_ID_DELTA field present
    pub has_id: bool,
    /// numeric ids: the int24 delta
    pub delta: i32,
    /// string ids: the id bytes; the length field is id.len() + len_adj
    pub id: Vec<u8>,
    pub len_adj: i8,
    pub format: Option<u8>,
    /// codepoint set: (bias kind 1 none / 2 u16 / 3 u24, bias, node byte of a height-1 branch-factor-8 sparse bit set)
    pub cps: Option<(u8, u32, u8)>,
    pub ignored: bool,
    /// child entries (selectors of prior entries) and the conjunctive flag
    pub children: Vec<u8>,
    pub conj: bool,
    pub features: Vec<[u8; 4]>,
}

#[derive(Clone, Debug, Serialize, Deserialize, PartialEq)]
pub struct UriMap {
    pub string_ids: bool,
    pub template: Vec<TplPart>,
    pub entries: Vec<UriEntry>,
    pub default_format: u8,
    pub compat: u8,
    /// entry count field - actual entry count
    pub count_adj: i8,
    /// 0 `IFT ` only, 1 `IFTX` only, 2 both (different compatibility ids), 3 both with the same id
    pub tables: u8,
    /// 0 small raw tables, 1 the repository's IFT base font
    pub base: u8,
    /// subset definition: 0 all, 1 a few code points, 2 empty
    pub def: u8,
}

pub fn template_bytes(t: &[TplPart]) -> Vec<u8> {
    let mut out = vec![];
    for p in t {
        match p {
            TplPart::Lit(b) => out.extend(b.iter().map(|x| x & 0x7F)),
            TplPart::Var(v) => out.extend_from_slice(match v % 6 {
                0 => b"{id}",
                1 => b"{id64}",
                2 => b"{d1}",
                3 => b"{d2}",
                4 => b"{d3}",
                _ => b"{d4}",
            }),
            TplPart::Bad(i) => out.extend_from_slice(BAD_PARTS[*i as usize % BAD_PARTS.len()].as_bytes()),
            TplPart::Raw(b) => out.extend_from_slice(b),
        }
    }
    out.truncate(2000);
    out
}

pub fn map_bytes(m: &UriMap, compat_xor: u32) -> Vec<u8> {
    let tmpl = template_bytes(&m.template);
    let mut v = vec![2u8, 0, 0, 0, 0];
    for c in [1u32, 2, 3, 4] {
        v.extend_from_slice(&(c ^ (m.compat as u32) ^ compat_xor).to_be_bytes());
    }
    v.push(m.default_format);
    let n = (m.entries.len() as i64 + m.count_adj as i64).clamp(0, 0xFF_FFFF) as u32;
    v.extend_from_slice(&n.to_be_bytes()[1..]);
    let entries_pos = v.len();
    v.extend_from_slice(&0u32.to_be_bytes());
    let strings_pos = v.len();
    v.extend_from_slice(&0u32.to_be_bytes());
    v.extend_from_slice(&(tmpl.len() as u16).to_be_bytes());
    v.extend_from_slice(&tmpl);
    let entries_off = v.len() as u32;
    v[entries_pos..entries_pos + 4].copy_from_slice(&entries_off.to_be_bytes());
    let mut strings: Vec<u8> = vec![];
    for (k, e) in m.entries.iter().enumerate() {
        let children: Vec<usize> = if k == 0 { vec![] } else { e.children.iter().take(5).map(|c| ((*c as usize) * k) >> 8).collect() };
        let feats = &e.features[..e.features.len().min(3)];
        let mut flags = 0u8;
        if !feats.is_empty() {
            flags |= 0x01;
        }
        if !children.is_empty() {
            flags |= 0x02;
        }
        if e.has_id {
            flags |= 0x04;
        }
        if e.format.is_some() {
            flags |= 0x08;
        }
        if let Some((kind, _, _)) = e.cps {
            flags |= match kind % 3 {
                0 => 0x10,
                1 => 0x20,
                _ => 0x30,
            };
        }
        if e.ignored {
            flags |= 0x40;
        }
        v.push(flags);
        if !feats.is_empty() {
            v.push(feats.len() as u8);
            for f in feats {
                v.extend_from_slice(f);
            }
            v.extend_from_slice(&0u16.to_be_bytes()); // no design space segments
        }
        if !children.is_empty() {
            v.push(children.len() as u8 | if e.conj { 0x80 } else { 0 });
            for c in &children {
                v.extend_from_slice(&(*c as u32).to_be_bytes()[1..]);
            }
        }
        if e.has_id {
            if m.string_ids {
                let id = &e.id[..e.id.len().min(300)];
                let len = (id.len() as i64 + e.len_adj as i64).clamp(0, 0xFFFF) as u16;
                v.extend_from_slice(&len.to_be_bytes());
                strings.extend_from_slice(id);
            } else {
                let d = e.delta.clamp(-0x80_0000, 0x7F_FFFF);
                v.extend_from_slice(&d.to_be_bytes()[1..]);
            }
        }
        if let Some(f) = e.format {
            v.push(f);
        }
        if let Some((kind, bias, node)) = e.cps {
            match kind % 3 {
                0 => {}
                1 => v.extend_from_slice(&(bias as u16).to_be_bytes()),
                _ => v.extend_from_slice(&(bias & 0xFF_FFFF).to_be_bytes()[1..]),
            }
            // sparse bit set: branch factor 8 (code 2), height 1, one node
            v.push(0b0000_0110);
            v.push(node);
        }
    }
    if m.string_ids {
        let off = v.len() as u32;
        v[strings_pos..strings_pos + 4].copy_from_slice(&off.to_be_bytes());
        v.extend_from_slice(&strings);
        if strings.is_empty() {
            v.push(b'x'); // the offset must lie inside the table
        }
    }
    v
}

pub fn uri_font(m: &UriMap) -> Vec<u8> {
    let mut tables = crate::iftdrive::base_tables(if m.base % 2 == 0 { 0 } else { 1 });
    tables.retain(|t| &t.0 != b"IFT " && &t.0 != b"IFTX");
    match m.tables % 4 {
        0 => tables.push((*b"IFT ", map_bytes(m, 0))),
        1 => tables.push((*b"IFTX", map_bytes(m, 0))),
        2 => {
            tables.push((*b"IFT ", map_bytes(m, 0)));
            tables.push((*b"IFTX", map_bytes(m, 0x100)));
        }
        _ => {
            tables.push((*b"IFT ", map_bytes(m, 0)));
            tables.push((*b"IFTX", map_bytes(m, 0)));
        }
    }
    vcore::sfnt::assemble(0x0001_0000, &tables)
}

#[derive(Default, Debug, Clone)]
pub struct UriOutcome {
    pub opened: bool,
    pub map_ok: bool,
    pub patches: u64,
    pub uris_ok: u64,
    pub uris_err: u64,
    pub group_ok: bool,
    pub group_uris: u64,
    pub digest: u64,
}

pub fn drive_uri(data: &[u8], def: u8) -> UriOutcome {
    use incremental_font_transfer::patch_group::PatchGroup;
    use incremental_font_transfer::patchmap::{intersecting_patches, SubsetDefinition};
    use read_fonts::collections::IntSet;
    let mut o = UriOutcome::default();
    let Ok(font) = read_fonts::FontRef::new(data) else { return o };
    o.opened = true;
    let defs: Vec<SubsetDefinition> = match def % 3 {
        0 => vec![SubsetDefinition::all()],
        1 => {
            let mut s = IntSet::<u32>::empty();
            for c in [0u32, 5, 7, 0x41, 0x100, 0xFFFF, 0x10000] {
                s.insert(c);
            }
            vec![SubsetDefinition::codepoints(s), SubsetDefinition::all()]
        }
        _ => vec![SubsetDefinition::codepoints(IntSet::<u32>::empty()), SubsetDefinition::all()],
    };
    for d in &defs {
        if let Ok(patches) = intersecting_patches(&font, d) {
            o.map_ok = true;
            for p in &patches {
                o.patches += 1;
                let _ = p.encoding();
                let _ = p.expected_compatibility_id();
                match p.uri_string() {
                    Ok(s) => {
                        o.uris_ok += 1;
                        o.digest = o.digest.wrapping_mul(31).wrapping_add(vcore::fnv64(s.as_bytes()));
                    }
                    Err(e) => {
                        o.uris_err += 1;
                        let _ = format!("{e} {e:?}");
                    }
                }
                let _ = format!("{p:?}").len();
            }
        }
        if let Ok(g) = PatchGroup::select_next_patches(font.clone(), d) {
            o.group_ok = true;
            let _ = g.has_uris();
            for u in g.uris() {
                o.group_uris += 1;
                o.digest = o.digest.wrapping_mul(31).wrapping_add(u.len() as u64);
            }
        }
    }
    o
}

fn lit_bytes() -> impl Strategy<Value = Vec<u8>> {
    let palette: Vec<u8> = b"abcXYZ0199/-._~:?#[]@!$&'()*+,;=//foo\"^`|\\<> \x00\x1f\x7f".to_vec();
    proptest::collection::vec(prop_oneof![6 => proptest::sample::select(palette), 1 => 0u8..128], 0..6)
}

fn template() -> impl Strategy<Value = Vec<TplPart>> {
    let part = prop_oneof![
        6 => lit_bytes().prop_map(TplPart::Lit),
        10 => (0u8..6).prop_map(TplPart::Var),
        1 => (0u8..BAD_PARTS.len() as u8).prop_map(TplPart::Bad),
        1 => proptest::collection::vec(any::<u8>(), 1..4).prop_map(TplPart::Raw),
    ];
    let clean = prop_oneof![2 => proptest::sample::select(b"abcXYZ019/-._~".to_vec()).prop_map(|c| TplPart::Lit(vec![c])), 3 => (0u8..6).prop_map(TplPart::Var)];
    prop_oneof![3 => proptest::collection::vec(clean, 0..8), 2 => proptest::collection::vec(part, 0..8)]
}

fn id_string() -> impl Strategy<Value = Vec<u8>> {
    let byte = prop_oneof![4 => 0x61u8..0x7B, 2 => any::<u8>(), 1 => proptest::sample::select(vec![0u8, 0xFF, 0x80, b'/', b'%', b'{', b'}', b'_', b'-', 0xC3, 0xA9])];
    prop_oneof![
        3 => Just(vec![]),
        8 => proptest::collection::vec(byte.clone(), 1..=5),
        2 => proptest::collection::vec(byte.clone(), 6..=16),
        1 => proptest::collection::vec(byte, 17..=200),
    ]
}

fn uri_entry() -> impl Strategy<Value = UriEntry> {
    (
        (proptest::bool::weighted(0.6), prop_oneof![8 => 0i32..6, 3 => Just(0i32), 1 => -3i32..0, 3 => proptest::sample::select(vec![0x7F_FFFF, -1, 1, 255, 256, 31, 32, 1023, 1024, 0x7F_FFFE, 65535, 65536, 0x10_0000]), 1 => proptest::sample::select(vec![-0x80_0000i32, -0x7F_FFFF, -2]), 1 => -0x80_0000i32..0x80_0000], id_string(), prop_oneof![60 => Just(0i8), 1 => Just(1i8), 1 => Just(-1i8), 1 => any::<i8>()]),
        (prop_oneof![18 => Just(None), 6 => (1u8..=3).prop_map(Some), 1 => any::<u8>().prop_map(Some)], prop_oneof![3 => Just(None), 2 => (0u8..3, prop_oneof![0u32..64, Just(0x41u32), Just(0x10FFF8u32), any::<u32>()], prop_oneof![Just(0u8), Just(0xFFu8), any::<u8>()]).prop_map(Some)], proptest::bool::weighted(0.1)),
        (prop_oneof![5 => Just(vec![]), 1 => proptest::collection::vec(any::<u8>(), 1..4)], any::<bool>(), prop_oneof![6 => Just(vec![]), 1 => proptest::collection::vec(proptest::sample::select(vec![*b"liga", *b"smcp", *b"wght"]), 1..3)]),
    )
        .prop_map(|((has_id, delta, id, len_adj), (format, cps, ignored), (children, conj, features))| UriEntry { has_id, delta, id, len_adj, format, cps, ignored, children, conj, features })
}

pub fn uri_strategy() -> impl Strategy<Value = UriMap> {
    (
        any::<bool>(),
        template(),
        prop_oneof![6 => proptest::collection::vec(uri_entry(), 1..=6), 2 => proptest::collection::vec(uri_entry(), 7..=40)],
        (prop_oneof![16 => 1u8..=3, 1 => any::<u8>()], any::<u8>(), prop_oneof![30 => Just(0i8), 1 => Just(1i8), 1 => Just(-1i8)], prop_oneof![5 => Just(0u8), 1 => Just(1u8), 1 => Just(2u8), 1 => Just(3u8)], prop_oneof![3 => Just(0u8), 1 => Just(1u8)], 0u8..3),
    )
        .prop_map(|(string_ids, template, entries, (default_format, compat, count_adj, tables, base, def))| UriMap { string_ids, template, entries, default_format, compat, count_adj, tables, base, def })
}

// =============================================================================================
// (B) name tables

#[derive(Clone, Debug, Serialize, Deserialize, PartialEq)]
pub struct NameText {
    /// UTF-16 code units (unpaired surrogates allowed); `narrow`: only the low byte of every unit is stored (Mac Roman)
    pub units: Vec<u16>,
    pub narrow: bool,
    /// added to the byte length / byte offset of the string's range in the storage area
    pub len_adj: i16,
    pub off_adj: i16,
}

#[derive(Clone, Debug, Serialize, Deserialize, PartialEq)]
pub struct NameRec {
    pub platform: u16,
    pub encoding: u16,
    /// < 0x8000: used as is; otherwise 0x8000 + (lang_sel scaled into 0 ..= lang tag count + 1)
    pub language: u16,
    pub lang_sel: u8,
    pub name_id: u16,
    pub text: NameText,
}

#[derive(Clone, Debug, Serialize, Deserialize, PartialEq)]
pub struct NameSpec {
    pub version: u16,
    pub records: Vec<NameRec>,
    pub lang_tags: Vec<NameText>,
    /// count field - record count; lang tag count field - lang tag count; storage offset adjustment
    pub count_adj: i8,
    pub tag_count_adj: i8,
    pub storage_adj: i16,
    /// wrap in a font with head / maxp / hhea / hmtx (true) or as the only table (false)
    pub full_font: bool,
}

pub fn name_table(s: &NameSpec) -> Vec<u8> {
    let recs = &s.records[..s.records.len().min(60)];
    let tags = &s.lang_tags[..s.lang_tags.len().min(20)];
    let v1 = s.version == 1;
    let header = 6 + 12 * recs.len() + if v1 { 2 + 4 * tags.len() } else { 0 };
    let mut storage: Vec<u8> = vec![];
    let place = |t: &NameText, storage: &mut Vec<u8>| -> (u16, u16) {
        let start = storage.len();
        for u in t.units.iter().take(400) {
            if t.narrow {
                storage.push(*u as u8);
            } else {
                storage.extend_from_slice(&u.to_be_bytes());
            }
        }
        let len = storage.len() - start;
        let off = (start as i64 + t.off_adj as i64).clamp(0, 0xFFFF) as u16;
        let len = (len as i64 + t.len_adj as i64).clamp(0, 0xFFFF) as u16;
        (off, len)
    };
    let rec_ranges: Vec<(u16, u16)> = recs.iter().map(|r| place(&r.text, &mut storage)).collect();
    let tag_ranges: Vec<(u16, u16)> = tags.iter().map(|t| place(t, &mut storage)).collect();
    let mut v = vec![];
    v.extend_from_slice(&s.version.to_be_bytes());
    v.extend_from_slice(&((recs.len() as i64 + s.count_adj as i64).clamp(0, 0xFFFF) as u16).to_be_bytes());
    v.extend_from_slice(&((header as i64 + s.storage_adj as i64).clamp(0, 0xFFFF) as u16).to_be_bytes());
    for (r, (off, len)) in recs.iter().zip(&rec_ranges) {
        let lang = if r.language < 0x8000 { r.language } else { 0x8000u16.wrapping_add((((r.lang_sel as usize) * (tags.len() + 2)) >> 8) as u16) };
        for x in [r.platform, r.encoding, lang, r.name_id, *len, *off] {
            v.extend_from_slice(&x.to_be_bytes());
        }
    }
    if v1 {
        v.extend_from_slice(&((tags.len() as i64 + s.tag_count_adj as i64).clamp(0, 0xFFFF) as u16).to_be_bytes());
        for (off, len) in &tag_ranges {
            v.extend_from_slice(&len.to_be_bytes());
            v.extend_from_slice(&off.to_be_bytes());
        }
    }
    v.extend_from_slice(&storage);
    v
}

pub fn name_font(s: &NameSpec) -> Vec<u8> {
    let name = name_table(s);
    if s.full_font {
        let kit = fontkit::Kit { num_glyphs: 1, upem: 1000, glyf: Some((vec![], vec![0, 0])), h_metrics: vec![(500, 0)], extra: vec![(*b"name", name)], ..Default::default() };
        kit.build()
    } else {
        vcore::sfnt::assemble(0x0001_0000, &[(*b"name", name)])
    }
}

#[derive(Default, Debug, Clone)]
pub struct NameOutcome {
    pub opened: bool,
    pub strings: u64,
    pub with_language: u64,
    pub tag_languages: u64,
    pub chars: u64,
    pub best: u64,
    pub digest: u64,
}

pub fn drive_names(data: &[u8], extra_ids: &[u16]) -> NameOutcome {
    use skrifa::string::StringId;
    use skrifa::MetadataProvider;
    let mut o = NameOutcome::default();
    let Ok(font) = skrifa::FontRef::new(data) else { return o };
    o.opened = true;
    let mut ids: Vec<StringId> = StringId::predefined().collect();
    ids.extend(extra_ids.iter().map(|i| StringId::new(*i)));
    for id in ids {
        for s in font.localized_strings(id) {
            o.strings += 1;
            if let Some(l) = s.language() {
                o.with_language += 1;
                // tags from a langTagRecord are the only ones that can be longer than 11 characters or empty
                if l.is_empty() || l.len() > 11 || l.contains("-x-") {
                    o.tag_languages += 1;
                }
                o.digest = o.digest.wrapping_mul(31).wrapping_add(vcore::fnv64(l.as_bytes()));
            }
            let n = s.chars().count() as u64;
            o.chars += n;
            let t = s.to_string();
            o.digest = o.digest.wrapping_mul(31).wrapping_add(t.len() as u64 ^ n);
            let _ = format!("{s:?}").len();
            let _ = s.clone().chars().next();
        }
        let ls = font.localized_strings(id);
        if let Some(b) = ls.clone().english_or_first() {
            o.best += 1;
            o.digest = o.digest.wrapping_add(b.chars().count() as u64 + b.language().map(|l| l.len()).unwrap_or(0) as u64);
        }
        let _ = ls.id();
    }
    o
}

fn units(kind: u8, n: usize) -> BoxedStrategy<Vec<u16>> {
    match kind {
        // ASCII (language tags)
        0 => proptest::collection::vec(prop_oneof![8 => 0x61u16..0x7B, 2 => Just(0x2Du16), 1 => 0x30u16..0x3A, 1 => 0x41u16..0x5B], n..=n).boxed(),
        _ => proptest::collection::vec(
            prop_oneof![
                6 => 0x20u16..0x7F,
                2 => 0x80u16..0x100,
                2 => proptest::sample::select(vec![0xD800u16, 0xDBFF, 0xDC00, 0xDFFF, 0xFFFF, 0xFFFE, 0, 0x7F, 0x80, 0xFEFF]),
                1 => any::<u16>(),
            ],
            n..=n,
        )
        .boxed(),
    }
}

fn adj() -> impl Strategy<Value = i16> {
    prop_oneof![16 => Just(0i16), 1 => Just(1i16), 1 => Just(-1i16), 1 => proptest::sample::select(vec![2i16, -2, 7, 100, 1000, 30000, -30000, i16::MAX, i16::MIN])]
}

fn tag_text() -> impl Strategy<Value = NameText> {
    // lengths around the 30-byte inline buffer of skrifa::string::Language
    let len = prop_oneof![3 => 0usize..=12, 2 => 13usize..=28, 2 => Just(29usize), 3 => Just(30usize), 3 => Just(31usize), 2 => Just(32usize), 2 => 33usize..=80];
    (len, prop_oneof![8 => Just(0u8), 1 => Just(1u8)], proptest::bool::weighted(0.05), adj(), adj()).prop_flat_map(|(n, kind, narrow, len_adj, off_adj)| units(kind, n).prop_map(move |units| NameText { units, narrow, len_adj, off_adj }))
}

fn rec_text() -> impl Strategy<Value = NameText> {
    (prop_oneof![1 => Just(0usize), 6 => 1usize..=8, 2 => 9usize..=40, 1 => 41usize..=200], any::<bool>(), adj(), adj()).prop_flat_map(|(n, narrow, len_adj, off_adj)| units(1, n).prop_map(move |units| NameText { units, narrow, len_adj, off_adj }))
}

fn name_rec() -> impl Strategy<Value = NameRec> {
    (
        prop_oneof![2 => Just(0u16), 3 => Just(1u16), 6 => Just(3u16), 1 => Just(2u16), 1 => any::<u16>()],
        prop_oneof![3 => Just(0u16), 4 => Just(1u16), 2 => Just(10u16), 1 => 0u16..12, 1 => any::<u16>()],
        prop_oneof![3 => Just(0u16), 3 => Just(0x409u16), 2 => proptest::sample::select(vec![1u16, 11, 0x411, 0x804, 0x7FFF, 150, 151]), 6 => Just(0x8000u16), 1 => any::<u16>()],
        any::<u8>(),
        prop_oneof![8 => 0u16..8, 2 => 8u16..26, 1 => proptest::sample::select(vec![255u16, 256, 0x7FFF, 0x8000, 0xFFFF]), 1 => any::<u16>()],
        rec_text(),
    )
        .prop_map(|(platform, encoding, language, lang_sel, name_id, text)| NameRec { platform, encoding, language, lang_sel, name_id, text })
}

pub fn name_strategy() -> impl Strategy<Value = NameSpec> {
    (
        prop_oneof![4 => Just(0u16), 8 => Just(1u16), 1 => Just(2u16), 1 => any::<u16>()],
        prop_oneof![8 => proptest::collection::vec(name_rec(), 1..=8), 1 => proptest::collection::vec(name_rec(), 9..=30), 1 => Just(vec![])],
        prop_oneof![1 => Just(vec![]), 6 => proptest::collection::vec(tag_text(), 1..=4), 1 => proptest::collection::vec(tag_text(), 5..=12)],
        (prop_oneof![16 => Just(0i8), 1 => Just(1i8), 1 => Just(-1i8), 1 => any::<i8>()], prop_oneof![16 => Just(0i8), 1 => Just(1i8), 1 => Just(-1i8), 1 => any::<i8>()], adj(), proptest::bool::weighted(0.3)),
    )
        .prop_map(|(version, records, lang_tags, (count_adj, tag_count_adj, storage_adj, full_font))| NameSpec { version, records, lang_tags, count_adj, tag_count_adj, storage_adj, full_font })
}

#[derive(Clone, Debug, Serialize, Deserialize)]
pub struct NameCase {
    pub name: NameSpec,
    pub extra_ids: Vec<u16>,
    pub args: SkArgs,
}

// =============================================================================================
// (C) variable TrueType fonts with nested composites and per-component gvar data

#[derive(Clone, Debug, Serialize, Deserialize, PartialEq)]
pub struct VcComp {
    /// selector of an earlier glyph; `prefer_composite`: select among the earlier *composite* glyphs when there are any
    pub target: u8,
    pub prefer_composite: bool,
    pub dx: i16,
    pub dy: i16,
    /// 0 none, 1 scale, 2 x/y scale, 3 two by two
    pub scale_kind: u8,
    pub scale: [i16; 4],
    /// USE_MY_METRICS / ROUND_XY_TO_GRID / SCALED_COMPONENT_OFFSET / UNSCALED_COMPONENT_OFFSET / OVERLAP_COMPOUND
    pub extra_flags: u16,
    /// anchor by point numbers instead of an offset
    pub anchor_points: Option<(u8, u8)>,
}

#[derive(Clone, Debug, Serialize, Deserialize, PartialEq)]
pub struct VcTuple {
    /// peak per axis (F2Dot14 bits, cycled), 0 is replaced by 1.0
    pub peaks: Vec<i16>,
    pub intermediate: bool,
    /// bit i set: delta i may be omitted (sparse tuple with explicit point numbers)
    pub optional_mask: u16,
    pub pool: Vec<i16>,
}

#[derive(Clone, Debug, Serialize, Deserialize, PartialEq)]
pub struct VcVar {
    pub tuples: Vec<VcTuple>,
    /// deltas per tuple = point count (components or points, + 4 phantom points) + count_adj: the data disagrees with the glyph
    pub count_adj: i8,
}

#[derive(Clone, Debug, Serialize, Deserialize, PartialEq)]
pub enum VcGlyph {
    Simple { points: Vec<(i16, i16)>, var: VcVar },
    Composite { comps: Vec<VcComp>, var: VcVar },
}

#[derive(Clone, Debug, Serialize, Deserialize, PartialEq)]
pub struct GvarEdit {
    /// glyph selector (scaled into the glyph count)
    pub glyph: u8,
    /// 0 set a byte of the glyph's variation data, 1 xor the flag byte of the first tuple header, 2 set the first byte of
    /// the serialized data (shared point count / first run header), 3 truncate the data, 4 make the offsets unlocatable,
    /// 5 xor the tuple variation count word, 6 change the first tuple's variationDataSize
    pub kind: u8,
    pub pos: u16,
    pub val: u8,
}

#[derive(Clone, Debug, Serialize, Deserialize, PartialEq)]
pub struct VcFont {
    pub axes: u8,
    pub glyphs: Vec<VcGlyph>,
    pub edits: Vec<GvarEdit>,
    pub upem: u16,
    pub long_offsets: bool,
}

#[derive(Clone, Debug, Serialize, Deserialize)]
pub struct VcCase {
    pub font: VcFont,
    pub args: SkArgs,
}

fn be16(v: &mut Vec<u8>, x: i32) {
    v.extend_from_slice(&(x as i16).to_be_bytes());
}

/// for every glyph (index 0 = .notdef): is it a composite, and its nesting depth
pub fn vc_shape(f: &VcFont) -> Vec<(bool, usize, Vec<usize>)> {
    // (is composite, depth, resolved component targets)
    let mut out: Vec<(bool, usize, Vec<usize>)> = vec![(false, 0, vec![])];
    for g in f.glyphs.iter().take(12) {
        match g {
            VcGlyph::Simple { .. } => out.push((false, 0, vec![])),
            VcGlyph::Composite { comps, .. } => {
                let avail = out.len();
                let composites: Vec<usize> = (1..avail).filter(|i| out[*i].0).collect();
                let mut targets = vec![];
                for c in comps.iter().take(4) {
                    let t = if c.prefer_composite && !composites.is_empty() {
                        composites[((c.target as usize) * composites.len()) >> 8]
                    } else if avail > 1 {
                        1 + (((c.target as usize) * (avail - 1)) >> 8)
                    } else {
                        0
                    };
                    targets.push(t);
                }
                let depth = 1 + targets.iter().map(|t| out[*t].1).max().unwrap_or(0);
                out.push((true, depth, targets));
            }
        }
    }
    out
}

pub fn vc_build(f: &VcFont) -> Vec<u8> {
    let shape = vc_shape(f);
    let mut glyf: Vec<u8> = vec![];
    let mut offsets: Vec<u32> = vec![0, 0];
    // number of "points" gvar sees per glyph (points or components), without phantom points
    let mut npts: Vec<usize> = vec![0];
    for (gi, g) in f.glyphs.iter().take(12).enumerate() {
        let gid = gi + 1;
        match g {
            VcGlyph::Simple { points, .. } => {
                let pts = &points[..points.len().min(12)];
                if pts.is_empty() {
                    offsets.push(glyf.len() as u32);
                    npts.push(0);
                    continue;
                }
                be16(&mut glyf, 1);
                let xs: Vec<i32> = pts.iter().map(|p| p.0 as i32).collect();
                let ys: Vec<i32> = pts.iter().map(|p| p.1 as i32).collect();
                for v in [*xs.iter().min().unwrap(), *ys.iter().min().unwrap(), *xs.iter().max().unwrap(), *ys.iter().max().unwrap()] {
                    be16(&mut glyf, v);
                }
                be16(&mut glyf, pts.len() as i32 - 1);
                be16(&mut glyf, 0); // no instructions
                for _ in pts {
                    glyf.push(1); // on curve, words
                }
                let mut last = 0i32;
                for x in &xs {
                    be16(&mut glyf, x.wrapping_sub(last));
                    last = *x;
                }
                last = 0;
                for y in &ys {
                    be16(&mut glyf, y.wrapping_sub(last));
                    last = *y;
                }
                npts.push(pts.len());
            }
            VcGlyph::Composite { comps, .. } => {
                let targets = &shape[gid].2;
                if targets.is_empty() || targets.iter().any(|t| *t == 0) {
                    offsets.push(glyf.len() as u32);
                    npts.push(0);
                    continue;
                }
                be16(&mut glyf, -1);
                for v in [-1000, -1000, 2000, 2000] {
                    be16(&mut glyf, v);
                }
                for (ci, (c, t)) in comps.iter().zip(targets).enumerate() {
                    let mut flags: u16 = 0x0001 | (c.extra_flags & (0x0004 | 0x0200 | 0x0400 | 0x0800 | 0x1000));
                    if c.anchor_points.is_none() {
                        flags |= 0x0002;
                    }
                    match c.scale_kind % 4 {
                        1 => flags |= 0x0008,
                        2 => flags |= 0x0040,
                        3 => flags |= 0x0080,
                        _ => {}
                    }
                    if ci + 1 < targets.len() {
                        flags |= 0x0020;
                    }
                    be16(&mut glyf, flags as i32);
                    be16(&mut glyf, *t as i32);
                    match c.anchor_points {
                        Some((a, b)) => {
                            be16(&mut glyf, a as i32);
                            be16(&mut glyf, b as i32);
                        }
                        None => {
                            be16(&mut glyf, c.dx as i32);
                            be16(&mut glyf, c.dy as i32);
                        }
                    }
                    let k = match c.scale_kind % 4 {
                        1 => 1,
                        2 => 2,
                        3 => 4,
                        _ => 0,
                    };
                    for s in c.scale.iter().take(k) {
                        be16(&mut glyf, *s as i32);
                    }
                }
                npts.push(targets.len());
            }
        }
        if glyf.len() % 2 == 1 {
            glyf.push(0);
        }
        offsets.push(glyf.len() as u32);
    }
    let num_glyphs = (offsets.len() - 1) as u16;
    let ac = (f.axes.clamp(1, 3)) as usize;
    let axes: Vec<fontkit::Axis> = (0..ac).map(|a| fontkit::Axis { tag: [b'a', b'x', b'0' + a as u8, b' '], min: 100 << 16, default: 400 << 16, max: 900 << 16 }).collect();
    let mut extra: Vec<([u8; 4], Vec<u8>)> = vec![];
    {
        use write_fonts::tables::gvar::{GlyphDelta, GlyphDeltas, GlyphVariations, Gvar, Tent};
        use write_fonts::types::{F2Dot14, GlyphId};
        let mut vars = vec![GlyphVariations::new(GlyphId::new(0), vec![])];
        for (gi, g) in f.glyphs.iter().take(12).enumerate() {
            let gid = gi + 1;
            let var = match g {
                VcGlyph::Simple { var, .. } | VcGlyph::Composite { var, .. } => var,
            };
            let mut gv = vec![];
            let n = (npts[gid] as i64 + 4 + var.count_adj as i64).clamp(1, 40) as usize;
            if npts[gid] > 0 {
                for t in var.tuples.iter().take(3) {
                    let tents: Vec<Tent> = (0..ac)
                        .map(|a| {
                            let p = if t.peaks.is_empty() { 0x4000 } else { t.peaks[a % t.peaks.len()] }.clamp(-0x4000, 0x4000);
                            let p = if p == 0 { 0x4000 } else { p };
                            let inter = t.intermediate.then(|| if p > 0 { (F2Dot14::from_bits(p / 4), F2Dot14::from_bits(0x4000)) } else { (F2Dot14::from_bits(-0x4000), F2Dot14::from_bits(p / 4)) });
                            Tent::new(F2Dot14::from_bits(p), inter)
                        })
                        .collect();
                    let deltas: Vec<GlyphDelta> = (0..n)
                        .map(|i| {
                            let dx = if t.pool.is_empty() { 10 } else { t.pool[(2 * i) % t.pool.len()] };
                            let dy = if t.pool.is_empty() { -10 } else { t.pool[(2 * i + 1) % t.pool.len()] };
                            if (t.optional_mask >> (i % 16)) & 1 == 1 {
                                GlyphDelta::optional(dx, dy)
                            } else {
                                GlyphDelta::required(dx, dy)
                            }
                        })
                        .collect();
                    gv.push(GlyphDeltas::new(tents, deltas));
                }
            }
            vars.push(GlyphVariations::new(GlyphId::new(gid as u32), gv));
        }
        if let Ok(gvar) = Gvar::new(vars, ac as u16) {
            if let Ok(mut bytes) = write_fonts::dump_table(&gvar) {
                if f.long_offsets {
                    bytes = gvar_to_long_offsets(&bytes);
                }
                apply_gvar_edits(&mut bytes, &f.edits);
                extra.push((*b"gvar", bytes));
            }
        }
    }
    let kit = fontkit::Kit { num_glyphs, upem: f.upem, glyf: Some((glyf, offsets)), h_metrics: (0..num_glyphs).map(|i| (500 + 10 * i, 10)).collect(), axes, extra, ..Default::default() };
    kit.build()
}

fn rd16(b: &[u8], at: usize) -> Option<usize> {
    Some(u16::from_be_bytes([*b.get(at)?, *b.get(at + 1)?]) as usize)
}
fn rd32(b: &[u8], at: usize) -> Option<usize> {
    Some(u32::from_be_bytes([*b.get(at)?, *b.get(at + 1)?, *b.get(at + 2)?, *b.get(at + 3)?]) as usize)
}

/// rewrite a gvar table with short offsets into one with long offsets
fn gvar_to_long_offsets(b: &[u8]) -> Vec<u8> {
    let (Some(gc), Some(flags), Some(arr)) = (rd16(b, 12), rd16(b, 14), rd32(b, 16)) else { return b.to_vec() };
    if flags & 1 == 1 || b.len() < 20 + 2 * (gc + 1) {
        return b.to_vec();
    }
    let grow = 2 * (gc + 1);
    let mut out = b[..20].to_vec();
    out[15] |= 1;
    for i in 0..=gc {
        let o = rd16(b, 20 + 2 * i).unwrap_or(0) * 2;
        out.extend_from_slice(&(o as u32).to_be_bytes());
    }
    out.extend_from_slice(&b[20 + 2 * (gc + 1)..]);
    let shared = rd32(b, 8).unwrap_or(0) + grow;
    out[8..12].copy_from_slice(&(shared as u32).to_be_bytes());
    out[16..20].copy_from_slice(&((arr + grow) as u32).to_be_bytes());
    out
}

/// edits confined to the glyph variation data (and its offsets) of the selected glyphs
pub fn apply_gvar_edits(b: &mut Vec<u8>, edits: &[GvarEdit]) {
    for e in edits.iter().take(3) {
        let (Some(gc), Some(flags), Some(arr)) = (rd16(b, 12), rd16(b, 14), rd32(b, 16)) else { return };
        if gc == 0 {
            return;
        }
        let long = flags & 1 == 1;
        let g = ((e.glyph as usize) * gc) >> 8;
        let off_at = |i: usize| if long { 20 + 4 * i } else { 20 + 2 * i };
        let read_off = |b: &[u8], i: usize| if long { rd32(b, off_at(i)) } else { rd16(b, off_at(i)).map(|x| x * 2) };
        let (Some(o0), Some(o1)) = (read_off(b, g), read_off(b, g + 1)) else { return };
        let write_off = |b: &mut Vec<u8>, i: usize, v: usize| {
            let at = off_at(i);
            if long {
                if at + 4 <= b.len() {
                    b[at..at + 4].copy_from_slice(&(v as u32).to_be_bytes());
                }
            } else if at + 2 <= b.len() {
                b[at..at + 2].copy_from_slice(&((v / 2).min(0xFFFF) as u16).to_be_bytes());
            }
        };
        let (start, end) = (arr + o0, arr + o1);
        let len = end.saturating_sub(start);
        match e.kind % 7 {
            0 => {
                if len > 0 {
                    let at = start + (((e.pos as usize) * len) >> 16);
                    if at < b.len() {
                        b[at] = e.val;
                    }
                }
            }
            1 => {
                // tupleVariationCount(2) dataOffset(2) | variationDataSize(2) tupleIndex(2): flags are the high bits of tupleIndex
                if len >= 8 && start + 6 < b.len() {
                    b[start + 6] ^= e.val & 0xF0;
                }
            }
            2 => {
                if len >= 4 {
                    if let Some(d) = rd16(b, start + 2) {
                        let at = start + d + (e.pos as usize % 3);
                        if at < end && at < b.len() {
                            b[at] = e.val;
                        }
                    }
                }
            }
            3 => {
                let cut = 1 + (e.val as usize % 12);
                write_off(b, g + 1, o1.saturating_sub(cut.min(len)));
            }
            4 => {
                if e.val & 1 == 0 {
                    write_off(b, g, if long { 0xFFFF_FFF0 } else { 0x1FFFE });
                } else {
                    write_off(b, g + 1, o0.saturating_sub(2));
                }
            }
            5 => {
                if len >= 2 && start + 1 < b.len() {
                    b[start] ^= e.val & 0x80;
                    b[start + 1] ^= e.val & 0x07;
                }
            }
            _ => {
                if len >= 6 && start + 5 < b.len() {
                    b[start + 5] = b[start + 5].wrapping_add(e.val % 16).wrapping_sub(8);
                }
            }
        }
    }
}

fn coord() -> impl Strategy<Value = i16> {
    prop_oneof![4 => -400i16..800, 1 => proptest::sample::select(vec![0i16, 1, -1, 32767, -32768, 1000, -1000])]
}

fn vc_var(max_tuples: usize) -> impl Strategy<Value = VcVar> {
    let tuple = (
        proptest::collection::vec(proptest::sample::select(vec![0x4000i16, -0x4000, 0x2000, 0x1000, -0x2000, 0]), 1..4),
        proptest::bool::weighted(0.2),
        prop_oneof![5 => Just(0u16), 2 => any::<u16>(), 1 => Just(0xFFFFu16)],
        proptest::collection::vec(prop_oneof![4 => -60i16..60, 1 => proptest::sample::select(vec![0i16, 127, 128, -128, -129, 32767, -32768])], 1..6),
    )
        .prop_map(|(peaks, intermediate, optional_mask, pool)| VcTuple { peaks, intermediate, optional_mask, pool });
    (proptest::collection::vec(tuple, 0..=max_tuples), prop_oneof![8 => Just(0i8), 2 => Just(-1i8), 2 => Just(1i8), 1 => Just(2i8), 1 => Just(-4i8), 1 => -6i8..8]).prop_map(|(tuples, count_adj)| VcVar { tuples, count_adj })
}

fn vc_comp() -> impl Strategy<Value = VcComp> {
    (
        any::<u8>(),
        proptest::bool::weighted(0.55),
        (coord(), coord()),
        prop_oneof![6 => Just(0u8), 1 => 1u8..4],
        (proptest::sample::select(vec![0x4000i16, 0x2000, -0x4000, 0x7FFF, i16::MIN, 0, 1]), proptest::sample::select(vec![0i16, 0x1000, -0x4000]), proptest::sample::select(vec![0i16, 0x1000, 0x7FFF]), proptest::sample::select(vec![0x4000i16, 0x2000, -0x4000, 0x7FFF])).prop_map(|(a, b, c, d)| [a, b, c, d]),
        prop_oneof![3 => Just(0u16), 2 => any::<u16>()],
        proptest::option::weighted(0.1, (prop_oneof![4 => 0u8..8, 1 => any::<u8>()], prop_oneof![4 => 0u8..8, 1 => any::<u8>()])),
    )
        .prop_map(|(target, prefer_composite, (dx, dy), scale_kind, scale, extra_flags, anchor_points)| VcComp { target, prefer_composite, dx, dy, scale_kind, scale, extra_flags, anchor_points })
}

pub fn vc_strategy() -> impl Strategy<Value = VcFont> {
    let simple = (proptest::collection::vec((coord(), coord()), 3..7), vc_var(2)).prop_map(|(points, var)| VcGlyph::Simple { points, var });
    let simple2 = (proptest::collection::vec((coord(), coord()), 3..7), vc_var(2)).prop_map(|(points, var)| VcGlyph::Simple { points, var });
    let composite = (proptest::collection::vec(vc_comp(), 2..=4), vc_var(3)).prop_map(|(comps, var)| VcGlyph::Composite { comps, var });
    let later = prop_oneof![1 => simple2, 5 => composite];
    let edit = (any::<u8>(), 0u8..7, any::<u16>(), prop_oneof![Just(0u8), Just(0xFFu8), Just(0x80u8), Just(0x3Fu8), Just(0x40u8), any::<u8>()]).prop_map(|(glyph, kind, pos, val)| GvarEdit { glyph, kind, pos, val });
    (
        1u8..=3,
        (proptest::collection::vec(simple, 1..=2), proptest::collection::vec(later, 2..=7)),
        prop_oneof![3 => Just(vec![]), 4 => proptest::collection::vec(edit, 1..=3)],
        proptest::sample::select(vec![1000u16, 1000, 2048, 16, 16384]),
        proptest::bool::weighted(0.3),
    )
        .prop_map(|(axes, (mut glyphs, later), edits, upem, long_offsets)| {
            glyphs.extend(later);
            VcFont { axes, glyphs, edits, upem, long_offsets }
        })
}

/// non-default design-space locations for the generated axes
pub fn vc_coords() -> impl Strategy<Value = Vec<i16>> {
    proptest::collection::vec(prop_oneof![6 => proptest::sample::select(vec![0x4000i16, -0x4000, 0x2000, 0x1000, -0x2000, 0x3000, 1]), 1 => Just(0i16), 1 => any::<i16>()], 1..=3)
}
