//! C20-only stage: the subsetting-plan step on mutated fonts (strict profile).
use proptest::prelude::*;
use read_fonts::collections::IntSet;
use read_fonts::types::{GlyphId, NameId, Tag};
use read_fonts::FontRef;
use serde::{Deserialize, Serialize};
use vcore::mutate::{havoc_strategy, CorpusIndex, MutCase};
use vcore::*;

#[derive(Clone, Debug, Serialize, Deserialize)]
pub struct PlanCase {
    pub m: MutCase,
    pub gids: Vec<u32>,
    pub unicodes: Vec<u32>,
    pub flags: u16,
}

pub fn test_plan(ix: &CorpusIndex, c: &PlanCase, stats: &Stats) -> CaseResult {
    let Some((bytes, _)) = ix.materialize(&c.m) else { return Ok(()) };
    let Ok(font) = FontRef::new(&bytes) else { return Ok(()) };
    let r = guard::catch(|| {
        let mut gids = IntSet::<GlyphId>::empty();
        for g in &c.gids {
            gids.insert(GlyphId::new(*g));
        }
        let mut us = IntSet::<u32>::empty();
        for u in &c.unicodes {
            us.insert(*u);
        }
        let mut flags = klippa::SubsetFlags::SUBSET_FLAGS_DEFAULT;
        for (bit, f) in [
            (1u16, klippa::SubsetFlags::SUBSET_FLAGS_NO_HINTING),
            (2, klippa::SubsetFlags::SUBSET_FLAGS_RETAIN_GIDS),
            (0x10, klippa::SubsetFlags::SUBSET_FLAGS_SET_OVERLAPS_FLAG),
            (0x40, klippa::SubsetFlags::SUBSET_FLAGS_NOTDEF_OUTLINE),
        ] {
            if c.flags & bit != 0 {
                flags |= f;
            }
        }
        let all_tags = IntSet::<Tag>::all();
        let mut name_ids = IntSet::<NameId>::empty();
        name_ids.insert_range(NameId::new(0)..=NameId::new(6));
        let mut langs = IntSet::<u16>::empty();
        langs.insert(0x0409);
        let plan = klippa::Plan::new(&gids, &us, &font, flags, &IntSet::empty(), &all_tags, &all_tags, &name_ids, &langs);
        plan.verif_glyph_map().len()
    });
    match r {
        Ok(n) => {
            stats.class("plan_built");
            if n > 1 {
                stats.nontrivial(hash_json(c));
            }
            Ok(())
        }
        Err(p) => {
            if p.is_overflow_or_assert() {
                Err(Fail::from_panic(&p))
            } else {
                // Plan::new unwraps on fonts without cmap/maxp etc.: a release-profile panic, outside C20 (and outside C17's domain)
                stats.class(&format!("non_overflow_panic_ignored(strict):{}", guard::rel_file(&p.file)));
                Ok(())
            }
        }
    }
}

pub fn stages(ctx: &Ctx) {
    let fonts: Vec<_> = corpus::all_fonts().into_iter().filter(|f| f.data.len() <= 400_000).collect();
    let ix = CorpusIndex::new(&fonts);
    let strat = || {
        (
            prop_oneof![1 => havoc_strategy(&ix, 300_000, 4).boxed(), 1 => proptest::sample::select(ix.fonts.iter().map(|f| f.name.clone()).collect::<Vec<_>>()).prop_map(|font| MutCase { font, table: "FILE".into(), edits: vec![] }).boxed()],
            proptest::collection::vec(prop_oneof![0u32..60, Just(0xFFFF), any::<u32>()], 0..8),
            proptest::collection::vec(prop_oneof![0x20u32..0x80, 0x600u32..0x700, Just(0x10FFFF), any::<u32>()], 0..12),
            any::<u16>(),
        )
            .prop_map(|(m, gids, unicodes, flags)| PlanCase { m, gids, unicodes, flags })
    };
    ctx.prop_stage("klippa-plan", Isolation::Procs, ctx.n(6_000, 60_000), strat, |c, s| test_plan(&ix, c, s));
}
