//! Structurally valid CFF / CFF2 OpenType fonts by construction (C02 / C20): every table is hand-encoded here
//! (sfnt wrapper, `CFF ` header, Name / Top DICT / String / Global Subr / CharStrings INDEXes, charset, FDSelect,
//! FDArray, Private DICTs with blue zones and local subrs; `CFF2` header, top DICT, Index2, variation store), and the
//! Type 2 charstrings come from a *program generator*: stem declarations around the PostScript hinter's capacity
//! limits (96 stems / 96 hint-map edges / 12 mask bytes), ghost hints, hintmask / cntrmask with right and wrong
//! lengths, every path operator with well-formed operand counts, subroutine calls incl. call chains around the
//! nesting limit, number encodings of every width, operand stacks around the 48 (spec) and 513 (implementation)
//! limits, blend / vsindex for CFF2, plus an "operand soup" mode. Byte mutation of corpus fonts never produces such
//! charstrings (real glyphs have a handful of stems), so the hinter's array bounds are out of its reach.
use crate::skdrive::{self, SkArgs};
use proptest::prelude::*;
use serde::{Deserialize, Serialize};
use vcore::fontkit;

// ---------------------------------------------------------------------------------------------
// case model

/// A charstring operand with its encoding.
#[derive(Clone, Debug, Serialize, Deserialize, PartialEq)]
pub enum Num {
    /// integer, shortest encoding (1 byte -107..=107, 2 bytes to +-1131, else 3 bytes)
    I(i16),
    /// integer, always the 3-byte form (28 hi lo)
    W(i16),
    /// 16.16 fixed (255 + 4 bytes), raw bits
    F(i32),
}

#[derive(Clone, Debug, Serialize, Deserialize, PartialEq)]
pub struct StemRun {
    /// 0 hstem, 1 vstem, 2 hstemhm, 3 vstemhm, 4 none (operands stay on the stack: implied vstems of a following mask)
    pub op: u8,
    /// number of ordinary stems (delta = gap, width = width)
    pub pairs: u16,
    pub start: i16,
    pub gap: i16,
    pub width: i16,
    /// ghost hints (width -21 bottom / -20 top) inserted at position (p * (len + 1)) >> 16
    pub ghosts: Vec<(u16, bool)>,
    /// explicit (delta, width) overrides at position (p * len) >> 16
    pub over: Vec<(u16, Num, Num)>,
    /// maximum stems per operator (0: all operands before one operator)
    pub chunk: u16,
    /// encode as 16.16 values with a fractional part
    pub frac: bool,
}

#[derive(Clone, Debug, Serialize, Deserialize, PartialEq)]
pub enum CsIns {
    Num(Num),
    /// n copies of a number (operand stack depth)
    Fill(u16, Num),
    Op(u8),
    Esc(u8),
    Stems(StemRun),
    /// hintmask / cntrmask; mask length = ceil(stems / 8) + len_adj (clamped at 0); byte i = fill rotated by i * rot
    Mask { cntr: bool, len_adj: i16, fill: u8, rot: u8 },
    /// a path operator (escape operators as 0x0C00 | b) with its well-formed operand count for `n` repetitions,
    /// plus `extra` operands (-1, 0, +1); operands cycle through `vals`; operands already on the stack are reused
    Path { op: u16, n: u8, vals: Vec<Num>, extra: i8 },
    /// callsubr / callgsubr: in-range index (sel * count) >> 8, or the raw (biased) operand `raw`
    Call { global: bool, sel: u8, raw: Option<i16> },
    /// in local subr i: callsubr i + 1; in a glyph: callsubr 0
    CallNext,
    /// CFF2: n default values, n * (regions + k_adj) deltas, n, blend
    Blend { n: u8, vals: Vec<Num>, k_adj: i8 },
    Vsindex(i16),
    Raw(Vec<u8>),
}

#[derive(Clone, Debug, Serialize, Deserialize, PartialEq)]
pub struct Glyph {
    pub width: Option<Num>,
    pub prog: Vec<CsIns>,
}

/// DICT operand
#[derive(Clone, Debug, Serialize, Deserialize, PartialEq)]
pub enum DNum {
    /// shortest integer form (incl. the 5-byte form)
    I(i32),
    /// always the 5-byte form
    L(i32),
    /// real number: nibbles (terminator added by the encoder)
    R(Vec<u8>),
}

#[derive(Clone, Debug, Serialize, Deserialize, PartialEq, Default)]
pub struct PrivSpec {
    /// absolute values; the encoder delta-encodes
    pub blues: Vec<i32>,
    pub other_blues: Vec<i32>,
    pub family_blues: Vec<i32>,
    pub family_other_blues: Vec<i32>,
    pub std_hw: Option<DNum>,
    pub std_vw: Option<DNum>,
    pub stem_snap_h: Vec<i32>,
    pub stem_snap_v: Vec<i32>,
    pub blue_scale: Option<DNum>,
    pub blue_shift: Option<DNum>,
    pub blue_fuzz: Option<DNum>,
    pub language_group: Option<i32>,
    pub widths: Option<(DNum, DNum)>,
    /// blue values as reals instead of integers
    pub real_blues: bool,
    /// CFF2: vsindex operator in the Private DICT
    pub vsindex: Option<i16>,
    pub lsubrs: Vec<Vec<CsIns>>,
    /// the first `chain` local subrs are replaced by "callsubr next; return"
    pub chain: u8,
    /// emit the Subrs operator even when there are no local subrs / omit it although there are
    pub subrs_op: u8,
}

#[derive(Clone, Debug, Serialize, Deserialize, PartialEq)]
pub struct CffFont {
    pub cff2: bool,
    pub upem: u16,
    pub glyphs: Vec<Glyph>,
    pub gsubrs: Vec<Vec<CsIns>>,
    pub privs: Vec<PrivSpec>,
    /// CFF: CID-keyed layout (ROS, FDArray, FDSelect); CFF2 always has an FDArray
    pub cid: bool,
    /// FDSelect format (0, 3, 4; anything else: no FDSelect) and font DICT index per glyph
    pub fdsel_fmt: u8,
    pub fdsel: Vec<u8>,
    /// added to the first glyph of every FDSelect range (formats 3 / 4): a first range that starts after glyph 0
    #[serde(default)]
    pub fdsel_shift: u8,
    /// charset: 0..=2 custom formats with raw (first, n_left / sid) entries, 3..=5 predefined ids, else absent
    pub charset_fmt: u8,
    pub charset: Vec<(u16, u16)>,
    pub strings: Vec<Vec<u8>>,
    /// pad local (priv 0) / global subr INDEX to this many entries (bias classes 107 / 1131 / 32768)
    pub pad_lsubrs: u16,
    pub pad_gsubrs: u16,
    /// trivial extra glyphs (endchar only) appended after the generated ones, so that glyph counts straddle the lengths of
    /// the predefined charsets (87 / 166 / 229) and glyph-name / charset lookups run past them
    #[serde(default)]
    pub pad_glyphs: u16,
    pub off_size: u8,
    /// maxp.numGlyphs - charstring count
    pub maxp_adj: i8,
    pub metrics: Vec<(u16, i16)>,
    pub cmap: bool,
    /// CFF2 variation store: axis count, regions (start, peak, end per axis), region indexes per item variation data
    pub axes: u8,
    pub regions: Vec<Vec<(i16, i16, i16)>>,
    pub ivd: Vec<Vec<u16>>,
    pub vstore: bool,
}

#[derive(Clone, Debug, Serialize, Deserialize)]
pub struct CffCase {
    pub font: CffFont,
    pub args: SkArgs,
}

// ---------------------------------------------------------------------------------------------
// encoders

fn cs_int(out: &mut Vec<u8>, v: i32) {
    match v {
        -107..=107 => out.push((v + 139) as u8),
        108..=1131 => {
            let w = v - 108;
            out.push(247 + (w >> 8) as u8);
            out.push((w & 0xFF) as u8);
        }
        -1131..=-108 => {
            let w = -v - 108;
            out.push(251 + (w >> 8) as u8);
            out.push((w & 0xFF) as u8);
        }
        _ => {
            out.push(28);
            out.extend_from_slice(&(v.clamp(-32768, 32767) as i16).to_be_bytes());
        }
    }
}

fn cs_num(out: &mut Vec<u8>, n: &Num) {
    match n {
        Num::I(v) => cs_int(out, *v as i32),
        Num::W(v) => {
            out.push(28);
            out.extend_from_slice(&v.to_be_bytes());
        }
        Num::F(b) => {
            out.push(255);
            out.extend_from_slice(&b.to_be_bytes());
        }
    }
}

/// value of an operand as 16.16 in i64
fn num_val(n: &Num) -> i64 {
    match n {
        Num::I(v) | Num::W(v) => (*v as i64) << 16,
        Num::F(b) => *b as i64,
    }
}

fn dict_int(out: &mut Vec<u8>, v: i32) {
    if (-1131..=1131).contains(&v) {
        cs_int(out, v);
    } else if (-32768..=32767).contains(&v) {
        out.push(28);
        out.extend_from_slice(&(v as i16).to_be_bytes());
    } else {
        out.push(29);
        out.extend_from_slice(&v.to_be_bytes());
    }
}

fn dict_long(out: &mut Vec<u8>, v: i32) {
    out.push(29);
    out.extend_from_slice(&v.to_be_bytes());
}

fn dict_num(out: &mut Vec<u8>, n: &DNum) {
    match n {
        DNum::I(v) => dict_int(out, *v),
        DNum::L(v) => dict_long(out, *v),
        DNum::R(nib) => {
            out.push(30);
            let mut all: Vec<u8> = nib.iter().take(80).map(|x| x & 0xF).map(|x| if x == 0xF { 0xE } else { x }).collect();
            all.push(0xF);
            if all.len() % 2 == 1 {
                all.push(0xF);
            }
            for p in all.chunks(2) {
                out.push((p[0] << 4) | p[1]);
            }
        }
    }
}

fn dict_op(out: &mut Vec<u8>, op: u16) {
    if op >= 0x0C00 {
        out.push(12);
    }
    out.push((op & 0xFF) as u8);
}

fn real_nibbles(s: &str) -> Vec<u8> {
    let b = s.as_bytes();
    let mut out = vec![];
    let mut i = 0;
    while i < b.len() {
        match b[i] {
            b'0'..=b'9' => out.push(b[i] - b'0'),
            b'.' => out.push(0xA),
            b'E' => {
                if i + 1 < b.len() && b[i + 1] == b'-' {
                    out.push(0xC);
                    i += 1;
                } else {
                    out.push(0xB);
                }
            }
            b'-' => out.push(0xE),
            _ => out.push(0xD),
        }
        i += 1;
    }
    out
}

/// CFF INDEX (u16 count) / CFF2 INDEX (u32 count)
fn index(objs: &[Vec<u8>], cff2: bool, force_off: u8) -> Vec<u8> {
    let mut out = vec![];
    if cff2 {
        out.extend_from_slice(&(objs.len() as u32).to_be_bytes());
    } else {
        out.extend_from_slice(&(objs.len().min(65535) as u16).to_be_bytes());
    }
    if objs.is_empty() {
        return out;
    }
    let total: usize = objs.iter().map(|o| o.len()).sum::<usize>() + 1;
    let min = if total <= 0xFF {
        1
    } else if total <= 0xFFFF {
        2
    } else if total <= 0xFF_FFFF {
        3
    } else {
        4
    };
    let os = if (1..=4).contains(&force_off) && force_off >= min { force_off } else { min } as usize;
    out.push(os as u8);
    let mut off = 1usize;
    let push = |out: &mut Vec<u8>, off: usize| out.extend_from_slice(&(off as u32).to_be_bytes()[4 - os..]);
    push(&mut out, off);
    for o in objs {
        off += o.len();
        push(&mut out, off);
    }
    for o in objs {
        out.extend_from_slice(o);
    }
    out
}

fn bias(count: usize) -> i32 {
    if count < 1240 {
        107
    } else if count < 33900 {
        1131
    } else {
        32768
    }
}

fn stem_items(r: &StemRun) -> Vec<(Num, Num)> {
    let mk = |v: i16| if r.frac { Num::F(((v as i32) << 16) | 0x4000) } else { Num::I(v) };
    let mut items: Vec<(Num, Num)> = (0..r.pairs.min(400)).map(|_| (mk(r.gap), mk(r.width))).collect();
    for (pos, top) in r.ghosts.iter().take(8) {
        let at = ((*pos as usize) * (items.len() + 1)) >> 16;
        items.insert(at, (mk(r.gap), Num::I(if *top { -20 } else { -21 })));
    }
    for (pos, d, w) in r.over.iter().take(8) {
        if !items.is_empty() {
            let at = ((*pos as usize) * items.len()) >> 16;
            items[at] = (d.clone(), w.clone());
        }
    }
    if let Some(first) = items.first_mut() {
        first.0 = Num::I(r.start);
    }
    items
}

/// number of stems a run declares: (horizontal, all)
fn run_counts(r: &StemRun) -> (usize, usize) {
    let n = (r.pairs.min(400) as usize) + r.ghosts.len().min(8);
    (if r.op == 0 || r.op == 2 { n } else { 0 }, n)
}

/// base operand count of a path operator for n repetitions
fn path_need(op: u16, n: usize) -> usize {
    match op {
        21 => 2,
        22 | 4 => 1,
        5 => 2 * n,
        6 | 7 => n,
        8 => 6 * n,
        24 => 6 * n + 2,
        25 => 2 * n + 6,
        26 | 27 | 30 | 31 => 4 * n,
        0x0C22 => 7,
        0x0C23 => 13,
        0x0C24 => 9,
        0x0C25 => 11,
        14 => 4, // seac-style endchar
        _ => n,
    }
}

struct SubrInfo {
    /// total stems declared by calling the subr (own + callees, approximated)
    ltot: Vec<usize>,
    gtot: Vec<usize>,
    /// INDEX entry counts incl. padding (bias)
    nl: usize,
    ng: usize,
    /// generated entry counts (call targets)
    nl_gen: usize,
    ng_gen: usize,
}

struct Enc<'a> {
    out: Vec<u8>,
    stems: usize,
    pending: usize,
    cur: Option<usize>,
    info: &'a SubrInfo,
    regions: &'a [usize],
    vs: usize,
}

impl Enc<'_> {
    fn operand(&mut self, n: &Num) {
        if self.out.len() < 60_000 {
            cs_num(&mut self.out, n);
        }
        self.pending += 1;
    }
    fn op(&mut self, op: u16) {
        if op >= 0x0C00 {
            self.out.push(12);
        }
        self.out.push((op & 0xFF) as u8);
        self.pending = 0;
    }
    fn call_target(&self, global: bool, sel: u8) -> Option<usize> {
        let n = if global { self.info.ng_gen } else { self.info.nl_gen };
        (n > 0).then(|| ((sel as usize) * n) >> 8)
    }
    fn call(&mut self, global: bool, index: Option<usize>, raw: Option<i16>) {
        let count = if global { self.info.ng } else { self.info.nl };
        let operand = match (raw, index) {
            (Some(r), _) => r as i32,
            (None, Some(i)) => (i as i32).wrapping_sub(bias(count)),
            (None, None) => 0i32.wrapping_sub(bias(count)),
        };
        cs_int(&mut self.out, operand);
        self.out.push(if global { 29 } else { 10 });
        if raw.is_none() {
            if let Some(i) = index {
                let t = if global { &self.info.gtot } else { &self.info.ltot };
                self.stems = self.stems.saturating_add(t.get(i).copied().unwrap_or(0)).min(100_000);
            }
        }
    }
    fn ins(&mut self, i: &CsIns) {
        match i {
            CsIns::Num(n) => self.operand(n),
            CsIns::Fill(n, v) => {
                for _ in 0..(*n).min(600) {
                    self.operand(v);
                }
            }
            CsIns::Op(b) => self.op(*b as u16),
            CsIns::Esc(b) => self.op(0x0C00 | *b as u16),
            CsIns::Raw(b) => self.out.extend_from_slice(&b[..b.len().min(64)]),
            CsIns::Stems(r) => {
                let items = stem_items(r);
                let per = if r.chunk == 0 { items.len().max(1) } else { r.chunk as usize };
                let opb: Option<u16> = match r.op {
                    0 => Some(1),
                    1 => Some(3),
                    2 => Some(18),
                    3 => Some(23),
                    _ => None,
                };
                let mut pos: i64 = 0;
                for (ci, chunk) in items.chunks(per).enumerate() {
                    for (k, (d, w)) in chunk.iter().enumerate() {
                        if ci > 0 && k == 0 {
                            // every operator starts again from 0: continue at the absolute position
                            let abs = pos.wrapping_add(num_val(d));
                            let n = if abs & 0xFFFF == 0 && (-32768..=32767).contains(&(abs >> 16)) {
                                Num::I((abs >> 16) as i16)
                            } else {
                                Num::F(abs.clamp(i32::MIN as i64, i32::MAX as i64) as i32)
                            };
                            self.operand(&n);
                        } else {
                            self.operand(d);
                        }
                        self.operand(w);
                        pos = pos.wrapping_add(num_val(d)).wrapping_add(num_val(w));
                    }
                    self.stems += chunk.len();
                    if let Some(o) = opb {
                        self.op(o);
                    }
                }
                if items.is_empty() {
                    if let Some(o) = opb {
                        self.op(o);
                    }
                }
            }
            CsIns::Mask { cntr, len_adj, fill, rot } => {
                let want = (self.stems.min(4000).div_ceil(8) as i64 + *len_adj as i64).clamp(0, 80) as usize;
                self.op(if *cntr { 20 } else { 19 });
                for k in 0..want {
                    self.out.push(fill.rotate_left(((k as u32).wrapping_mul(*rot as u32)) & 7));
                }
            }
            CsIns::Path { op, n, vals, extra } => {
                let need = (path_need(*op, (*n).max(1) as usize) as i64 + *extra as i64).clamp(0, 600) as usize;
                let have = self.pending;
                for k in 0..need.saturating_sub(have) {
                    let v = if vals.is_empty() { Num::I(10) } else { vals[k % vals.len()].clone() };
                    self.operand(&v);
                }
                self.op(*op);
            }
            CsIns::Call { global, sel, raw } => {
                let t = self.call_target(*global, *sel);
                self.call(*global, t, *raw);
            }
            CsIns::CallNext => {
                let t = self.cur.map(|c| c + 1).unwrap_or(0);
                self.call(false, Some(t), None);
            }
            CsIns::Blend { n, vals, k_adj } => {
                let k = (self.regions.get(self.vs).copied().unwrap_or(0) as i64 + *k_adj as i64).clamp(0, 64) as usize;
                let n = (*n).clamp(1, 16) as usize;
                for j in 0..n * (k + 1) {
                    let v = if vals.is_empty() { Num::I(1) } else { vals[j % vals.len()].clone() };
                    cs_num(&mut self.out, &v);
                }
                cs_int(&mut self.out, n as i32);
                self.out.push(16);
                self.pending += n;
            }
            CsIns::Vsindex(v) => {
                cs_int(&mut self.out, *v as i32);
                self.out.push(15);
                if *v >= 0 && (*v as usize) < self.regions.len() {
                    self.vs = *v as usize;
                }
                self.pending = 0;
            }
        }
    }
}

fn scan_prog(prog: &[CsIns], cur: Option<usize>, nl: usize, ng: usize) -> (usize, Vec<(bool, usize)>) {
    let mut own = 0usize;
    let mut calls = vec![];
    for i in prog {
        match i {
            CsIns::Stems(r) => own += run_counts(r).1,
            CsIns::Call { global, sel, raw: None } => {
                let n = if *global { ng } else { nl };
                if n > 0 {
                    calls.push((*global, ((*sel as usize) * n) >> 8));
                }
            }
            CsIns::CallNext => calls.push((false, cur.map(|c| c + 1).unwrap_or(0))),
            _ => {}
        }
    }
    (own, calls)
}

fn chain_subrs(p: &PrivSpec) -> Vec<Vec<CsIns>> {
    let mut l = p.lsubrs.clone();
    let c = (p.chain as usize).min(14);
    if c > 0 {
        while l.len() < c + 1 {
            l.push(vec![CsIns::Op(11)]);
        }
        for s in l.iter_mut().take(c) {
            *s = vec![CsIns::CallNext, CsIns::Op(11)];
        }
    }
    l
}

fn subr_info(lsubrs: &[Vec<CsIns>], gsubrs: &[Vec<CsIns>], pad_l: usize, pad_g: usize) -> SubrInfo {
    let (nl, ng) = (lsubrs.len(), gsubrs.len());
    let ls: Vec<_> = lsubrs.iter().enumerate().map(|(i, p)| scan_prog(p, Some(i), nl, ng)).collect();
    let gs: Vec<_> = gsubrs.iter().map(|p| scan_prog(p, None, nl, ng)).collect();
    let mut ltot: Vec<usize> = ls.iter().map(|x| x.0).collect();
    let mut gtot: Vec<usize> = gs.iter().map(|x| x.0).collect();
    for _ in 0..10 {
        let (lo, go) = (ltot.clone(), gtot.clone());
        let sum = |own: usize, calls: &[(bool, usize)]| -> usize {
            let mut t = own;
            for (g, i) in calls {
                t = t.saturating_add(if *g { go.get(*i).copied().unwrap_or(0) } else { lo.get(*i).copied().unwrap_or(0) });
            }
            t.min(100_000)
        };
        for (i, (own, calls)) in ls.iter().enumerate() {
            ltot[i] = sum(*own, calls);
        }
        for (i, (own, calls)) in gs.iter().enumerate() {
            gtot[i] = sum(*own, calls);
        }
    }
    SubrInfo { ltot, gtot, nl: nl.max(pad_l), ng: ng.max(pad_g), nl_gen: nl, ng_gen: ng }
}

fn encode_prog(prog: &[CsIns], width: Option<&Num>, cur: Option<usize>, info: &SubrInfo, regions: &[usize], vs: usize) -> Vec<u8> {
    let mut e = Enc { out: vec![], stems: 0, pending: 0, cur, info, regions, vs };
    if let Some(w) = width {
        cs_num(&mut e.out, w);
    }
    for i in prog {
        if e.out.len() > 60_000 {
            break;
        }
        e.ins(i);
    }
    e.out
}

fn encode_private(p: &PrivSpec, cff2: bool, have_subrs: bool, n_ivd: usize) -> Vec<u8> {
    let mut d = vec![];
    if cff2 {
        if let Some(v) = p.vsindex {
            // small values select an existing item variation data, others are used as they are
            let v = if (0..250).contains(&v) && n_ivd > 0 { v % n_ivd as i16 } else { v };
            dict_int(&mut d, v as i32);
            dict_op(&mut d, 22);
        }
    }
    let delta = |d: &mut Vec<u8>, vals: &[i32], op: u16, real: bool| {
        if vals.is_empty() {
            return;
        }
        let mut last = 0i32;
        for v in vals.iter().take(40) {
            let dv = v.wrapping_sub(last);
            if real && (-99999..=99999).contains(&dv) {
                dict_num(d, &DNum::R(real_nibbles(&format!("{dv}.5"))));
            } else {
                dict_int(d, dv);
            }
            last = *v;
        }
        dict_op(d, op);
    };
    delta(&mut d, &p.blues, 6, p.real_blues);
    delta(&mut d, &p.other_blues, 7, p.real_blues);
    delta(&mut d, &p.family_blues, 8, false);
    delta(&mut d, &p.family_other_blues, 9, false);
    let one = |d: &mut Vec<u8>, v: &Option<DNum>, op: u16| {
        if let Some(v) = v {
            dict_num(d, v);
            dict_op(d, op);
        }
    };
    one(&mut d, &p.std_hw, 10);
    one(&mut d, &p.std_vw, 11);
    delta(&mut d, &p.stem_snap_h, 0x0C0C, false);
    delta(&mut d, &p.stem_snap_v, 0x0C0D, false);
    one(&mut d, &p.blue_scale, 0x0C09);
    one(&mut d, &p.blue_shift, 0x0C0A);
    one(&mut d, &p.blue_fuzz, 0x0C0B);
    if let Some(g) = p.language_group {
        dict_int(&mut d, g);
        dict_op(&mut d, 0x0C11);
    }
    if let (false, Some((dw, nw))) = (cff2, &p.widths) {
        dict_num(&mut d, dw);
        dict_op(&mut d, 20);
        dict_num(&mut d, nw);
        dict_op(&mut d, 21);
    }
    let emit_subrs = match p.subrs_op % 8 {
        0 => true,          // always (even without local subrs: offset to an empty INDEX)
        1 => false,         // never (callsubr => MissingSubroutines)
        _ => have_subrs,
    };
    if emit_subrs {
        // Subrs offset is relative to the start of the Private DICT; the local subr INDEX follows the DICT
        let len = d.len() + 6;
        dict_long(&mut d, len as i32);
        dict_op(&mut d, 19);
    }
    d
}

fn fd_of(f: &CffFont, gid: usize) -> usize {
    if !(f.cid || f.cff2) || f.fdsel.is_empty() || !matches!(f.fdsel_fmt, 0 | 3 | 4) {
        return 0;
    }
    // entries < 250 select one of the existing font DICTs, the rest are used as they are (out of range)
    let v = f.fdsel[gid % f.fdsel.len()] as usize;
    if v < 250 {
        v % f.privs.len().max(1)
    } else {
        v
    }
}

fn encode_fdselect(f: &CffFont, n: usize) -> Vec<u8> {
    let map: Vec<u8> = (0..n).map(|g| fd_of(f, g) as u8).collect();
    let mut out = vec![];
    match f.fdsel_fmt {
        0 => {
            out.push(0);
            out.extend_from_slice(&map);
        }
        3 | 4 => {
            let mut ranges: Vec<(usize, u8)> = vec![];
            for (g, fd) in map.iter().enumerate() {
                if ranges.last().map(|r| r.1 != *fd).unwrap_or(true) {
                    ranges.push((g, *fd));
                }
            }
            for r in ranges.iter_mut() {
                r.0 += (f.fdsel_shift % 4) as usize;
            }
            out.push(f.fdsel_fmt);
            if f.fdsel_fmt == 3 {
                out.extend_from_slice(&(ranges.len() as u16).to_be_bytes());
                for (g, fd) in &ranges {
                    out.extend_from_slice(&(*g as u16).to_be_bytes());
                    out.push(*fd);
                }
                out.extend_from_slice(&(n as u16).to_be_bytes());
            } else {
                out.extend_from_slice(&(ranges.len() as u32).to_be_bytes());
                for (g, fd) in &ranges {
                    out.extend_from_slice(&(*g as u32).to_be_bytes());
                    out.extend_from_slice(&(*fd as u16).to_be_bytes());
                }
                out.extend_from_slice(&(n as u32).to_be_bytes());
            }
        }
        _ => {}
    }
    out
}

fn encode_charset(f: &CffFont) -> Vec<u8> {
    let mut out = vec![f.charset_fmt];
    for (a, b) in f.charset.iter().take(64) {
        out.extend_from_slice(&a.to_be_bytes());
        match f.charset_fmt {
            0 => {}
            1 => out.push(*b as u8),
            _ => out.extend_from_slice(&b.to_be_bytes()),
        }
    }
    out
}

fn encode_vstore(f: &CffFont) -> Vec<u8> {
    let axes = (f.axes % 4) as usize;
    let mut regions = vec![];
    regions.extend_from_slice(&(axes as u16).to_be_bytes());
    regions.extend_from_slice(&(f.regions.len().min(40) as u16).to_be_bytes());
    for r in f.regions.iter().take(40) {
        for a in 0..axes {
            let (s, p, e) = r.get(a).copied().unwrap_or((0, 0x4000, 0x4000));
            for v in [s, p, e] {
                regions.extend_from_slice(&v.to_be_bytes());
            }
        }
    }
    let ivds: Vec<Vec<u8>> = f
        .ivd
        .iter()
        .take(6)
        .map(|ri| {
            let mut d = vec![];
            d.extend_from_slice(&0u16.to_be_bytes()); // itemCount
            d.extend_from_slice(&0u16.to_be_bytes()); // wordDeltaCount
            d.extend_from_slice(&(ri.len().min(40) as u16).to_be_bytes());
            let nreg = f.regions.len().min(40) as u16;
            for r in ri.iter().take(40) {
                // small values select an existing region, large ones are used as they are (out of range)
                let r = if *r < 0xFF00 && nreg > 0 { *r % nreg } else { *r };
                d.extend_from_slice(&r.to_be_bytes());
            }
            d
        })
        .collect();
    let mut ivs = vec![];
    ivs.extend_from_slice(&1u16.to_be_bytes());
    let header = 8 + 4 * ivds.len();
    ivs.extend_from_slice(&(header as u32).to_be_bytes());
    ivs.extend_from_slice(&(ivds.len() as u16).to_be_bytes());
    let mut off = header + regions.len();
    for d in &ivds {
        ivs.extend_from_slice(&(off as u32).to_be_bytes());
        off += d.len();
    }
    ivs.extend_from_slice(&regions);
    for d in &ivds {
        ivs.extend_from_slice(d);
    }
    let mut out = vec![];
    out.extend_from_slice(&(ivs.len().min(65535) as u16).to_be_bytes());
    out.extend_from_slice(&ivs);
    out
}

/// region count per item variation data (the `k` of blend)
fn region_counts(f: &CffFont) -> Vec<usize> {
    if f.cff2 && f.vstore {
        f.ivd.iter().take(6).map(|r| r.len().min(40)).collect()
    } else {
        vec![]
    }
}

struct Built {
    table: Vec<u8>,
}

fn build_table(f: &CffFont) -> Built {
    let cff2 = f.cff2;
    let regions = region_counts(f);
    let nprivs = f.privs.len().max(1);
    let default_priv = PrivSpec::default();
    let privs: Vec<&PrivSpec> = if f.privs.is_empty() { vec![&default_priv] } else { f.privs.iter().collect() };
    let use_fd = f.cid || cff2;
    let npriv_used = if use_fd { nprivs } else { 1 };
    let pad_g = f.pad_gsubrs as usize;
    // local subrs per private (chain applied), padding on private 0
    let lsubrs: Vec<Vec<Vec<CsIns>>> = privs.iter().take(npriv_used).map(|p| chain_subrs(p)).collect();
    let infos: Vec<SubrInfo> = lsubrs
        .iter()
        .enumerate()
        .map(|(i, l)| subr_info(l, &f.gsubrs, if i == 0 { f.pad_lsubrs as usize } else { 0 }, pad_g))
        .collect();
    let vs_of = |pi: usize| privs[pi].vsindex.filter(|v| (0..250).contains(v) && !regions.is_empty()).map(|v| v as usize % regions.len()).unwrap_or(0);
    // global subrs are encoded against private 0's local subrs
    let mut gs: Vec<Vec<u8>> = f.gsubrs.iter().map(|p| encode_prog(p, None, None, &infos[0], &regions, vs_of(0))).collect();
    while gs.len() < pad_g {
        gs.push(vec![11]);
    }
    let mut ls_enc: Vec<Vec<Vec<u8>>> = vec![];
    for (pi, l) in lsubrs.iter().enumerate() {
        let mut e: Vec<Vec<u8>> = l.iter().enumerate().map(|(i, p)| encode_prog(p, None, Some(i), &infos[pi], &regions, vs_of(pi))).collect();
        if pi == 0 {
            while e.len() < f.pad_lsubrs as usize {
                e.push(vec![11]);
            }
        }
        ls_enc.push(e);
    }
    let n = f.glyphs.len() + f.pad_glyphs as usize;
    let mut cs: Vec<Vec<u8>> = f
        .glyphs
        .iter()
        .enumerate()
        .map(|(g, gl)| {
            let pi = if use_fd { fd_of(f, g) } else { 0 };
            let pi = if pi < npriv_used { pi } else { 0 };
            encode_prog(&gl.prog, gl.width.as_ref(), None, &infos[pi], &regions, vs_of(pi))
        })
        .collect();
    while cs.len() < n {
        cs.push(if cff2 { vec![] } else { vec![14] });
    }
    let gsubr_index = index(&gs, cff2, f.off_size);
    let cs_index = index(&cs, cff2, f.off_size);
    // private DICT + local subr INDEX blobs
    let priv_blobs: Vec<(Vec<u8>, Vec<u8>)> = (0..npriv_used)
        .map(|pi| {
            let d = encode_private(privs[pi], cff2, !ls_enc[pi].is_empty(), regions.len());
            (d, index(&ls_enc[pi], cff2, f.off_size))
        })
        .collect();
    let fdselect = if use_fd && matches!(f.fdsel_fmt, 0 | 3 | 4) { encode_fdselect(f, n) } else { vec![] };
    let font_dict_len = 11usize; // 5-byte size, 5-byte offset, op 18
    let fdarray_len = if use_fd { index(&vec![vec![0u8; font_dict_len]; npriv_used], cff2, f.off_size).len() } else { 0 };

    if cff2 {
        let vstore = if f.vstore { encode_vstore(f) } else { vec![] };
        // top DICT: CharStrings (6) + FDArray (7) [+ FDSelect (7)] [+ vstore (6)]
        let top_len = 6 + 7 + if fdselect.is_empty() { 0 } else { 7 } + if vstore.is_empty() { 0 } else { 6 };
        let mut off = 5 + top_len + gsubr_index.len();
        let cs_off = off;
        off += cs_index.len();
        let fda_off = off;
        off += fdarray_len;
        let fds_off = off;
        off += fdselect.len();
        let mut priv_offs = vec![];
        for (d, l) in &priv_blobs {
            priv_offs.push(off);
            off += d.len() + l.len();
        }
        let vs_off = off;
        let mut top = vec![];
        dict_long(&mut top, cs_off as i32);
        dict_op(&mut top, 17);
        dict_long(&mut top, fda_off as i32);
        dict_op(&mut top, 0x0C24);
        if !fdselect.is_empty() {
            dict_long(&mut top, fds_off as i32);
            dict_op(&mut top, 0x0C25);
        }
        if !vstore.is_empty() {
            dict_long(&mut top, vs_off as i32);
            dict_op(&mut top, 24);
        }
        debug_assert_eq!(top.len(), top_len);
        let fds: Vec<Vec<u8>> = (0..npriv_used)
            .map(|pi| {
                let mut d = vec![];
                dict_long(&mut d, priv_blobs[pi].0.len() as i32);
                dict_long(&mut d, priv_offs[pi] as i32);
                dict_op(&mut d, 18);
                d
            })
            .collect();
        let mut t = vec![2u8, 0, 5];
        t.extend_from_slice(&(top.len() as u16).to_be_bytes());
        t.extend_from_slice(&top);
        t.extend_from_slice(&gsubr_index);
        t.extend_from_slice(&cs_index);
        t.extend_from_slice(&index(&fds, true, f.off_size));
        t.extend_from_slice(&fdselect);
        for (d, l) in &priv_blobs {
            t.extend_from_slice(d);
            t.extend_from_slice(l);
        }
        t.extend_from_slice(&vstore);
        t.extend_from_slice(&[0; 4]);
        return Built { table: t };
    }

    // ---- CFF
    let name_index = index(&[b"Gen".to_vec()], false, f.off_size);
    let strings: Vec<Vec<u8>> = f.strings.iter().take(8).map(|s| s[..s.len().min(40)].to_vec()).collect();
    let string_index = index(&strings, false, f.off_size);
    let charset = if f.charset_fmt <= 2 { encode_charset(f) } else { vec![] };
    let charset_predefined = (3..=5).contains(&f.charset_fmt);
    // top DICT length is fixed by using 5-byte integers for every offset
    let mut top_len = 0usize;
    if f.cid {
        top_len += 3 + 2; // ROS: three 1-byte operands + 2-byte operator
    }
    top_len += 4 * 3 + 1; // FontBBox: four 3-byte operands + operator
    if !charset.is_empty() {
        top_len += 6;
    }
    if charset_predefined {
        top_len += 2;
    }
    top_len += 6; // CharStrings
    if f.cid {
        top_len += 7 + if fdselect.is_empty() { 0 } else { 7 };
    } else {
        top_len += 11; // Private
    }
    let top_index_len = index(&[vec![0u8; top_len]], false, f.off_size).len();
    let mut off = 4 + name_index.len() + top_index_len + string_index.len() + gsubr_index.len();
    let charset_off = off;
    off += charset.len();
    let fds_off = off;
    off += fdselect.len();
    let cs_off = off;
    off += cs_index.len();
    let fda_off = off;
    off += fdarray_len;
    let mut priv_offs = vec![];
    for (d, l) in &priv_blobs {
        priv_offs.push(off);
        off += d.len() + l.len();
    }
    let mut top = vec![];
    if f.cid {
        for v in [0, 1, 0] {
            dict_int(&mut top, v);
        }
        dict_op(&mut top, 0x0C1E);
    }
    for v in [-500i16, -500, 1500, 1500] {
        top.push(28);
        top.extend_from_slice(&v.to_be_bytes());
    }
    dict_op(&mut top, 5);
    if !charset.is_empty() {
        dict_long(&mut top, charset_off as i32);
        dict_op(&mut top, 15);
    }
    if charset_predefined {
        dict_int(&mut top, (f.charset_fmt - 3) as i32);
        dict_op(&mut top, 15);
    }
    dict_long(&mut top, cs_off as i32);
    dict_op(&mut top, 17);
    if f.cid {
        dict_long(&mut top, fda_off as i32);
        dict_op(&mut top, 0x0C24);
        if !fdselect.is_empty() {
            dict_long(&mut top, fds_off as i32);
            dict_op(&mut top, 0x0C25);
        }
    } else {
        dict_long(&mut top, priv_blobs[0].0.len() as i32);
        dict_long(&mut top, priv_offs[0] as i32);
        dict_op(&mut top, 18);
    }
    debug_assert_eq!(top.len(), top_len);
    let mut t = vec![1u8, 0, 4, if (1..=4).contains(&f.off_size) { f.off_size } else { 4 }];
    t.extend_from_slice(&name_index);
    t.extend_from_slice(&index(&[top], false, f.off_size));
    t.extend_from_slice(&string_index);
    t.extend_from_slice(&gsubr_index);
    t.extend_from_slice(&charset);
    t.extend_from_slice(&fdselect);
    t.extend_from_slice(&cs_index);
    if f.cid {
        let fds: Vec<Vec<u8>> = (0..npriv_used)
            .map(|pi| {
                let mut d = vec![];
                dict_long(&mut d, priv_blobs[pi].0.len() as i32);
                dict_long(&mut d, priv_offs[pi] as i32);
                dict_op(&mut d, 18);
                d
            })
            .collect();
        t.extend_from_slice(&index(&fds, false, f.off_size));
    }
    for (d, l) in &priv_blobs {
        t.extend_from_slice(d);
        t.extend_from_slice(l);
    }
    // a few trailing bytes so that an empty Private DICT at the end is still in bounds
    t.extend_from_slice(&[0; 4]);
    Built { table: t }
}

fn cmap_bytes(num_glyphs: usize) -> Vec<u8> {
    // format 12, one group per character the autohinter's style metrics ask for (sorted)
    let mut chars: Vec<u32> = "HOTEZLxozesc0123fdgijpqyAB".chars().map(|c| c as u32).collect();
    chars.sort();
    chars.dedup();
    let n = num_glyphs.max(1);
    let mut v = vec![];
    v.extend_from_slice(&0u16.to_be_bytes());
    v.extend_from_slice(&1u16.to_be_bytes());
    v.extend_from_slice(&3u16.to_be_bytes());
    v.extend_from_slice(&10u16.to_be_bytes());
    v.extend_from_slice(&12u32.to_be_bytes());
    v.extend_from_slice(&12u16.to_be_bytes());
    v.extend_from_slice(&0u16.to_be_bytes());
    v.extend_from_slice(&((16 + 12 * chars.len()) as u32).to_be_bytes());
    v.extend_from_slice(&0u32.to_be_bytes());
    v.extend_from_slice(&(chars.len() as u32).to_be_bytes());
    for (i, c) in chars.iter().enumerate() {
        v.extend_from_slice(&c.to_be_bytes());
        v.extend_from_slice(&c.to_be_bytes());
        v.extend_from_slice(&(((i + 1) % n) as u32).to_be_bytes());
    }
    v
}

/// The complete OpenType font.
pub fn build(f: &CffFont) -> Vec<u8> {
    let b = build_table(f);
    let n = f.glyphs.len() + f.pad_glyphs as usize;
    let num_glyphs = (n as i64 + f.maxp_adj as i64).clamp(0, 65535) as u16;
    let hm: Vec<(u16, i16)> = (0..num_glyphs.max(1) as usize).map(|i| if f.metrics.is_empty() { (600, 0) } else { f.metrics[i % f.metrics.len()] }).collect();
    let mut maxp = vec![];
    maxp.extend_from_slice(&0x0000_5000u32.to_be_bytes());
    maxp.extend_from_slice(&num_glyphs.to_be_bytes());
    let mut extra: Vec<([u8; 4], Vec<u8>)> = vec![(*b"maxp", maxp), (if f.cff2 { *b"CFF2" } else { *b"CFF " }, b.table)];
    if f.cmap {
        extra.push((*b"cmap", cmap_bytes(n)));
    }
    let mut axes = vec![];
    if f.cff2 {
        for a in 0..(f.axes % 4) {
            axes.push(fontkit::Axis { tag: [b'a', b'x', b'0' + a, b' '], min: 100 << 16, default: 400 << 16, max: 900 << 16 });
        }
    }
    let kit = fontkit::Kit { num_glyphs, upem: f.upem, h_metrics: hm, axes, extra, ..Default::default() };
    let mut tables = kit.tables();
    for t in tables.iter_mut() {
        if &t.0 == b"head" && t.1.len() >= 20 {
            t.1[18..20].copy_from_slice(&f.upem.to_be_bytes());
        }
    }
    vcore::sfnt::assemble(0x4F54_544F, &tables)
}

/// A sibling of the font with another subfont layout / other Private DICTs (cross-font hinting instances).
pub fn twist(f: &CffFont) -> CffFont {
    let mut t = f.clone();
    if !t.cff2 {
        t.cid = !t.cid;
    }
    if !t.privs.is_empty() {
        t.privs.rotate_left(1);
        let g = t.privs[0].language_group.unwrap_or(0);
        t.privs[0].language_group = Some(1 - g.clamp(0, 1));
    }
    t
}

// ---------------------------------------------------------------------------------------------
// static facts about a generated glyph (classification / non-trivial rule)

#[derive(Default, Debug, Clone)]
pub struct GlyphFacts {
    /// stems declared by the glyph's own charstring: horizontal, all
    pub hstems: usize,
    pub stems: usize,
    pub ghosts: usize,
    pub hintmasks: usize,
    pub cntrmasks: usize,
    pub wrong_mask_len: bool,
    pub calls: usize,
    pub path_ops: usize,
    pub max_fill: usize,
}

pub fn facts(g: &Glyph) -> GlyphFacts {
    let mut x = GlyphFacts::default();
    for i in &g.prog {
        match i {
            CsIns::Stems(r) => {
                let (h, a) = run_counts(r);
                x.hstems += h;
                x.stems += a;
                if r.op == 0 || r.op == 2 {
                    x.ghosts += r.ghosts.len().min(8);
                }
            }
            CsIns::Mask { cntr, len_adj, .. } => {
                if *cntr {
                    x.cntrmasks += 1;
                } else {
                    x.hintmasks += 1;
                }
                x.wrong_mask_len |= *len_adj != 0;
            }
            CsIns::Call { .. } | CsIns::CallNext => x.calls += 1,
            CsIns::Path { .. } => x.path_ops += 1,
            CsIns::Fill(n, _) => x.max_fill = x.max_fill.max(*n as usize),
            _ => {}
        }
    }
    x
}

pub fn stem_class(n: usize) -> &'static str {
    match n {
        0 => "0",
        1..=8 => "1-8",
        9..=46 => "9-46",
        47 => "47",
        48 => "48",
        49 => "49",
        50..=94 => "50-94",
        95 => "95",
        96 => "96",
        97 => "97",
        _ => "98+",
    }
}

// ---------------------------------------------------------------------------------------------
// hinted-draw probe: every glyph through the PostScript hinter at the generated size and at a mid-size ppem

#[derive(Default, Debug, Clone)]
pub struct Probe {
    /// per glyph id: (hinted draws Ok, hinted draws Err)
    pub hinted: Vec<(u32, u32)>,
    pub unhinted_ok: u32,
    pub unhinted_err: u32,
    pub instances: u32,
    /// error variant names of failed hinted draws
    pub errors: Vec<String>,
}

pub fn probe(data: &[u8], a: &SkArgs) -> Probe {
    use skrifa::outline::{DrawSettings, Engine, HintingInstance, HintingOptions};
    use skrifa::prelude::{LocationRef, Size};
    use skrifa::raw::types::F2Dot14;
    use skrifa::MetadataProvider;
    let mut p = Probe::default();
    let Ok(font) = skrifa::FontRef::new(data) else { return p };
    let outlines = font.outline_glyphs();
    let glyphs: Vec<_> = outlines.iter().take(24).collect();
    p.hinted = vec![(0, 0); glyphs.len()];
    let coords: Vec<F2Dot14> = if a.coord_len == 0 { vec![] } else { a.coord_bits.iter().take(8).map(|b| F2Dot14::from_bits(*b)).collect() };
    let loc = LocationRef::new(&coords);
    for size in [skdrive::size_of(a), Size::new(24.0)] {
        let inst = match HintingInstance::new(&outlines, size, loc, HintingOptions { engine: Engine::Interpreter, target: Default::default() }) {
            Ok(i) => i,
            Err(e) => {
                let d = format!("{e:?}");
                let cut = d.find(|c: char| !(c.is_alphabetic() || c == '(')).unwrap_or(d.len());
                p.errors.push(format!("instance:{}", d[..cut].trim_end_matches('(')));
                continue;
            }
        };
        p.instances += 1;
        for (k, (_, gl)) in glyphs.iter().enumerate() {
            let mut pen = skdrive::CountPen::default();
            match gl.draw(DrawSettings::hinted(&inst, a.pedantic), &mut pen) {
                Ok(_) => p.hinted[k].0 += 1,
                Err(e) => {
                    p.hinted[k].1 += 1;
                    let d = format!("{e:?}");
                    // variant names only, e.g. "PostScript(InvalidStackAccess"
                    let cut = d.find(|c: char| !(c.is_alphabetic() || c == '(')).unwrap_or(d.len());
                    p.errors.push(d[..cut].trim_end_matches('(').to_string());
                }
            }
            let mut pen = skdrive::CountPen::default();
            match gl.draw(DrawSettings::unhinted(size, loc), &mut pen) {
                Ok(_) => p.unhinted_ok += 1,
                Err(_) => p.unhinted_err += 1,
            }
        }
    }
    p
}

// ---------------------------------------------------------------------------------------------
// strategies

fn num() -> impl Strategy<Value = Num> {
    prop_oneof![
        8 => (-107i16..=107).prop_map(Num::I),
        3 => (-1131i16..=1131).prop_map(Num::I),
        2 => proptest::sample::select(vec![0i16, 1, -1, 107, 108, -107, -108, 1131, 1132, -1131, -1132, 32767, -32768, -20, -21, 20, 21, 255, 256]).prop_map(Num::I),
        1 => any::<i16>().prop_map(Num::I),
        1 => any::<i16>().prop_map(Num::W),
        2 => proptest::sample::select(vec![0i32, 1, -1, 0x8000, 0x1_0000, -0x1_0000, i32::MAX, i32::MIN, 0x7FFF_0000, -0x7FFF_0000, -0x14_0000, -0x15_0000, 0x7FFF_FFFF - 0x8000, 0x3FF, 0x400]).prop_map(Num::F),
        1 => any::<i32>().prop_map(Num::F),
        1 => (-2000i32..2000, 0i32..0x1_0000).prop_map(|(i, f)| Num::F((i << 16) | f)),
    ]
}

fn pairs_class() -> impl Strategy<Value = u16> {
    // stem counts around the hinter's capacity limits: 96 stems, 96 hint-map edges (= 48 pairs), 12 mask bytes
    let small = prop_oneof![4 => 0u16..=3, 4 => 4u16..=12, 2 => 13u16..=46];
    let mid = prop_oneof![2 => Just(47u16), 3 => Just(48u16), 2 => Just(49u16), 3 => 50u16..=94];
    let high = prop_oneof![2 => Just(95u16), 2 => Just(96u16), 2 => Just(97u16), 1 => 98u16..=130, 1 => proptest::sample::select(vec![255u16, 256, 257, 300])];
    prop_oneof![10 => small, 10 => mid, 8 => high]
}

fn stem_run(ops: &'static [u8]) -> impl Strategy<Value = StemRun> {
    (
        (proptest::sample::select(ops.to_vec()), pairs_class(), prop_oneof![4 => -300i16..300, 1 => Just(0i16), 1 => any::<i16>()]),
        (
            prop_oneof![6 => 11i16..=40, 2 => 21i16..=60, 1 => 0i16..=3, 1 => -30i16..0, 1 => any::<i16>()],
            prop_oneof![6 => 1i16..=30, 1 => Just(0i16), 1 => -19i16..0, 1 => proptest::sample::select(vec![-20i16, -21]), 1 => any::<i16>()],
        ),
        prop_oneof![4 => Just(vec![]), 3 => proptest::collection::vec((any::<u16>(), any::<bool>()), 1), 2 => proptest::collection::vec((any::<u16>(), any::<bool>()), 2), 2 => proptest::collection::vec((any::<u16>(), any::<bool>()), 3..=4)],
        prop_oneof![5 => Just(vec![]), 1 => proptest::collection::vec((any::<u16>(), num(), num()), 1..3)],
        (prop_oneof![5 => Just(0u16), 1 => Just(24u16), 1 => proptest::sample::select(vec![1u16, 8, 23, 25, 47, 48, 256, 257])], proptest::bool::weighted(0.1)),
    )
        .prop_map(|((op, pairs, start), (gap, width), ghosts, over, (chunk, frac))| StemRun { op, pairs, start, gap, width, ghosts, over, chunk, frac })
}

fn mask() -> impl Strategy<Value = CsIns> {
    (
        proptest::bool::weighted(0.25),
        prop_oneof![24 => Just(0i16), 1 => Just(-1i16), 1 => Just(1i16), 1 => Just(-64i16), 1 => 2i16..20],
        prop_oneof![3 => Just(0xFFu8), 1 => Just(0u8), 1 => Just(0xAAu8), 1 => Just(0x55u8), 2 => any::<u8>()],
        0u8..8,
    )
        .prop_map(|(cntr, len_adj, fill, rot)| CsIns::Mask { cntr, len_adj, fill, rot })
}

const PATH_OPS: &[u16] = &[21, 22, 4, 5, 6, 7, 8, 24, 25, 26, 27, 30, 31, 0x0C22, 0x0C23, 0x0C24, 0x0C25];

fn path() -> impl Strategy<Value = CsIns> {
    (
        prop_oneof![3 => Just(21u16), 1 => Just(22u16), 1 => Just(4u16), 10 => proptest::sample::select(PATH_OPS.to_vec())],
        prop_oneof![8 => 1u8..=4, 1 => 5u8..=12, 1 => proptest::sample::select(vec![8u8, 24, 47, 48, 49, 85, 86, 128])],
        proptest::collection::vec(num(), 1..6),
        prop_oneof![30 => Just(0i8), 1 => Just(-1i8), 2 => Just(1i8), 1 => Just(2i8)],
    )
        .prop_map(|(op, n, vals, extra)| CsIns::Path { op, n, vals, extra })
}

fn call() -> impl Strategy<Value = CsIns> {
    prop_oneof![
        8 => (any::<bool>(), any::<u8>()).prop_map(|(global, sel)| CsIns::Call { global, sel, raw: None }),
        2 => (any::<bool>(), prop_oneof![Just(-107i16), Just(-108), Just(-106), Just(0), Just(-1131), Just(-1132), Just(1131), Just(-32768), Just(32767), -120i16..-90, any::<i16>()])
            .prop_map(|(global, raw)| CsIns::Call { global, sel: 0, raw: Some(raw) }),
        2 => Just(CsIns::CallNext),
    ]
}

const ALL_OPS: &[u8] = &[1, 3, 4, 5, 6, 7, 8, 10, 11, 14, 15, 16, 18, 19, 20, 21, 22, 23, 24, 25, 26, 27, 29, 30, 31, 0, 2, 9, 13, 17];

fn fill() -> impl Strategy<Value = CsIns> {
    (proptest::sample::select(vec![2u16, 13, 47, 48, 49, 96, 192, 193, 511, 512, 513, 514]), num()).prop_map(|(n, v)| CsIns::Fill(n, v))
}

fn body_ins(cff2: bool) -> BoxedStrategy<CsIns> {
    let base = prop_oneof![
        60 => path(),
        10 => mask(),
        6 => call(),
        3 => stem_run(&[0, 1, 2, 3, 4]).prop_map(CsIns::Stems),
        4 => num().prop_map(CsIns::Num),
        2 => fill(),
        2 => proptest::sample::select(ALL_OPS.to_vec()).prop_map(CsIns::Op),
        // arithmetic / storage / flex escape operators (0..=37) and undefined ones
        2 => prop_oneof![4 => 0u8..=37, 1 => any::<u8>()].prop_map(CsIns::Esc),
        1 => proptest::collection::vec(any::<u8>(), 1..6).prop_map(CsIns::Raw),
    ];
    if cff2 {
        prop_oneof![
            8 => base,
            2 => (1u8..=4, proptest::collection::vec(num(), 1..5), prop_oneof![8 => Just(0i8), 1 => Just(-1i8), 1 => Just(1i8)]).prop_map(|(n, vals, k_adj)| CsIns::Blend { n, vals, k_adj }),
            1 => prop_oneof![4 => 0i16..3, 1 => Just(-1i16), 1 => any::<i16>()].prop_map(CsIns::Vsindex),
        ]
        .boxed()
    } else {
        base.boxed()
    }
}

fn soup_ins() -> impl Strategy<Value = CsIns> {
    prop_oneof![
        8 => num().prop_map(CsIns::Num),
        5 => proptest::sample::select(ALL_OPS.to_vec()).prop_map(CsIns::Op),
        1 => any::<u8>().prop_map(CsIns::Op),
        2 => any::<u8>().prop_map(CsIns::Esc),
        2 => proptest::collection::vec(any::<u8>(), 1..8).prop_map(CsIns::Raw),
        1 => fill(),
        1 => mask(),
    ]
}

/// end of a charstring: endchar / seac-style endchar / return / nothing / endchar + trailing bytes
fn end(subr: bool) -> impl Strategy<Value = Vec<CsIns>> {
    let (w_end, w_ret) = if subr { (2, 10) } else { (12, 1) };
    prop_oneof![
        w_end => Just(vec![CsIns::Op(14)]),
        w_ret => Just(vec![CsIns::Op(11)]),
        1 => proptest::collection::vec(num(), 1..5).prop_map(|vals| vec![CsIns::Path { op: 14, n: 1, vals, extra: 0 }]),
        1 => Just(vec![]),
        1 => proptest::collection::vec(any::<u8>(), 1..5).prop_map(|b| vec![CsIns::Op(14), CsIns::Raw(b)]),
    ]
}

fn glyph(cff2: bool) -> impl Strategy<Value = Glyph> {
    let hinted = (
        proptest::option::weighted(0.4, num()),
        // stem declarations: horizontal first (the order the format prescribes), then vertical
        prop_oneof![
            1 => Just(vec![]),
            4 => stem_run(&[0, 2]).prop_map(|h| vec![h]),
            4 => (stem_run(&[0, 2]), stem_run(&[1, 3, 4])).prop_map(|(h, v)| vec![h, v]),
            1 => proptest::collection::vec(stem_run(&[0, 1, 2, 3, 4]), 2..4),
        ],
        proptest::option::weighted(0.4, mask()),
        proptest::collection::vec(body_ins(cff2), 0..10),
        end(false),
    )
        .prop_map(|(width, stems, m, body, end)| {
            let mut prog: Vec<CsIns> = stems.into_iter().map(CsIns::Stems).collect();
            prog.extend(m);
            // a path normally starts with a moveto
            prog.push(CsIns::Path { op: 21, n: 1, vals: vec![Num::I(50), Num::I(-30)], extra: 0 });
            prog.extend(body);
            prog.extend(end);
            Glyph { width, prog }
        });
    let soup = (proptest::option::weighted(0.3, num()), proptest::collection::vec(soup_ins(), 1..40)).prop_map(|(width, prog)| Glyph { width, prog });
    let tiny = prop_oneof![Just(Glyph { width: None, prog: vec![CsIns::Op(14)] }), Just(Glyph { width: None, prog: vec![] }), Just(Glyph { width: Some(Num::I(100)), prog: vec![CsIns::CallNext, CsIns::Op(14)] })];
    prop_oneof![12 => hinted, 3 => soup, 1 => tiny]
}

fn subr(cff2: bool) -> impl Strategy<Value = Vec<CsIns>> {
    (
        proptest::option::weighted(0.3, stem_run(&[0, 1, 2, 3])),
        proptest::collection::vec(body_ins(cff2), 0..5),
        end(true),
    )
        .prop_map(|(s, body, end)| {
            let mut p: Vec<CsIns> = s.into_iter().map(CsIns::Stems).collect();
            p.extend(body);
            p.extend(end);
            p
        })
}

fn dnum() -> impl Strategy<Value = DNum> {
    prop_oneof![
        12 => (-200i32..1200).prop_map(DNum::I),
        3 => proptest::sample::select(vec![0i32, 1, -1, 32767, -32768, 32768, 65535, 65536, i32::MAX, i32::MIN, 0x7FFF, 0x8000]).prop_map(DNum::I),
        3 => any::<i32>().prop_map(DNum::L),
        12 => proptest::sample::select(vec!["0.039625", "0.5", "1", "-2.25", "1E-3", "0.0", "7", "1E5", "1E10", "1E400", "-1E400", "0.000001", "32767.99999", "-32768.5", "0.05", "0.0375", "00000000000000000000000000000001", "0.1E-99999", "65535.999", "-0.5"])
            .prop_map(|s| DNum::R(real_nibbles(s))),
        // malformed reals: the DICT (and with it the hinting instance) is rejected
        1 => proptest::sample::select(vec!["-", "", "..", "1E", "E5", "1E-", "123456789012345678901234567890123", "1-1"]).prop_map(|s| DNum::R(real_nibbles(s))),
        3 => proptest::collection::vec(0u8..10, 1..9).prop_map(DNum::R),
    ]
}

fn blues(max_pairs: usize) -> impl Strategy<Value = Vec<i32>> {
    prop_oneof![
        3 => Just(vec![]),
        5 => proptest::collection::vec((-400i32..1200, prop_oneof![4 => 0i32..30, 1 => -10i32..0, 1 => 30i32..400]), 1..=max_pairs).prop_map(|z| {
            let mut z = z;
            z.sort();
            z.into_iter().flat_map(|(b, h)| [b, b.wrapping_add(h)]).collect()
        }),
        1 => proptest::collection::vec(proptest::sample::select(vec![i32::MAX, i32::MIN, 32767, -32768, 32768, 65536, 0x7FFF_0000u32 as i32, 0, -1, 1 << 30, -(1 << 30)]), 1..=16),
        1 => proptest::collection::vec(-2000i32..2000, 1..=18),
    ]
}

fn private(cff2: bool) -> impl Strategy<Value = PrivSpec> {
    (
        // OtherBlues / FamilyOtherBlues may hold 5 pairs; up to 7 are generated (over the limit)
        (blues(7), blues(7), blues(7), blues(7)),
        (proptest::option::weighted(0.3, dnum()), proptest::option::weighted(0.3, dnum()), blues(6), blues(6)),
        (proptest::option::weighted(0.4, dnum()), proptest::option::weighted(0.3, dnum()), proptest::option::weighted(0.3, dnum())),
        (prop_oneof![4 => Just(None), 2 => Just(Some(0i32)), 3 => Just(Some(1i32)), 1 => any::<i32>().prop_map(Some)], proptest::option::weighted(0.2, (dnum(), dnum())), proptest::bool::weighted(0.1)),
        (prop_oneof![24 => Just(None), 9 => Just(Some(0i16)), 6 => (0i16..3).prop_map(Some), 1 => any::<i16>().prop_map(Some)], proptest::collection::vec(subr(cff2), 0..5), prop_oneof![24 => Just(0u8), 2 => 1u8..=7, 1 => Just(8u8), 3 => Just(9u8), 3 => Just(10u8), 2 => Just(11u8), 1 => Just(12u8)], prop_oneof![16 => Just(2u8), 1 => Just(0u8), 1 => Just(1u8)]),
    )
        .prop_map(move |((b, ob, fb, fob), (std_hw, std_vw, stem_snap_h, stem_snap_v), (blue_scale, blue_shift, blue_fuzz), (language_group, widths, real_blues), (vsindex, lsubrs, chain, subrs_op))| PrivSpec {
            blues: b,
            other_blues: ob,
            family_blues: fb,
            family_other_blues: fob,
            std_hw,
            std_vw,
            stem_snap_h,
            stem_snap_v,
            blue_scale,
            blue_shift,
            blue_fuzz,
            language_group,
            widths,
            real_blues,
            vsindex: if cff2 { vsindex } else { None },
            lsubrs,
            chain,
            subrs_op,
        })
}

fn font(cff2: bool) -> impl Strategy<Value = CffFont> {
    (
        (
            proptest::sample::select(vec![1000u16, 1000, 1000, 2048, 1, 16, 64, 250, 16384, 32768, 65535, 0]),
            proptest::collection::vec(glyph(cff2), 1..=5),
            proptest::collection::vec(subr(cff2), 0..4),
            proptest::collection::vec(private(cff2), 1..=3),
        ),
        (proptest::bool::weighted(0.3), prop_oneof![3 => Just(0u8), 3 => Just(3u8), 2 => Just(4u8), 1 => Just(9u8)], proptest::collection::vec(prop_oneof![8 => 0u8..3, 2 => any::<u8>()], 0..6), prop_oneof![7 => Just(0u8), 1 => 1u8..4]),
        (
            prop_oneof![5 => Just(9u8), 2 => Just(0u8), 1 => Just(1u8), 1 => Just(2u8), 1 => 3u8..=5],
            proptest::collection::vec((prop_oneof![3 => 0u16..400, 1 => any::<u16>()], prop_oneof![3 => 0u16..4, 1 => any::<u16>()]), 0..6),
            proptest::collection::vec(proptest::collection::vec(any::<u8>(), 0..8), 0..3),
        ),
        (
            (prop_oneof![40 => Just(0u16), 1 => Just(1239u16), 2 => Just(1240u16), 1 => Just(1300u16)], prop_oneof![12 => Just(0u16), 1 => 80u16..95, 1 => 160u16..172, 1 => 224u16..235, 1 => 235u16..400]),
            prop_oneof![40 => Just(0u16), 1 => Just(1239u16), 2 => Just(1240u16), 1 => Just(33900u16)],
            prop_oneof![6 => Just(0u8), 1 => 1u8..=4],
            prop_oneof![10 => Just(0i8), 1 => Just(1i8), 1 => Just(-1i8), 1 => Just(3i8)],
            proptest::collection::vec((prop_oneof![Just(0u16), Just(600), Just(65535), 0u16..3000], prop_oneof![Just(0i16), -500i16..500, any::<i16>()]), 0..3),
            proptest::bool::weighted(0.5),
        ),
        (
            0u8..4,
            prop_oneof![1 => Just(vec![]), 12 => proptest::collection::vec(proptest::collection::vec((proptest::sample::select(vec![0i16, -0x4000, 0x2000, 0x4000, 1]), proptest::sample::select(vec![0x4000i16, -0x4000, 0x2000, 0, 1, i16::MIN, i16::MAX]), proptest::sample::select(vec![0x4000i16, 0, 0x2000, -0x4000, i16::MAX])), 0..3), 1..5)],
            prop_oneof![1 => Just(vec![]), 12 => proptest::collection::vec(prop_oneof![6 => proptest::collection::vec(prop_oneof![40 => 0u16..5, 1 => any::<u16>()], 0..4), 1 => proptest::collection::vec(0u16..5, 15..19)], 1..4)],
            proptest::bool::weighted(0.9),
        ),
    )
        .prop_map(move |((upem, glyphs, gsubrs, privs), (cid, fdsel_fmt, fdsel, fdsel_shift), (charset_fmt, charset, strings), ((pad_lsubrs, pad_glyphs), pad_gsubrs, off_size, maxp_adj, metrics, cmap), (axes, regions, ivd, vstore))| CffFont {
            cff2,
            upem,
            glyphs,
            gsubrs,
            privs,
            cid,
            fdsel_fmt,
            fdsel,
            fdsel_shift,
            charset_fmt,
            charset,
            strings,
            pad_lsubrs,
            pad_gsubrs,
            pad_glyphs,
            off_size,
            maxp_adj,
            metrics,
            cmap,
            axes,
            regions,
            ivd,
            vstore,
        })
}

pub fn strategy() -> impl Strategy<Value = CffFont> {
    prop_oneof![3 => font(false), 1 => font(true)]
}
