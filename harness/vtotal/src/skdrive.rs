//! C02 (skrifa half): drive every public glyph-loading / metadata / colour operation with a generated argument record.
use read_fonts::{FileRef, FontRef};
use serde::{Deserialize, Serialize};
use skrifa::{
    color::{Brush, ColorPainter, CompositeMode, Transform},
    outline::{
        pen::{OutlinePen, PathStyle},
        DrawSettings, Engine, GlyphStyles, Hinting, HintingInstance, HintingOptions, SmoothMode, Target,
    },
    prelude::{LocationRef, Size},
    raw::types::{BoundingBox, F2Dot14},
    GlyphId, MetadataProvider,
};

#[derive(Clone, Debug, Serialize, Deserialize, PartialEq)]
pub struct SkArgs {
    pub gid_extra: u32,
    /// 0 unscaled, 1: 0.0, 2 tiny, 3: 16, 4: 113, 5: 4096, 6: 65536, 7 negative, 8 +inf, 9 -inf, 10 NaN, 11 subnormal, 12 raw bits
    pub size_kind: u8,
    pub size_bits: u32,
    /// arbitrary F2Dot14 bits; coord_len: 0 => none, 1 => axis_count, 2 => axis_count-1, 3 => axis_count+2, 4 => this vec as is
    pub coord_bits: Vec<i16>,
    pub coord_len: u8,
    /// 0 interpreter, 1 auto(None), 2 auto(precomputed styles), 3 auto fallback
    pub engine: u8,
    /// 0 mono, 1 normal, 2 light, 3 lcd, 4 vertical lcd, 5 normal + !symmetric + preserve linear metrics
    pub target: u8,
    pub pedantic: bool,
    /// 0 none, 1 exact, 2..=8 exact at misalignment k-1, 9 empty, 10 one byte, 11 half, 12 size-1, 13 size+slack
    pub mem_mode: u8,
    pub harfbuzz_style: bool,
    /// 0 fresh, 1 reconfigured from another configuration, 2 configured on a *different font* than the glyph
    pub inst_mode: u8,
    pub meta_id: u16,
}

pub fn size_of(a: &SkArgs) -> Size {
    match a.size_kind {
        0 => Size::unscaled(),
        1 => Size::new(0.0),
        2 => Size::new(1.0e-6),
        3 => Size::new(16.0),
        4 => Size::new(113.0),
        5 => Size::new(4096.0),
        6 => Size::new(65536.0),
        7 => Size::new(-12.5),
        8 => Size::new(f32::INFINITY),
        9 => Size::new(f32::NEG_INFINITY),
        10 => Size::new(f32::NAN),
        11 => Size::new(f32::from_bits(1)),
        _ => Size::new(f32::from_bits(a.size_bits)),
    }
}

fn coords_of(a: &SkArgs, axis_count: usize) -> Vec<F2Dot14> {
    let n = match a.coord_len {
        0 => 0,
        1 => axis_count,
        2 => axis_count.saturating_sub(1),
        3 => axis_count + 2,
        _ => a.coord_bits.len(),
    }
    .min(64);
    (0..n)
        .map(|i| F2Dot14::from_bits(if a.coord_bits.is_empty() { 0 } else { a.coord_bits[i % a.coord_bits.len()] }))
        .collect()
}

fn target_of(a: &SkArgs) -> Target {
    match a.target % 6 {
        0 => Target::Mono,
        1 => SmoothMode::Normal.into(),
        2 => SmoothMode::Light.into(),
        3 => SmoothMode::Lcd.into(),
        4 => SmoothMode::VerticalLcd.into(),
        _ => Target::Smooth { mode: SmoothMode::Normal, symmetric_rendering: false, preserve_linear_metrics: true },
    }
}

#[derive(Default)]
pub struct CountPen {
    pub cmds: u64,
    pub acc: u64,
}
impl CountPen {
    fn add(&mut self, k: u64, v: &[f32]) {
        self.cmds += 1;
        let mut a = self.acc.wrapping_mul(31).wrapping_add(k);
        for x in v {
            a = a.wrapping_mul(31).wrapping_add(x.to_bits() as u64);
        }
        self.acc = a;
    }
}
impl OutlinePen for CountPen {
    fn move_to(&mut self, x: f32, y: f32) {
        self.add(1, &[x, y])
    }
    fn line_to(&mut self, x: f32, y: f32) {
        self.add(2, &[x, y])
    }
    fn quad_to(&mut self, a: f32, b: f32, x: f32, y: f32) {
        self.add(3, &[a, b, x, y])
    }
    fn curve_to(&mut self, a: f32, b: f32, c: f32, d: f32, x: f32, y: f32) {
        self.add(4, &[a, b, c, d, x, y])
    }
    fn close(&mut self) {
        self.add(5, &[])
    }
}

pub struct BudgetExceeded;
pub struct BudgetPainter {
    pub n: u64,
    pub budget: u64,
}
impl BudgetPainter {
    fn tick(&mut self) {
        self.n += 1;
        if self.n > self.budget {
            std::panic::panic_any(BudgetExceeded);
        }
    }
}
impl ColorPainter for BudgetPainter {
    fn push_transform(&mut self, _: Transform) {
        self.tick()
    }
    fn pop_transform(&mut self) {
        self.tick()
    }
    fn push_clip_glyph(&mut self, _: GlyphId) {
        self.tick()
    }
    fn push_clip_box(&mut self, _: BoundingBox<f32>) {
        self.tick()
    }
    fn pop_clip(&mut self) {
        self.tick()
    }
    fn fill(&mut self, _: Brush<'_>) {
        self.tick()
    }
    fn push_layer(&mut self, _: CompositeMode) {
        self.tick()
    }
    fn pop_layer(&mut self) {
        self.tick()
    }
}

#[derive(Default, Debug, Clone)]
pub struct SkOutcome {
    pub opened: bool,
    pub draws: u64,
    pub draws_ok: u64,
    /// draws that got past argument validation: Ok or an error other than "no such glyph"
    pub draws_past_validation: u64,
    pub paints: u64,
    pub paints_ok: u64,
    pub paint_budget_exhausted: u64,
    pub insufficient_memory: u64,
    pub hint_instances: u64,
    pub digest: u64,
}

fn with_mem<R>(need: usize, mode: u8, f: impl FnOnce(Option<&mut [u8]>) -> R) -> R {
    match mode {
        0 => f(None),
        1 => {
            let mut b = vec![0u8; need];
            f(Some(&mut b))
        }
        2..=8 => {
            let k = (mode - 1) as usize;
            let mut b = vec![0u8; need + k + 8];
            // find an 8-aligned start, then misalign by k
            let base = b.as_ptr() as usize;
            let start = ((base + 7) & !7) - base + k;
            let end = (start + need).min(b.len());
            f(Some(&mut b[start..end]))
        }
        9 => f(Some(&mut [])),
        10 => {
            let mut b = [0u8; 1];
            f(Some(&mut b))
        }
        11 => {
            let mut b = vec![0u8; need / 2];
            f(Some(&mut b))
        }
        12 => {
            let mut b = vec![0u8; need.saturating_sub(1)];
            f(Some(&mut b))
        }
        _ => {
            let mut b = vec![0u8; need + 1024];
            f(Some(&mut b))
        }
    }
}

fn note_draw(o: &mut SkOutcome, r: &Result<skrifa::outline::AdjustedMetrics, skrifa::outline::DrawError>, pen: &CountPen) {
    o.draws += 1;
    match r {
        Ok(m) => {
            o.draws_ok += 1;
            o.draws_past_validation += 1;
            o.digest = o.digest.wrapping_mul(31).wrapping_add(pen.acc ^ m.advance_width.map(|x| x.to_bits() as u64).unwrap_or(7));
        }
        Err(e) => {
            use skrifa::outline::DrawError::*;
            match e {
                GlyphNotFound(_) | NoSources => {}
                InsufficientMemory => {
                    o.insufficient_memory += 1;
                    o.draws_past_validation += 1;
                }
                _ => o.draws_past_validation += 1,
            }
            o.digest = o.digest.wrapping_mul(31).wrapping_add(13);
        }
    }
}

/// Drive one font with one argument record; `other` is a second font used for cross-font hinting instances.
pub fn drive_font(font: &FontRef, other: Option<&FontRef>, a: &SkArgs, o: &mut SkOutcome) {
    o.opened = true;
    let size = size_of(a);
    let axis_count = font.axes().len();
    let coords = coords_of(a, axis_count);
    let loc = LocationRef::new(&coords);
    let nglyphs = font.glyph_metrics(Size::unscaled(), LocationRef::default()).glyph_count();
    let mut gids: Vec<u32> = (0..nglyphs.min(24)).collect();
    gids.extend([a.gid_extra, nglyphs.saturating_sub(1), nglyphs, 0xFFFF, 0x10000, u32::MAX]);

    // ---- charmap
    let cm = font.charmap();
    o.digest = o.digest.wrapping_add(cm.has_map() as u64 + 2 * cm.is_symbol() as u64 + 4 * cm.has_variant_map() as u64);
    for (i, (cp, g)) in cm.mappings().enumerate() {
        if i > 3000 {
            break;
        }
        if i < 12 {
            o.digest = o.digest.wrapping_mul(31).wrapping_add(cm.map(cp).map(|g| g.to_u32() as u64).unwrap_or(0));
            let _ = cm.map_variant(cp, 0xFE00u32);
            gids.push(g.to_u32());
        }
    }
    o.digest = o.digest.wrapping_add(cm.variant_mappings().take(3000).count() as u64);
    for cp in [0u32, 0x20, 0x41, 0xFFFF, 0x10000, 0x10FFFF, 0x110000, u32::MAX, a.gid_extra] {
        let _ = cm.map(cp);
        let _ = cm.map_variant(cp, 0xFE0Fu32);
        let _ = cm.map_variant(cp, 0xE0100u32);
    }
    let _ = skrifa::charmap::MappingIndex::new(font).charmap(font).map(0x41u32);

    // ---- metadata
    let _ = font.attributes();
    let raw_f = f32::from_bits(a.size_bits);
    for ax in font.axes().iter().take(32) {
        let _ = (ax.tag(), ax.index(), ax.min_value(), ax.default_value(), ax.max_value(), ax.name_id(), ax.is_hidden());
        for v in [raw_f, f32::NAN, f32::INFINITY, -1e30, ax.min_value(), ax.default_value(), ax.max_value()] {
            o.digest = o.digest.wrapping_mul(31).wrapping_add(ax.normalize(v).to_bits() as u64);
        }
    }
    let _ = font.axes().get(a.gid_extra as usize);
    let _ = font.axes().get_by_tag(skrifa::Tag::new(b"wght"));
    let l = font.axes().location([("wght", raw_f), ("wdth", -1e9), ("zzzz", f32::NAN)]);
    o.digest = o.digest.wrapping_add(l.coords().len() as u64);
    let mut slice = vec![F2Dot14::ZERO; (a.meta_id % 9) as usize];
    font.axes().location_to_slice([("wght", raw_f), ("opsz", 1e9)], &mut slice);
    let _ = font.axes().filter([("wght", raw_f), ("zzzz", 0.0)]).count();
    for ni in font.named_instances().iter().take(32) {
        let _ = ni.location();
        let _ = ni.user_coords().take(1000).count();
        let _ = ni.subfamily_name_id();
        let _ = ni.postscript_name_id();
        ni.location_to_slice(&mut slice);
    }
    let _ = font.named_instances().get(a.gid_extra as usize);
    for id in [skrifa::string::StringId::FAMILY_NAME, skrifa::string::StringId::new(a.meta_id), skrifa::string::StringId::new(0xFFFF)] {
        for s in font.localized_strings(id).take(64) {
            let _ = s.language();
            o.digest = o.digest.wrapping_add(s.chars().take(4096).count() as u64);
        }
        let _ = font.localized_strings(id).english_or_first().map(|s| s.chars().take(256).count());
    }
    let gn = font.glyph_names();
    let _ = gn.source();
    let _ = gn.num_glyphs();
    for g in &gids {
        o.digest = o.digest.wrapping_add(gn.get(GlyphId::new(*g)).map(|n| n.as_str().len() + n.is_synthesized() as usize).unwrap_or(0) as u64);
    }
    o.digest = o.digest.wrapping_add(gn.iter().take(600).count() as u64);

    // ---- metrics
    for (sz, lc) in [(size, loc), (Size::unscaled(), LocationRef::default()), (Size::new(16.0), loc)] {
        let m = font.metrics(sz, lc);
        o.digest = o.digest.wrapping_mul(31).wrapping_add(m.ascent.to_bits() as u64 ^ ((m.units_per_em as u64) << 32));
        let gm = font.glyph_metrics(sz, lc);
        let _ = gm.glyph_count();
        for g in &gids {
            let g = GlyphId::new(*g);
            o.digest = o.digest.wrapping_mul(31).wrapping_add(gm.advance_width(g).map(|x| x.to_bits() as u64).unwrap_or(1));
            o.digest = o.digest.wrapping_mul(31).wrapping_add(gm.left_side_bearing(g).map(|x| x.to_bits() as u64).unwrap_or(1));
            let _ = gm.bounds(g);
        }
    }

    // ---- outlines
    let outlines = font.outline_glyphs();
    let _ = outlines.format();
    let _ = outlines.prefer_interpreter();
    let _ = outlines.require_interpreter();
    let style = if a.harfbuzz_style { PathStyle::HarfBuzz } else { PathStyle::FreeType };
    let mut sample_pen = CountPen::default();
    for g in &gids {
        let Some(gl) = outlines.get(GlyphId::new(*g)) else { continue };
        let _ = (gl.glyph_id(), gl.format());
        let need = gl.draw_memory_size(Hinting::None);
        for (sz, lc) in [(size, loc), (Size::new(16.0), LocationRef::default())] {
            let mut pen = CountPen::default();
            let r = with_mem(need, a.mem_mode, |m| gl.draw(DrawSettings::unhinted(sz, lc).with_memory(m).with_path_style(style), &mut pen));
            note_draw(o, &r, &pen);
            sample_pen.acc ^= pen.acc;
        }
        // every shorter length class of the advertised size must give InsufficientMemory or succeed, never panic
        for mode in [9u8, 10, 11, 12, 1, 4] {
            let mut pen = CountPen::default();
            let r = with_mem(need, mode, |m| gl.draw(DrawSettings::unhinted(size, loc).with_memory(m), &mut pen));
            note_draw(o, &r, &pen);
        }
    }

    // ---- hinting instances
    let target = target_of(a);
    let engines: Vec<Engine> = match a.engine % 4 {
        0 => vec![Engine::Interpreter],
        1 => vec![Engine::Auto(None)],
        2 => vec![Engine::Auto(Some(GlyphStyles::new(&outlines)))],
        _ => vec![Engine::AutoFallback],
    };
    let other_outlines = other.map(|f| f.outline_glyphs());
    for engine in engines {
        let opts = HintingOptions { engine: engine.clone(), target };
        let inst = match a.inst_mode % 3 {
            0 => HintingInstance::new(&outlines, size, loc, opts),
            1 => {
                // configured for something else first (other size, other engine, other font if available), then reconfigured
                let first = if let Some(oo) = &other_outlines {
                    HintingInstance::new(oo, Size::new(9.0), LocationRef::default(), HintingOptions { engine: Engine::AutoFallback, target: Target::Mono })
                } else {
                    HintingInstance::new(&outlines, Size::new(9.0), LocationRef::default(), HintingOptions { engine: Engine::Interpreter, target: Target::Mono })
                };
                match first {
                    Ok(mut i) => i.reconfigure(&outlines, size, loc, opts).map(|_| i),
                    Err(_) => HintingInstance::new(&outlines, size, loc, opts),
                }
            }
            _ => {
                // API misuse the README covers: an instance configured on a different font than the glyph
                if let Some(oo) = &other_outlines {
                    HintingInstance::new(oo, size, LocationRef::default(), opts)
                } else {
                    HintingInstance::new(&outlines, size, loc, opts)
                }
            }
        };
        let Ok(mut inst) = inst else { continue };
        o.hint_instances += 1;
        let _ = (inst.is_enabled(), inst.size(), inst.location().coords().len());
        for g in &gids {
            let Some(gl) = outlines.get(GlyphId::new(*g)) else { continue };
            let need = gl.draw_memory_size(Hinting::Embedded);
            let mut pen = CountPen::default();
            let r = with_mem(need, a.mem_mode, |m| gl.draw(DrawSettings::hinted(&inst, a.pedantic).with_memory(m).with_path_style(style), &mut pen));
            note_draw(o, &r, &pen);
            for mode in [9u8, 11, 12] {
                let mut pen = CountPen::default();
                let r = with_mem(need, mode, |m| gl.draw(DrawSettings::hinted(&inst, !a.pedantic).with_memory(m), &mut pen));
                note_draw(o, &r, &pen);
            }
        }
        let _ = inst.reconfigure(&outlines, Size::new(9.0), LocationRef::default(), HintingOptions { engine: Engine::Interpreter, target: Target::Mono });
        for g in gids.iter().take(6) {
            if let Some(gl) = outlines.get(GlyphId::new(*g)) {
                let mut pen = CountPen::default();
                let r = gl.draw(DrawSettings::hinted(&inst, false), &mut pen);
                note_draw(o, &r, &pen);
            }
        }
    }
    o.digest ^= sample_pen.acc;

    // ---- colour glyphs
    let cg = font.color_glyphs();
    for g in &gids {
        for lc in [loc, LocationRef::default()] {
            for fmt in [None, Some(skrifa::color::ColorGlyphFormat::ColrV0), Some(skrifa::color::ColorGlyphFormat::ColrV1)] {
                let c = match fmt {
                    None => cg.get(GlyphId::new(*g)),
                    Some(f) => cg.get_with_format(GlyphId::new(*g), f),
                };
                let Some(c) = c else { continue };
                let _ = c.format();
                let _ = c.bounding_box(lc, size);
                let _ = c.bounding_box(lc, Size::new(16.0));
                let mut p = BudgetPainter { n: 0, budget: 200_000 };
                o.paints += 1;
                let r = std::panic::catch_unwind(std::panic::AssertUnwindSafe(|| c.paint(lc, &mut p)));
                match r {
                    Ok(Ok(())) => o.paints_ok += 1,
                    Ok(Err(_)) => {}
                    Err(e) => {
                        if e.is::<BudgetExceeded>() {
                            o.paint_budget_exhausted += 1;
                        } else {
                            std::panic::resume_unwind(e);
                        }
                    }
                }
                o.digest = o.digest.wrapping_mul(31).wrapping_add(p.n);
            }
        }
    }
}

pub fn drive_file(data: &[u8], other: Option<&[u8]>, a: &SkArgs) -> SkOutcome {
    let mut o = SkOutcome::default();
    let other_font = other.and_then(|d| FontRef::new(d).ok().or_else(|| FontRef::from_index(d, 0).ok()));
    let Ok(file) = FileRef::new(data) else { return o };
    for font in file.fonts().take(2).flatten() {
        drive_font(&font, other_font.as_ref(), a, &mut o);
    }
    o
}
