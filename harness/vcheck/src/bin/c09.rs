//! C09 — glyph outlines written to glyf/loca are the outlines read and drawn back.
//!
//! Stages
//!  * `tables`  GlyfLocaBuilder -> (glyf, loca, format) -> read-fonts: contours, flags, coordinates, bbox, instructions,
//!              components; every simple glyph's encoded length <= the oracle's canonical shortest length.
//!  * `draw`    font assembled with vcore::fontkit around the built tables; `OutlineGlyph::draw` (unscaled, both path
//!              styles) is geometrically equal to the input path (`SimpleGlyph::from_bezpath`) or to the reference
//!              TrueType contour -> path conversion of the input points.
//!  * `loca`    `Loca::new(offsets)` for arbitrary ascending offsets (odd ones included, which the builder never
//!              produces): whichever format is chosen, the offsets read back are the offsets given.
use kurbo::{BezPath, PathEl};
use proptest::collection::vec as pvec;
use proptest::prelude::*;
use proptest::sample::select;
use read_fonts::tables::glyf::{self as rg, CompositeGlyphFlags as CF, CurvePoint, PointFlags};
use read_fonts::tables::loca::Loca as RLoca;
use read_fonts::types::{F2Dot14, GlyphId, GlyphId16, Point};
use read_fonts::{FontData, FontRead};
use serde::{Deserialize, Serialize};
use serde_json::json;
use skrifa::outline::pen::{PathElement, PathStyle};
use skrifa::outline::DrawSettings;
use skrifa::prelude::{LocationRef, Size};
use skrifa::MetadataProvider;
use std::collections::BTreeMap;
use vcore::*;
use write_fonts::dump_table;
use write_fonts::tables::glyf::{
    Anchor, Bbox, Component, ComponentFlags, CompositeGlyph, Contour, GlyfLocaBuilder, Glyph, SimpleGlyph, Transform,
};
use write_fonts::tables::loca::{Loca, LocaFormat};

const SHORT_LIMIT: u32 = 0x1FFFE;
/// cap on the points of one generated glyph (maxp of the kit font allows 20 000)
const MAX_POINTS: usize = 12_000;

fn fail(sig: &str, msg: String) -> Fail {
    Fail::new(format!("c09|{sig}"), msg)
}

// ---------------------------------------------------------------------------------------------------------------
// case types
// ---------------------------------------------------------------------------------------------------------------

/// `n` points that all move by (dx, dy) (mode 0), by a varying amount of the same delta class (mode 1) or by
/// +d, -d, +d .. (mode 2); all with the same on-curve flag. Coordinates are clamped into i16, so every successive
/// delta is representable by construction.
#[derive(Clone, Debug, Serialize, Deserialize)]
struct Seg {
    dx: i16,
    dy: i16,
    on: bool,
    n: u16,
    mode: u8,
}

#[derive(Clone, Debug, Serialize, Deserialize)]
struct CompSpec {
    gid: u16,
    /// Anchor::Point{base: a, component: b} or Anchor::Offset{x: a as i16, y: b as i16}
    point: bool,
    a: u16,
    b: u16,
    /// 0 identity, 1 uniform scale m[0], 2 x/y scale m[0], m[1], 3 two-by-two (raw F2Dot14 bits)
    tkind: u8,
    m: [i16; 4],
    /// round_xy_to_grid, use_my_metrics, scaled_component_offset, unscaled_component_offset, overlap_compound
    flags: [bool; 5],
    bbox: [i16; 4],
}

#[derive(Clone, Debug, Serialize, Deserialize)]
enum G {
    Empty,
    Simple {
        contours: Vec<Vec<Seg>>,
        instr: Vec<u8>,
        /// None: recompute_bounding_box(); Some: this value, whatever the points are
        bbox: Option<[i16; 4]>,
    },
    Comp {
        comps: Vec<CompSpec>,
        /// CompositeGlyph::new + add_component instead of try_from_iter
        via_add: bool,
    },
}

/// Filler glyphs (one point, long instructions) are derived from this, not stored: the total glyf length becomes
/// 0x1FFFE + 2*k bytes when the other glyphs leave room.
#[derive(Clone, Debug, Serialize, Deserialize)]
struct Steer {
    k: i16,
    front: bool,
    odd_instr: bool,
}

#[derive(Clone, Debug, Serialize, Deserialize)]
struct Case {
    glyphs: Vec<G>,
    steer: Option<Steer>,
    /// pass &SimpleGlyph / &CompositeGlyph to add_glyph instead of &Glyph
    direct: bool,
}

#[derive(Clone, Debug, Serialize, Deserialize)]
enum El {
    Line(i16, i16),
    /// control = cur + (a, b); end = control + (c, d)
    Quad(i16, i16, i16, i16),
    /// control = reflection of the previous control through the current point (which then is an implied point)
    Smooth(i16, i16),
    /// like Smooth, one unit off: the current point must NOT be dropped
    NearSmooth(i16, i16),
}

#[derive(Clone, Debug, Serialize, Deserialize)]
enum Sub {
    /// close: 0 open, 1 Z, 2 L start + Z, 3 last element ends on start + Z, 4 last element ends on start (open),
    /// 5 closing quad whose control mirrors the first control through start + Z
    Els { x: i16, y: i16, els: Vec<El>, close: u8 },
    /// closed contour of quads through control points of equal parity: every on-curve point is implied
    AllOff { px: bool, py: bool, ctrls: Vec<(i16, i16)> },
}

#[derive(Clone, Debug, Serialize, Deserialize)]
enum DG {
    Empty,
    Path(Vec<Sub>),
    Points(Vec<Vec<Seg>>),
}

#[derive(Clone, Debug, Serialize, Deserialize)]
struct DCase {
    glyphs: Vec<DG>,
    steer: Option<Steer>,
}

#[derive(Clone, Debug, Serialize, Deserialize)]
struct LCase {
    /// every increment is doubled: all offsets even (unless `end` is odd)
    even: bool,
    incs: Vec<u32>,
    /// the last offset is moved to this value when it is not below the one before
    end: Option<u32>,
}

// ---------------------------------------------------------------------------------------------------------------
// strategies
// ---------------------------------------------------------------------------------------------------------------

fn delta() -> BoxedStrategy<i16> {
    prop_oneof![
        4 => Just(0i16),
        3 => -2i16..=2,
        3 => select(vec![255i16, -255, 256, -256, 257, -257, 254, -254]),
        3 => -300i16..=300,
        2 => -3000i16..=3000,
        1 => any::<i16>(),
        1 => select(vec![i16::MIN, i16::MAX, -32767, 32766]),
    ]
    .boxed()
}

fn seg(big: bool, on_any: bool) -> BoxedStrategy<Seg> {
    let n = if big {
        prop_oneof![
            12 => Just(1u16),
            4 => 2u16..=4,
            1 => 5u16..40,
            1 => select(vec![254u16, 255, 256, 257, 258, 511, 512, 513, 600]),
        ]
        .boxed()
    } else {
        prop_oneof![6 => Just(1u16), 2 => 2u16..=4].boxed()
    };
    let on = if on_any { any::<bool>().boxed() } else { prop_oneof![3 => Just(true), 1 => Just(false), 1 => any::<bool>()].boxed() };
    (delta(), delta(), on, n, 0u8..3).prop_map(|(dx, dy, on, n, mode)| Seg { dx, dy, on, n, mode }).boxed()
}

fn contours(big: bool, on_any: bool) -> BoxedStrategy<Vec<Vec<Seg>>> {
    let contour = prop_oneof![8 => pvec(seg(big, on_any), 1..6), 1 => pvec(seg(big, on_any), 6..12)];
    if big {
        prop_oneof![6 => pvec(contour.clone(), 1..4), 2 => pvec(contour.clone(), 4..9), 1 => pvec(contour, 9..21)].boxed()
    } else {
        pvec(contour, 1..4).boxed()
    }
}

fn simple(big: bool) -> BoxedStrategy<G> {
    let instr = prop_oneof![5 => pvec(any::<u8>(), 0..6), 2 => pvec(any::<u8>(), 0..40), 1 => pvec(any::<u8>(), 250..301)];
    let bbox = prop_oneof![3 => Just(None), 1 => any::<[i16; 4]>().prop_map(Some)];
    (contours(big, false), instr, bbox).prop_map(|(contours, instr, bbox)| G::Simple { contours, instr, bbox }).boxed()
}

fn comp() -> BoxedStrategy<G> {
    let off = prop_oneof![
        3 => select(vec![-129i16, -128, -127, -1, 0, 1, 126, 127, 128, i16::MIN, i16::MAX]),
        3 => -128i16..128,
        2 => any::<i16>(),
    ]
    .prop_map(|v| v as u16);
    let pt = prop_oneof![3 => select(vec![0u16, 1, 254, 255, 256, 257, 65535]), 3 => 0u16..256, 2 => any::<u16>()];
    let arg = (any::<bool>(), off.clone(), off, pt.clone(), pt).prop_map(|(point, ox, oy, pa, pb)| if point { (true, pa, pb) } else { (false, ox, oy) });
    let m = prop_oneof![
        2 => Just(0x4000i16),
        2 => Just(0i16),
        1 => select(vec![0x4001i16, 0x3FFF, -0x4000, i16::MIN, i16::MAX, 1, -1]),
        3 => any::<i16>(),
    ];
    let bbox = prop_oneof![2 => (-20i16..20, -20i16..20, -20i16..20, -20i16..20).prop_map(|(a, b, c, d)| [a, b, c, d]), 1 => any::<[i16; 4]>()];
    let gid = prop_oneof![3 => 0u16..50, 1 => any::<u16>()];
    let c = (gid, arg, 0u8..4, [m.clone(), m.clone(), m.clone(), m], any::<[bool; 5]>(), bbox)
        .prop_map(|(gid, (point, a, b), tkind, m, flags, bbox)| CompSpec { gid, point, a, b, tkind, m, flags, bbox });
    (prop_oneof![6 => pvec(c.clone(), 1..4), 2 => pvec(c, 4..9)], any::<bool>()).prop_map(|(comps, via_add)| G::Comp { comps, via_add }).boxed()
}

fn steer(p_none: u32) -> BoxedStrategy<Option<Steer>> {
    let k = prop_oneof![3 => select(vec![-2i16, -1, 0, 1, 2]), 2 => -32i16..=32];
    prop_oneof![
        p_none => Just(None),
        5 => (k, any::<bool>(), any::<bool>()).prop_map(|(k, front, odd_instr)| Some(Steer { k, front, odd_instr })),
    ]
    .boxed()
}

fn strategy() -> impl Strategy<Value = Case> {
    let g = |big: bool| prop_oneof![1 => Just(G::Empty), 6 => simple(big), 3 => comp()];
    let glyphs = prop_oneof![8 => pvec(g(true), 1..12), 2 => pvec(g(false), 12..60), 1 => pvec(g(false), 60..401)];
    (glyphs, steer(5), any::<bool>()).prop_map(|(glyphs, steer, direct)| Case { glyphs, steer, direct })
}

fn draw_strategy() -> impl Strategy<Value = DCase> {
    let d = || prop_oneof![2 => Just(0i16), 3 => -3i16..=3, 4 => -60i16..=60, 3 => -700i16..=700, 1 => select(vec![255i16, 256, -255, -256]), 1 => -9000i16..=9000];
    let el = prop_oneof![
        4 => (d(), d()).prop_map(|(a, b)| El::Line(a, b)),
        4 => (d(), d(), d(), d()).prop_map(|(a, b, c, e)| El::Quad(a, b, c, e)),
        4 => (d(), d()).prop_map(|(a, b)| El::Smooth(a, b)),
        1 => (d(), d()).prop_map(|(a, b)| El::NearSmooth(a, b)),
    ];
    let start = prop_oneof![2 => -50i16..=50, 2 => -2000i16..=2000, 1 => -16000i16..=16000];
    let sub = prop_oneof![
        8 => (start.clone(), start.clone(), pvec(el, 0..8), 0u8..6).prop_map(|(x, y, els, close)| Sub::Els { x, y, els, close }),
        2 => (any::<bool>(), any::<bool>(), pvec((-4000i16..=4000, -4000i16..=4000), 1..7)).prop_map(|(px, py, ctrls)| Sub::AllOff { px, py, ctrls }),
    ];
    let g = prop_oneof![1 => Just(DG::Empty), 7 => pvec(sub, 1..4).prop_map(DG::Path), 3 => contours(true, true).prop_map(DG::Points)];
    let glyphs = prop_oneof![8 => pvec(g.clone(), 1..8), 1 => pvec(g, 8..40)];
    (glyphs, steer(40)).prop_map(|(glyphs, steer)| DCase { glyphs, steer })
}

fn loca_strategy() -> impl Strategy<Value = LCase> {
    let inc = prop_oneof![
        3 => Just(0u32),
        3 => select(vec![1u32, 2, 3, 4, 12, 13]),
        3 => (0u32..2000).prop_map(|v| v * 2),
        2 => 0u32..4000,
        1 => 0u32..70_000,
    ];
    let end = prop_oneof![3 => Just(None), 3 => (0x1FFF0u32..0x20010).prop_map(Some), 1 => (0u32..0x50000).prop_map(Some)];
    (any::<bool>(), pvec(inc, 1..40), end).prop_map(|(even, incs, end)| LCase { even, incs, end })
}

// ---------------------------------------------------------------------------------------------------------------
// materialisation of cases
// ---------------------------------------------------------------------------------------------------------------

type Pt = (i16, i16, bool);

fn vary(d: i16, k: i32, mode: u8) -> i32 {
    let d = d as i32;
    match mode {
        1 => match d {
            0 => 0,
            1..=255 => (d - 1 + k * 37) % 255 + 1,
            -255..=-1 => -((-d - 1 + k * 37) % 255 + 1),
            256..=i32::MAX => 256 + (d - 256 + k * 101) % 700,
            _ => -(256 + (-d - 256 + k * 101) % 700),
        },
        2 => {
            if k % 2 == 1 {
                -d
            } else {
                d
            }
        }
        _ => d,
    }
}

fn expand(contours: &[Vec<Seg>]) -> Vec<Vec<Pt>> {
    let (mut x, mut y) = (0i32, 0i32);
    let mut total = 0usize;
    let mut out = vec![];
    for c in contours {
        let mut pts = vec![];
        for s in c {
            for k in 0..s.n.max(1) as i32 {
                if total >= MAX_POINTS {
                    break;
                }
                let dx = vary(s.dx, k, s.mode).clamp(-32768, 32767);
                let dy = vary(s.dy, k, s.mode).clamp(-32768, 32767);
                x = (x + dx).clamp(-32768, 32767);
                y = (y + dy).clamp(-32768, 32767);
                pts.push((x as i16, y as i16, s.on));
                total += 1;
            }
        }
        if pts.is_empty() {
            pts.push((x as i16, y as i16, true));
            total += 1;
        }
        out.push(pts);
    }
    out
}

fn make_simple(pts: &[Vec<Pt>], instr: &[u8], bbox: Option<[i16; 4]>) -> SimpleGlyph {
    let mut sg = SimpleGlyph {
        bbox: Bbox::default(),
        contours: pts.iter().map(|c| Contour::from(c.iter().map(|p| CurvePoint::new(p.0, p.1, p.2)).collect::<Vec<_>>())).collect(),
        instructions: instr.to_vec(),
    };
    match bbox {
        None => sg.recompute_bounding_box(),
        Some(b) => sg.bbox = Bbox { x_min: b[0], y_min: b[1], x_max: b[2], y_max: b[3] },
    }
    sg
}

fn make_component(c: &CompSpec) -> (Component, Bbox) {
    let anchor = if c.point { Anchor::Point { base: c.a, component: c.b } } else { Anchor::Offset { x: c.a as i16, y: c.b as i16 } };
    let f = F2Dot14::from_bits;
    let tr = match c.tkind {
        0 => Transform::default(),
        1 => Transform { xx: f(c.m[0]), yy: f(c.m[0]), ..Transform::default() },
        2 => Transform { xx: f(c.m[0]), yy: f(c.m[1]), ..Transform::default() },
        _ => Transform { xx: f(c.m[0]), yx: f(c.m[1]), xy: f(c.m[2]), yy: f(c.m[3]) },
    };
    let flags = ComponentFlags {
        round_xy_to_grid: c.flags[0],
        use_my_metrics: c.flags[1],
        scaled_component_offset: c.flags[2],
        unscaled_component_offset: c.flags[3],
        overlap_compound: c.flags[4],
    };
    let b = Bbox { x_min: c.bbox[0], y_min: c.bbox[1], x_max: c.bbox[2], y_max: c.bbox[3] };
    (Component::new(GlyphId16::new(c.gid), anchor, tr, flags), b)
}

fn make_composite(comps: &[CompSpec], via_add: bool) -> Result<CompositeGlyph, Fail> {
    let parts: Vec<(Component, Bbox)> = comps.iter().map(make_component).collect();
    if via_add {
        let mut it = parts.into_iter();
        let (c0, b0) = it.next().ok_or_else(|| fail("harness", "empty component list".into()))?;
        let mut g = CompositeGlyph::new(c0, b0);
        for (c, b) in it {
            g.add_component(c, b);
        }
        Ok(g)
    } else {
        CompositeGlyph::try_from_iter(parts).map_err(|e| fail("try_from_iter", format!("non-empty component list rejected: {e}")))
    }
}

/// what the oracle knows about one glyph handed to the builder
enum Want {
    Empty,
    Simple { pts: Vec<Vec<Pt>>, instr: Vec<u8> },
    Comp(Vec<CompSpec>),
}

// ---------------------------------------------------------------------------------------------------------------
// canonical shortest encoding of a simple glyph (the oracle's own; independent of write-fonts)
// ---------------------------------------------------------------------------------------------------------------

struct Enc {
    unpadded: usize,
    max_run: usize,
    any_long: bool,
}

fn canon_len<'a>(contours: usize, pts: impl Iterator<Item = &'a Pt>, instr: usize) -> Enc {
    let cls = |d: i32| -> (u8, usize) {
        if d == 0 {
            (0, 0)
        } else if (1..=255).contains(&d) {
            (1, 1)
        } else if (-255..=-1).contains(&d) {
            (2, 1)
        } else {
            (3, 2)
        }
    };
    let (mut lx, mut ly) = (0i32, 0i32);
    let (mut coord_bytes, mut flag_bytes) = (0usize, 0usize);
    let mut any_long = false;
    let mut max_run = 0usize;
    let mut prev: Option<(bool, u8, u8)> = None;
    let mut run = 0usize;
    // cost of a maximal stretch of `run` equal flags: chunks of <= 256 (flag + repeat byte), a rest of 1 or 2 plain
    let cost = |run: usize| -> usize { 2 * (run / 256) + (run % 256).min(2) };
    for p in pts {
        let (dx, dy) = (p.0 as i32 - lx, p.1 as i32 - ly);
        lx = p.0 as i32;
        ly = p.1 as i32;
        let (cx, bx) = cls(dx);
        let (cy, by) = cls(dy);
        coord_bytes += bx + by;
        any_long |= cx == 3 || cy == 3;
        let f = (p.2, cx, cy);
        if prev == Some(f) {
            run += 1;
        } else {
            flag_bytes += cost(run);
            max_run = max_run.max(run);
            run = 1;
            prev = Some(f);
        }
    }
    flag_bytes += cost(run);
    max_run = max_run.max(run);
    Enc { unpadded: 10 + 2 * contours + 2 + instr + flag_bytes + coord_bytes, max_run, any_long }
}

fn canon_of_simple(g: &SimpleGlyph) -> Enc {
    let pts: Vec<Pt> = g.contours.iter().flat_map(|c| c.iter()).map(|p| (p.x, p.y, p.on_curve)).collect();
    canon_len(g.contours.len(), pts.iter(), g.instructions.len())
}

fn pad2(n: usize) -> usize {
    (n + 1) & !1
}

/// length the oracle expects for a glyph (exact for empty/composite, canonical bound for simple)
fn expected_len(g: &Glyph) -> usize {
    match g {
        Glyph::Empty => 0,
        Glyph::Simple(s) => {
            if s.contours.is_empty() {
                0
            } else {
                pad2(canon_of_simple(s).unpadded)
            }
        }
        Glyph::Composite(c) => {
            let mut n = 10;
            for comp in c.components() {
                let words = match comp.anchor {
                    Anchor::Offset { x, y } => !(-128..=127).contains(&x) || !(-128..=127).contains(&y),
                    Anchor::Point { base, component } => base > 255 || component > 255,
                };
                let t = comp.transform;
                let tb = if t.yx.to_bits() != 0 || t.xy.to_bits() != 0 {
                    8
                } else if t.xx != t.yy {
                    4
                } else if t.xx.to_bits() != 0x4000 {
                    2
                } else {
                    0
                };
                n += 4 + if words { 4 } else { 2 } + tb;
            }
            pad2(n)
        }
    }
}

/// Filler glyphs so that the total length becomes 0x1FFFE + 2k (when the lengths are the expected ones).
fn fillers(base: usize, st: &Steer) -> Vec<SimpleGlyph> {
    let target = (SHORT_LIMIT as i64 + 2 * st.k as i64) as usize;
    let mut need = match target.checked_sub(base) {
        Some(n) if n >= 16 => n,
        _ => return vec![],
    };
    let one = |instr: usize| make_simple(&[vec![(0, 0, true)]], &vec![0x4Fu8; instr], None); // 15 + instr bytes, padded to 2
    let mut out = vec![];
    while need > 65_000 {
        out.push(one(60_001)); // 60016 bytes
        need -= 60_016;
    }
    if need >= 16 {
        // need is even: 15 + instr (odd instr, no padding byte) or 15 + instr + 1 (even instr, padded)
        let instr = if st.odd_instr { need - 15 } else { need - 16 };
        out.push(one(instr));
    }
    out
}

// ---------------------------------------------------------------------------------------------------------------
// stage `tables`
// ---------------------------------------------------------------------------------------------------------------

#[derive(Default)]
struct Counters(BTreeMap<&'static str, u64>);
impl Counters {
    fn add(&mut self, k: &'static str) {
        *self.0.entry(k).or_insert(0) += 1;
    }
    fn flush(&self, stats: &Stats) {
        for (k, v) in &self.0 {
            stats.class_n(k, *v);
        }
    }
}

struct Built {
    glyf: Vec<u8>,
    loca: Vec<u8>,
    long: bool,
    offsets: Vec<u32>,
}

/// builder -> bytes; loca-level checks (count, monotone, covers glyf, format decodes)
fn build_tables(glyphs: &[Glyph], direct: bool) -> Result<Built, Fail> {
    let mut b = GlyfLocaBuilder::new();
    for (i, g) in glyphs.iter().enumerate() {
        let r = match (direct, g) {
            (true, Glyph::Simple(s)) => b.add_glyph(s).map(|_| ()),
            (true, Glyph::Composite(c)) => b.add_glyph(c).map(|_| ()),
            _ => b.add_glyph(g).map(|_| ()),
        };
        r.map_err(|e| fail("add_glyph", format!("glyph {i} rejected: {e}")))?;
    }
    let (glyf, loca, fmt) = b.build();
    if loca.format() != fmt {
        return Err(fail("format-field", format!("build() returned {fmt:?} but loca.format() is {:?}", loca.format())));
    }
    let gb = dump_table(&glyf).map_err(|e| fail("dump", format!("glyf: {e}")))?;
    let lb = dump_table(&loca).map_err(|e| fail("dump", format!("loca: {e}")))?;
    let long = fmt == LocaFormat::Long;
    let n = glyphs.len();
    let entry = if long { 4 } else { 2 };
    if lb.len() != (n + 1) * entry {
        return Err(fail("loca-size", format!("loca is {} bytes for {n} glyphs in {fmt:?} format", lb.len())));
    }
    let rl = RLoca::read(FontData::new(&lb), long).map_err(|e| fail("loca-read", format!("{e}")))?;
    if rl.len() != n {
        return Err(fail("loca-count", format!("loca has {} glyphs, {n} were added", rl.len())));
    }
    let mut offsets = Vec::with_capacity(n + 1);
    for i in 0..=n {
        offsets.push(rl.get_raw(i).ok_or_else(|| fail("loca-count", format!("no offset {i}")))?);
    }
    if offsets[0] != 0 || offsets.windows(2).any(|w| w[0] > w[1]) {
        return Err(fail("loca-order", format!("offsets do not start at 0 / are not ascending ({fmt:?})")));
    }
    if offsets[n] as usize != gb.len() {
        return Err(fail("loca-end", format!("last offset {} but glyf is {} bytes ({fmt:?})", offsets[n], gb.len())));
    }
    Ok(Built { glyf: gb, loca: lb, long, offsets })
}

fn check_simple(i: usize, sg: &rg::SimpleGlyph, pts: &[Vec<Pt>], instr: &[u8], added: &SimpleGlyph, len: usize) -> Result<Enc, Fail> {
    let ends: Vec<u16> = sg.end_pts_of_contours().iter().map(|e| e.get()).collect();
    let mut acc = 0usize;
    let want_ends: Vec<u16> = pts
        .iter()
        .map(|c| {
            acc += c.len();
            (acc - 1) as u16
        })
        .collect();
    if sg.number_of_contours() as usize != pts.len() || ends != want_ends {
        return Err(fail("end-points", format!("glyph {i}: contour end points {:?}, expected {:?}", truncate_debug(&ends, 200), truncate_debug(&want_ends, 200))));
    }
    let want: Vec<Pt> = pts.iter().flatten().copied().collect();
    let got: Vec<Pt> = sg.points().map(|p| (p.x, p.y, p.on_curve)).collect();
    if got != want {
        let k = got.iter().zip(&want).position(|(a, b)| a != b);
        let show = k.map(|k| format!("got {:?} expected {:?} (previous point {:?})", got[k], want[k], if k > 0 { Some(want[k - 1]) } else { None }));
        return Err(fail("points", format!("glyph {i}: points() differ at {k:?}: {show:?}; {} points read, {} written", got.len(), want.len())));
    }
    // the buffer-filling reader used by the scaler
    let mut fp = vec![Point::<i32>::default(); want.len()];
    let mut ff = vec![PointFlags::default(); want.len()];
    sg.read_points_fast(&mut fp, &mut ff).map_err(|e| fail("points-fast", format!("glyph {i}: read_points_fast failed: {e}")))?;
    if let Some(k) = (0..want.len()).find(|&k| (fp[k].x, fp[k].y, ff[k].is_on_curve()) != (want[k].0 as i32, want[k].1 as i32, want[k].2) || ff[k].is_off_curve_cubic()) {
        return Err(fail("points-fast", format!("glyph {i}: read_points_fast differs at {k}: got ({}, {}, on={}) expected {:?}", fp[k].x, fp[k].y, ff[k].is_on_curve(), want[k])));
    }
    if sg.instructions() != instr {
        return Err(fail("instructions", format!("glyph {i}: {} instruction bytes read, {} written (or contents differ)", sg.instructions().len(), instr.len())));
    }
    let b = added.bbox;
    if (sg.x_min(), sg.y_min(), sg.x_max(), sg.y_max()) != (b.x_min, b.y_min, b.x_max, b.y_max) {
        return Err(fail("bbox", format!("glyph {i}: bbox read ({}, {}, {}, {}), glyph added had {b:?}", sg.x_min(), sg.y_min(), sg.x_max(), sg.y_max())));
    }
    let enc = canon_len(pts.len(), want.iter(), instr.len());
    if len > pad2(enc.unpadded) {
        return Err(fail("longer-than-canonical", format!("glyph {i}: encoded in {len} bytes, canonical shortest encoding is {} (+pad) bytes; {} points, longest flag run {}", enc.unpadded, want.len(), enc.max_run)));
    }
    Ok(enc)
}

fn check_composite(i: usize, cg: &rg::CompositeGlyph, specs: &[CompSpec], added: &CompositeGlyph) -> CaseResult {
    let b = added.bbox;
    if (cg.x_min(), cg.y_min(), cg.x_max(), cg.y_max()) != (b.x_min, b.y_min, b.x_max, b.y_max) {
        return Err(fail("bbox", format!("glyph {i}: composite bbox read ({}, {}, {}, {}), glyph added had {b:?}", cg.x_min(), cg.y_min(), cg.x_max(), cg.y_max())));
    }
    let comps: Vec<rg::Component> = cg.components().collect();
    if comps.len() != specs.len() {
        return Err(fail("component-count", format!("glyph {i}: {} components read, {} written", comps.len(), specs.len())));
    }
    if cg.component_glyphs_and_flags().count() != specs.len() {
        return Err(fail("component-count", format!("glyph {i}: component_glyphs_and_flags yields a different count than {}", specs.len())));
    }
    // encoding-choice bits are not compared; everything else must be exactly what was asked for
    let choice = CF::ARG_1_AND_2_ARE_WORDS | CF::WE_HAVE_A_SCALE | CF::WE_HAVE_AN_X_AND_Y_SCALE | CF::WE_HAVE_A_TWO_BY_TWO;
    for (k, (rc, sp)) in comps.iter().zip(specs).enumerate() {
        let (wc, _) = make_component(sp);
        if rc.glyph != wc.glyph {
            return Err(fail("component-glyph", format!("glyph {i} component {k}: id {:?}, expected {:?}", rc.glyph, wc.glyph)));
        }
        if rc.anchor != wc.anchor {
            return Err(fail("component-anchor", format!("glyph {i} component {k}: anchor {:?}, expected {:?}", rc.anchor, wc.anchor)));
        }
        if rc.transform != wc.transform {
            return Err(fail("component-transform", format!("glyph {i} component {k}: transform {:?}, expected {:?}", rc.transform, wc.transform)));
        }
        let mut want = CF::empty();
        for (on, bit) in sp.flags.iter().zip([CF::ROUND_XY_TO_GRID, CF::USE_MY_METRICS, CF::SCALED_COMPONENT_OFFSET, CF::UNSCALED_COMPONENT_OFFSET, CF::OVERLAP_COMPOUND]) {
            if *on {
                want |= bit;
            }
        }
        if !sp.point {
            want |= CF::ARGS_ARE_XY_VALUES;
        }
        if k + 1 != specs.len() {
            want |= CF::MORE_COMPONENTS;
        }
        if rc.flags.bits() & !choice.bits() != want.bits() {
            return Err(fail("component-flags", format!("glyph {i} component {k}: flags {:#06x}, expected {:#06x} (plus size/scale bits)", rc.flags.bits(), want.bits())));
        }
    }
    if cg.instructions().map(|x| !x.is_empty()).unwrap_or(false) {
        return Err(fail("composite-instructions", format!("glyph {i}: composite has instructions, none were added")));
    }
    Ok(())
}

fn test_tables(c: &Case, stats: &Stats) -> CaseResult {
    let mut wants: Vec<Want> = vec![];
    let mut glyphs: Vec<Glyph> = vec![];
    for g in &c.glyphs {
        match g {
            G::Empty => {
                wants.push(Want::Empty);
                glyphs.push(Glyph::Empty);
            }
            G::Simple { contours, instr, bbox } => {
                let pts = expand(contours);
                glyphs.push(Glyph::Simple(make_simple(&pts, instr, *bbox)));
                wants.push(Want::Simple { pts, instr: instr.clone() });
            }
            G::Comp { comps, via_add } => {
                glyphs.push(Glyph::Composite(make_composite(comps, *via_add)?));
                wants.push(Want::Comp(comps.clone()));
            }
        }
    }
    let mut cnt = Counters::default();
    if let Some(st) = &c.steer {
        let base: usize = glyphs.iter().map(expected_len).sum();
        let fill = fillers(base, st);
        if fill.is_empty() {
            cnt.add("t|steer:no-room");
        }
        let at = if st.front { 0 } else { glyphs.len() };
        for (j, f) in fill.into_iter().enumerate() {
            let pts = vec![vec![(0i16, 0i16, true)]];
            wants.insert(at + j, Want::Simple { pts, instr: f.instructions.clone() });
            glyphs.insert(at + j, Glyph::Simple(f));
        }
    }
    let built = build_tables(&glyphs, c.direct)?;
    let rl = RLoca::read(FontData::new(&built.loca), built.long).map_err(|e| fail("loca-read", format!("{e}")))?;
    let rglyf = rg::Glyf::read(FontData::new(&built.glyf)).map_err(|e| fail("glyf-read", format!("{e}")))?;
    let total = *built.offsets.last().unwrap();
    let near = (total as i64 - SHORT_LIMIT as i64).abs() <= 64;
    let (mut nt_glyph, mut max_run, mut shorter) = (false, 0usize, 0u64);
    for (i, (w, g)) in wants.iter().zip(&glyphs).enumerate() {
        let len = (built.offsets[i + 1] - built.offsets[i]) as usize;
        let got = rl.get_glyf(GlyphId::new(i as u32), &rglyf).map_err(|e| fail("get_glyf", format!("glyph {i} of {} ({} bytes at {}): {e}", wants.len(), len, built.offsets[i])))?;
        match (w, g, got) {
            (Want::Empty, _, None) => cnt.add("t|glyph:empty"),
            (Want::Simple { pts, instr }, Glyph::Simple(added), Some(rg::Glyph::Simple(sg))) => {
                let enc = check_simple(i, &sg, pts, instr, added, len)?;
                cnt.add("t|glyph:simple");
                if enc.unpadded % 2 == 1 {
                    cnt.add("t|simple:odd-length(padded)");
                } else {
                    cnt.add("t|simple:even-length");
                }
                if len < pad2(enc.unpadded) {
                    shorter += 1;
                }
                match enc.max_run {
                    0..=2 => {}
                    3..=255 => cnt.add("t|simple:flag-run 3..255"),
                    256 => cnt.add("t|simple:flag-run =256"),
                    _ => cnt.add("t|simple:flag-run >256"),
                }
                if enc.any_long {
                    cnt.add("t|simple:16-bit delta");
                }
                if pts.len() >= 2 {
                    cnt.add("t|simple:>=2 contours");
                }
                max_run = max_run.max(enc.max_run);
                nt_glyph |= enc.max_run >= 3 || enc.any_long || pts.len() >= 2;
            }
            (Want::Comp(specs), Glyph::Composite(added), Some(rg::Glyph::Composite(cg))) => {
                check_composite(i, &cg, specs, added)?;
                cnt.add("t|glyph:composite");
                if len != expected_len(g) {
                    cnt.add("t|composite:length differs from minimal");
                }
            }
            (w, _, got) => {
                let wk = match w {
                    Want::Empty => "empty",
                    Want::Simple { .. } => "simple",
                    Want::Comp(_) => "composite",
                };
                let gk = match got {
                    None => "empty",
                    Some(rg::Glyph::Simple(_)) => "simple",
                    Some(rg::Glyph::Composite(_)) => "composite",
                };
                return Err(fail("kind", format!("glyph {i}: added a {wk} glyph, read a {gk} glyph ({len} bytes)")));
            }
        }
    }
    cnt.add(if built.long { "t|loca=long" } else { "t|loca=short" });
    let could_be_short = built.offsets.iter().all(|o| o % 2 == 0 && *o <= SHORT_LIMIT);
    if built.long && could_be_short {
        cnt.add("t|loca=long although short was possible");
    }
    if near {
        cnt.add(if built.long { "t|boundary±64:long" } else { "t|boundary±64:short" });
    }
    if total == SHORT_LIMIT {
        cnt.add("t|total=0x1FFFE");
    }
    if total == SHORT_LIMIT + 2 {
        cnt.add("t|total=0x20000");
    }
    if shorter > 0 {
        cnt.0.insert("t|simple:shorter than the oracle's canonical length", shorter);
    }
    cnt.add(match wants.len() {
        0..=1 => "t|glyphs=1",
        2..=11 => "t|glyphs=2..11",
        12..=59 => "t|glyphs=12..59",
        _ => "t|glyphs>=60",
    });
    cnt.flush(stats);
    if nt_glyph {
        stats.nontrivial(hash_json(c));
        if stats.want_sample() {
            stats.sample(json!({"stage": "tables", "glyphs": wants.len(), "glyf_bytes": total, "loca_long": built.long, "longest_flag_run": max_run,
                "first_glyphs": truncate_debug(&c.glyphs.iter().take(2).collect::<Vec<_>>(), 400)}));
        }
    }
    if near {
        stats.nontrivial(mix(hash_json(c), 0xB0DA));
    }
    Ok(())
}

// ---------------------------------------------------------------------------------------------------------------
// stage `draw`
// ---------------------------------------------------------------------------------------------------------------

/// path element with coordinates doubled (implied midpoints are half-integers)
#[derive(Clone, Copy, Debug, PartialEq)]
enum E {
    M(i64, i64),
    L(i64, i64),
    Q(i64, i64, i64, i64),
    Z,
}

#[derive(Clone, Copy, Debug, PartialEq)]
enum S {
    L([i64; 4]),
    Q([i64; 6]),
}

/// closed contours as lists of non-degenerate segments; a subpath is closed with a line whether or not it ends in Z
/// (glyf contours are always closed), segments whose points all coincide carry no geometry and are dropped, and so
/// are contours without any other segment.
fn contours_of(els: &[E]) -> Result<Vec<Vec<S>>, String> {
    fn flush(cur: &mut Option<((i64, i64), (i64, i64), Vec<S>)>, out: &mut Vec<Vec<S>>) {
        if let Some((start, at, mut segs)) = cur.take() {
            if at != start {
                segs.push(S::L([at.0, at.1, start.0, start.1]));
            }
            if !segs.is_empty() {
                out.push(segs);
            }
        }
    }
    let mut out = vec![];
    let mut cur: Option<((i64, i64), (i64, i64), Vec<S>)> = None;
    for e in els {
        match *e {
            E::M(x, y) => {
                flush(&mut cur, &mut out);
                cur = Some(((x, y), (x, y), vec![]));
            }
            E::L(x, y) => {
                let c = cur.as_mut().ok_or("line before move")?;
                if c.1 != (x, y) {
                    c.2.push(S::L([c.1 .0, c.1 .1, x, y]));
                }
                c.1 = (x, y);
            }
            E::Q(cx, cy, x, y) => {
                let c = cur.as_mut().ok_or("quad before move")?;
                if !(c.1 == (cx, cy) && (cx, cy) == (x, y)) {
                    c.2.push(S::Q([c.1 .0, c.1 .1, cx, cy, x, y]));
                }
                c.1 = (x, y);
            }
            E::Z => {
                let c = cur.as_mut().ok_or("close before move")?;
                if c.1 != c.0 {
                    let s = S::L([c.1 .0, c.1 .1, c.0 .0, c.0 .1]);
                    c.2.push(s);
                    c.1 = c.0;
                }
            }
        }
    }
    flush(&mut cur, &mut out);
    Ok(out)
}

fn cyclic_eq(a: &[S], b: &[S]) -> bool {
    let n = a.len();
    n == b.len() && (n == 0 || (0..n).any(|r| a[r] == b[0] && (0..n).all(|i| a[(i + r) % n] == b[i])))
}

fn same_geometry(want: &[Vec<S>], got: &[Vec<S>]) -> Result<(), String> {
    if want.len() != got.len() {
        return Err(format!("{} contours drawn, {} expected", got.len(), want.len()));
    }
    for (k, (w, g)) in want.iter().zip(got).enumerate() {
        if !cyclic_eq(w, g) {
            return Err(format!("contour {k} differs (coordinates doubled): drawn {}, expected {}", truncate_debug(g, 500), truncate_debug(w, 500)));
        }
    }
    Ok(())
}

fn window(v: i32) -> i32 {
    v.clamp(-16000, 16000)
}

/// the input path of a `DG::Path` glyph (integer coordinates within +-16000: any two points are a representable delta apart)
fn build_path(subs: &[Sub]) -> BezPath {
    let kp = |p: (i32, i32)| kurbo::Point::new(p.0 as f64, p.1 as f64);
    let add = |p: (i32, i32), dx: i16, dy: i16| (window(p.0 + dx as i32), window(p.1 + dy as i32));
    let mut path = BezPath::new();
    for s in subs {
        match s {
            Sub::AllOff { px, py, ctrls } => {
                let c: Vec<(i32, i32)> = ctrls.iter().map(|t| (2 * t.0 as i32 + *px as i32, 2 * t.1 as i32 + *py as i32)).collect();
                let mid = |a: (i32, i32), b: (i32, i32)| ((a.0 + b.0) / 2, (a.1 + b.1) / 2); // sums are even
                let n = c.len();
                path.move_to(kp(mid(c[n - 1], c[0])));
                for i in 0..n {
                    path.quad_to(kp(c[i]), kp(mid(c[i], c[(i + 1) % n])));
                }
                path.close_path();
            }
            Sub::Els { x, y, els, close } => {
                let start = (window(*x as i32), window(*y as i32));
                let mut cur = start;
                let mut last_ctrl: Option<(i32, i32)> = None;
                let mut first_ctrl: Option<(i32, i32)> = None;
                path.move_to(kp(start));
                for (i, e) in els.iter().enumerate() {
                    let (ctrl, mut end) = match *e {
                        El::Line(dx, dy) => (None, add(cur, dx, dy)),
                        El::Quad(a, b, c, d) => {
                            let ct = add(cur, a, b);
                            (Some(ct), add(ct, c, d))
                        }
                        El::Smooth(c, d) | El::NearSmooth(c, d) => {
                            let near = matches!(e, El::NearSmooth(..)) as i32;
                            let ct = match last_ctrl {
                                Some(lc) => (window(2 * cur.0 - lc.0 + near), window(2 * cur.1 - lc.1)),
                                None => add(cur, d, c),
                            };
                            (Some(ct), add(ct, c, d))
                        }
                    };
                    if i + 1 == els.len() && (*close == 3 || *close == 4) {
                        end = start;
                    }
                    match ctrl {
                        None => path.line_to(kp(end)),
                        Some(ct) => path.quad_to(kp(ct), kp(end)),
                    }
                    if i == 0 {
                        first_ctrl = ctrl;
                    }
                    last_ctrl = ctrl;
                    cur = end;
                }
                match *close {
                    1 | 3 => path.close_path(),
                    2 => {
                        path.line_to(kp(start));
                        path.close_path();
                    }
                    5 => {
                        if let Some(fc) = first_ctrl {
                            path.quad_to(kp((window(2 * start.0 - fc.0), window(2 * start.1 - fc.1))), kp(start));
                        }
                        path.close_path();
                    }
                    _ => {}
                }
            }
        }
    }
    path
}

fn elements_of_bezpath(p: &BezPath) -> Result<Vec<E>, String> {
    let d = |v: f64| (v * 2.0) as i64;
    p.elements()
        .iter()
        .map(|e| match e {
            PathEl::MoveTo(p) => Ok(E::M(d(p.x), d(p.y))),
            PathEl::LineTo(p) => Ok(E::L(d(p.x), d(p.y))),
            PathEl::QuadTo(c, p) => Ok(E::Q(d(c.x), d(c.y), d(p.x), d(p.y))),
            PathEl::ClosePath => Ok(E::Z),
            PathEl::CurveTo(..) => Err("cubic in input".to_string()),
        })
        .collect()
}

fn elements_of_pen(p: &[PathElement]) -> Result<Vec<E>, String> {
    let d = |v: f32| -> Result<i64, String> {
        let t = v as f64 * 2.0;
        if t.fract() != 0.0 || !t.is_finite() {
            return Err(format!("drawn coordinate {v} is not a multiple of 1/2"));
        }
        Ok(t as i64)
    };
    p.iter()
        .map(|e| match *e {
            PathElement::MoveTo { x, y } => Ok(E::M(d(x)?, d(y)?)),
            PathElement::LineTo { x, y } => Ok(E::L(d(x)?, d(y)?)),
            PathElement::QuadTo { cx0, cy0, x, y } => Ok(E::Q(d(cx0)?, d(cy0)?, d(x)?, d(y)?)),
            PathElement::Close => Ok(E::Z),
            PathElement::CurveTo { .. } => Err("cubic segment drawn for a glyf outline".to_string()),
        })
        .collect()
}

/// Reference TrueType contour -> path conversion (spec: consecutive off-curve points imply their midpoint;
/// contours are closed), written from the format description, start at the first on-curve (or implied) point.
fn reference_elements(contours: &[Vec<Pt>]) -> Vec<E> {
    let mut out = vec![];
    for c in contours {
        let n = c.len();
        let mut ex: Vec<(i64, i64, bool)> = vec![];
        for i in 0..n {
            let (p, q) = (c[i], c[(i + 1) % n]);
            ex.push((2 * p.0 as i64, 2 * p.1 as i64, p.2));
            if !p.2 && !q.2 {
                ex.push((p.0 as i64 + q.0 as i64, p.1 as i64 + q.1 as i64, true));
            }
        }
        let Some(s) = ex.iter().position(|p| p.2) else { continue };
        ex.rotate_left(s);
        out.push(E::M(ex[0].0, ex[0].1));
        let m = ex.len();
        let mut i = 1;
        while i <= m {
            let p = ex[i % m];
            if p.2 {
                out.push(E::L(p.0, p.1));
                i += 1;
            } else {
                let q = ex[(i + 1) % m]; // on-curve by construction
                out.push(E::Q(p.0, p.1, q.0, q.1));
                i += 2;
            }
        }
        out.push(E::Z);
    }
    out
}

fn test_draw(c: &DCase, stats: &Stats) -> CaseResult {
    let mut cnt = Counters::default();
    let mut glyphs: Vec<Glyph> = vec![];
    let mut expect: Vec<Vec<Vec<S>>> = vec![];
    let mut nt = false;
    for (i, g) in c.glyphs.iter().enumerate() {
        match g {
            DG::Empty => {
                glyphs.push(Glyph::Empty);
                expect.push(vec![]);
                cnt.add("d|glyph:empty");
            }
            DG::Path(subs) => {
                let path = build_path(subs);
                let sg = SimpleGlyph::from_bezpath(&path).map_err(|e| fail("from_bezpath", format!("glyph {i}: line/quad path rejected: {e:?}; path {}", path.to_svg())))?;
                let els = elements_of_bezpath(&path).map_err(|e| fail("harness", e))?;
                let want = contours_of(&els).map_err(|e| fail("harness", e))?;
                // distribution: what from_bezpath made of it
                let naive: usize = path.elements().iter().map(|e| match e { PathEl::MoveTo(_) | PathEl::LineTo(_) => 1, PathEl::QuadTo(..) => 2, _ => 0 }).sum();
                let have: usize = sg.contours.iter().map(|c| c.len()).sum();
                cnt.add("d|glyph:path");
                if sg.contours.iter().any(|c| c.len() >= 2 && c.iter().all(|p| !p.on_curve)) {
                    cnt.add("d|path:contour with only off-curve points");
                    nt = true;
                }
                if sg.contours.iter().any(|c| c.iter().next().map(|p| !p.on_curve).unwrap_or(false)) {
                    cnt.add("d|path:contour starts off-curve");
                    nt = true;
                }
                // closed subpaths whose last point repeats the first lose that point (not an elision)
                let mut merged = 0usize;
                let mut sub: Option<(kurbo::Point, kurbo::Point, usize)> = None;
                for e in path.elements() {
                    match e {
                        PathEl::MoveTo(p) => sub = Some((*p, *p, 1)),
                        PathEl::LineTo(p) => sub = sub.map(|s| (s.0, *p, s.2 + 1)),
                        PathEl::QuadTo(_, p) => sub = sub.map(|s| (s.0, *p, s.2 + 2)),
                        PathEl::ClosePath => {
                            if let Some(s) = sub {
                                if s.2 > 1 && s.0 == s.1 {
                                    merged += 1;
                                }
                            }
                        }
                        _ => {}
                    }
                }
                if have + merged < naive {
                    cnt.add("d|path:implied on-curve point dropped");
                    nt = true;
                }
                if subs.iter().any(|s| matches!(s, Sub::Els { close: 0 | 4, .. })) {
                    cnt.add("d|path:open subpath");
                }
                if subs.iter().any(|s| matches!(s, Sub::Els { els, .. } if els.iter().any(|e| matches!(e, El::NearSmooth(..))))) {
                    cnt.add("d|path:on-curve one unit off the midpoint");
                }
                if want.len() >= 2 {
                    cnt.add("d|path:>=2 contours");
                    nt = true;
                }
                if want.iter().flatten().any(|s| matches!(s, S::Q(_))) {
                    nt = true;
                }
                glyphs.push(Glyph::Simple(sg));
                expect.push(want);
            }
            DG::Points(contours) => {
                let pts = expand(contours);
                let want = contours_of(&reference_elements(&pts)).map_err(|e| fail("harness", e))?;
                cnt.add("d|glyph:points");
                if pts.iter().any(|c| !c[0].2) {
                    cnt.add("d|points:contour starts off-curve");
                    nt = true;
                }
                if pts.iter().any(|c| c.len() >= 2 && c.iter().all(|p| !p.2)) {
                    cnt.add("d|points:contour with only off-curve points");
                }
                if pts.iter().any(|c| c.windows(2).any(|w| !w[0].2 && !w[1].2)) {
                    cnt.add("d|points:consecutive off-curve points");
                    nt = true;
                }
                glyphs.push(Glyph::Simple(make_simple(&pts, &[], None)));
                expect.push(want);
            }
        }
    }
    if let Some(st) = &c.steer {
        let base: usize = glyphs.iter().map(expected_len).sum();
        let fill = fillers(base, st);
        let at = if st.front { 0 } else { glyphs.len() };
        for (j, f) in fill.into_iter().enumerate() {
            glyphs.insert(at + j, Glyph::Simple(f));
            expect.insert(at + j, vec![]);
        }
    }
    let built = build_tables(&glyphs, false)?;
    let n = glyphs.len();
    let kit = fontkit::Kit {
        num_glyphs: n as u16,
        upem: 1000,
        glyf: Some((built.glyf.clone(), built.offsets.clone())),
        loca_raw: Some((built.loca.clone(), built.long)),
        // lsb = xMin for every glyph: the scaler shifts outlines by (xMin - lsb)
        h_metrics: glyphs.iter().map(|g| (500u16, g.bbox().map(|b| b.x_min).unwrap_or(0))).collect(),
        ..Default::default()
    };
    let bytes = kit.build();
    let font = skrifa::FontRef::new(&bytes).map_err(|e| fail("harness", format!("kit font does not open: {e}")))?;
    let outlines = font.outline_glyphs();
    for (i, want) in expect.iter().enumerate() {
        let og = outlines.get(GlyphId::new(i as u32)).ok_or_else(|| fail("no-outline", format!("outline_glyphs().get({i}) is None for a font with {n} glyphs")))?;
        for (style, name) in [(PathStyle::FreeType, "FreeType"), (PathStyle::HarfBuzz, "HarfBuzz")] {
            let mut pen: Vec<PathElement> = vec![];
            let settings = DrawSettings::unhinted(Size::unscaled(), LocationRef::default()).with_path_style(style);
            og.draw(settings, &mut pen).map_err(|e| fail("draw-error", format!("glyph {i} ({name} style): {e}")))?;
            let els = elements_of_pen(&pen).map_err(|e| fail("draw-coords", format!("glyph {i} ({name} style): {e}")))?;
            let got = contours_of(&els).map_err(|e| fail("draw-structure", format!("glyph {i} ({name} style): {e}")))?;
            same_geometry(want, &got).map_err(|e| {
                let src = match &glyphs[i] {
                    Glyph::Simple(s) => truncate_debug(&s.contours, 600),
                    _ => String::new(),
                };
                fail("draw-geometry", format!("glyph {i} ({name} style, loca {}): {e}; glyph points {src}", if built.long { "long" } else { "short" }))
            })?;
            stats.evals(1);
        }
    }
    cnt.add(if built.long { "d|loca=long" } else { "d|loca=short" });
    cnt.flush(stats);
    if nt {
        stats.nontrivial(hash_json(c));
        if stats.want_sample() {
            let first = c.glyphs.iter().find_map(|g| if let DG::Path(s) = g { Some(build_path(s).to_svg()) } else { None });
            stats.sample(json!({"stage": "draw", "glyphs": n, "loca_long": built.long, "first_path": first.map(|s| s.chars().take(300).collect::<String>())}));
        }
    }
    Ok(())
}

// ---------------------------------------------------------------------------------------------------------------
// stage `loca`
// ---------------------------------------------------------------------------------------------------------------

fn test_loca(c: &LCase, stats: &Stats) -> CaseResult {
    let mut offsets: Vec<u32> = vec![];
    let mut at = 0u32;
    for i in &c.incs {
        at = at.saturating_add(if c.even { i.saturating_mul(2) } else { *i });
        offsets.push(at);
    }
    if let Some(e) = c.end {
        let n = offsets.len();
        if n < 2 || offsets[n - 2] <= e {
            offsets[n - 1] = e;
        }
    }
    let loca = Loca::new(offsets.clone());
    let fmt = loca.format();
    let bytes = dump_table(&loca).map_err(|e| fail("dump", format!("loca: {e}")))?;
    let long = fmt == LocaFormat::Long;
    let rl = RLoca::read(FontData::new(&bytes), long).map_err(|e| fail("loca-read", format!("{e}")))?;
    let got: Vec<u32> = (0..offsets.len()).filter_map(|i| rl.get_raw(i)).collect();
    if got != offsets || rl.len() + 1 != offsets.len() {
        let k = got.iter().zip(&offsets).position(|(a, b)| a != b);
        return Err(fail("loca-offsets", format!("Loca::new chose {fmt:?}; offsets read back differ at {k:?}: read {:?}, given {:?}", k.map(|k| got[k]), k.map(|k| offsets[k]))));
    }
    let odd = offsets.iter().any(|o| o % 2 == 1);
    let big = offsets.iter().any(|o| *o > SHORT_LIMIT);
    stats.class(match (long, odd, big) {
        (false, _, _) => "l|short",
        (true, false, false) => "l|long although short was possible",
        (true, true, false) => "l|long: odd offset",
        (true, false, true) => "l|long: offset > 0x1FFFE",
        (true, true, true) => "l|long: odd and > 0x1FFFE",
    });
    let last = *offsets.last().unwrap();
    if (last as i64 - SHORT_LIMIT as i64).abs() <= 4 {
        stats.class("l|last offset within 4 of 0x1FFFE");
    }
    if offsets.len() >= 2 && (odd || (last as i64 - SHORT_LIMIT as i64).abs() <= 64) {
        stats.nontrivial(hash_json(&offsets));
        if stats.want_sample() {
            stats.sample(json!({"stage": "loca", "offsets": truncate_debug(&offsets, 200), "format": format!("{fmt:?}")}));
        }
    }
    Ok(())
}

fn main() {
    let ctx = Ctx::from_args("C09");
    ctx.set_rule(
        "tables: proptest glyph lists (1..400 of empty / simple / composite). Simple glyphs are built from delta runs (deltas biased to 0, +-1, +-255/256/257, \
         large, full i16; runs of 1..600 points with equal flags, constant / varying-within-class / zig-zag), coordinates clamped into i16 so that every successive \
         delta is representable; 1..20 contours; 0..300 instruction bytes; recomputed or arbitrary bbox. Composites: 1..8 components, byte/word offset and point \
         anchors at the size boundaries, identity / scale / xy-scale / 2x2, all five user flags, via try_from_iter or new+add_component. Half of the lists get filler \
         glyphs (derived, not stored) that put the glyf length at 0x1FFFE + 2k, k in -32..32 biased to -2..2. draw: 1..40 glyphs from line/quad BezPaths (integer \
         coordinates within +-16000, open / Z / explicit closing line / last point on start / smooth joins whose on-curve point is the exact midpoint / joins one \
         unit off / all-off-curve contours) via SimpleGlyph::from_bezpath, or from point lists (any on/off pattern); drawn unscaled in FreeType and HarfBuzz path style. \
         loca: ascending offset lists given to Loca::new, odd offsets and ends around 0x1FFFE included. \
         Non-trivial (tables): the list holds a simple glyph with a flag run >= 3, a 16-bit delta or >= 2 contours (distinct by case hash); a total length within \
         64 bytes of 0x1FFFE counts separately. Non-trivial (draw): a glyph with a quad, >= 2 contours, a dropped implied point or an off-curve start. \
         Non-trivial (loca): >= 2 offsets with an odd one or the last within 64 of 0x1FFFE.",
    );
    ctx.assume("the oracle computes the canonical shortest simple-glyph length itself (per-coordinate minimal form, optimal run-length of equal flags, pad to 2); read-fonts is the decoder under test, not trusted; the font around glyf/loca is hand-assembled by vcore::fontkit");
    ctx.assume("geometric equality = equal lists of closed contours, each a cyclic sequence of line/quad segments (start point free), subpaths closed by a line, zero-extent segments and contours without extent ignored; the loca format itself is free ('whichever format is chosen'): only decoding is demanded");
    ctx.prop_stage("tables", Isolation::Threads, ctx.n(100_000, 600_000), strategy, test_tables);
    ctx.prop_stage("draw", Isolation::Threads, ctx.n(100_000, 600_000), draw_strategy, test_draw);
    ctx.prop_stage("loca", Isolation::Threads, ctx.n(200_000, 1_000_000), loca_strategy, test_loca);
    ctx.finish();
}
