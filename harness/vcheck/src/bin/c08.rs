//! C08 — character maps built from a mapping answer exactly that mapping.
//!
//! Stages
//! * `maps` / `big-maps`: run-structured (char -> glyph) mappings -> `Cmap::from_mappings` -> `dump_table` -> bytes, then the
//!   compiled bytes are interrogated through read-fonts (`Cmap`, every subtable, `Cmap4::iter`, `Cmap12::iter`) and through
//!   skrifa (`Charmap::map`, `Charmap::mappings`, `MappingIndex`) for every BMP code point and a boundary set above.
//! * `uvs`: `Cmap14` values built from the write-fonts types (default ranges, non-default mappings, shared tables),
//!   `map_variant` / `iter` at the table level and through `Charmap`.
//! * `cmap4-size-limit`: six fixed mappings around the 65 535-byte limit of a format-4 subtable (two must pass, four reproduce
//!   the known finding "format 4 cannot represent this mapping and the builder panics instead of returning an error").
use proptest::prelude::*;
use read_fonts::tables::cmap as rc;
use read_fonts::{FontData, FontRead, FontRef};
use serde::{Deserialize, Serialize};
use skrifa::charmap::{Charmap, MapVariant, MappingIndex};
use std::collections::{BTreeMap, BTreeSet};
use std::sync::atomic::{AtomicU32, Ordering};
use vcore::fontkit::Kit;
use vcore::*;
use write_fonts::dump_table;
use write_fonts::tables::cmap as wc;
use write_fonts::types::{GlyphId, Uint24};

// ------------------------------------------------------------------------------------------------
// case types (= replay format)

#[derive(Clone, Debug, Serialize, Deserialize)]
struct Run {
    /// requested first code point (runs are sorted by it; a run that would overlap its predecessor is moved behind it)
    start: u32,
    len: u32,
    /// glyph pattern: 0 consecutive, 1 constant, 2 random, 3 descending, 4 consecutive with code-point holes,
    /// 5 consecutive blocks with glyph breaks, 6 alternating consecutive/random blocks, 7 swapped pairs
    pat: u8,
    /// how the first glyph id is derived: 0 raw, 1 cp+32768+-2, 2 cp-32768+-2, 3 cp+-2, 4 top of the glyph range, 5 bottom
    gmode: u8,
    g0: u32,
    /// distance to the previous run when the requested start collides with it (0 = adjacent)
    gap: u8,
    /// block / hole parameter for patterns 4..6
    k: u32,
}

#[derive(Clone, Debug, Serialize, Deserialize)]
struct Case {
    /// index into GLYPH_COUNTS
    gc: u8,
    runs: Vec<Run>,
    /// order in which the pairs are handed to from_mappings: 0 ascending, 1 descending, else a seeded shuffle
    order: u64,
    /// 3 => some pairs are handed over twice (identical duplicates are not conflicts)
    dup: u8,
    /// fixed size-limit cases only: do not apply the format-4 size cap
    #[serde(default)]
    nocap: bool,
    /// 0 runs anywhere, 1 every run folded into the BMP, 2 every run moved above the BMP
    #[serde(default)]
    plane: u8,
}

const GLYPH_COUNTS: [u32; 5] = [2, 256, 65_535, 65_535, 65_535];

fn fail(sig: &str, msg: String) -> Fail {
    Fail::new(format!("c08|{sig}"), msg)
}

fn h32(a: u32, b: u32) -> u32 {
    let x = mix(a as u64, b as u64);
    (x ^ (x >> 32)) as u32
}

/// glyph id normalised into 1..glyph_count (non-zero and below the glyph count), keeping consecutive values consecutive
fn norm_gid(g: i64, gc: u32) -> u32 {
    let m = (gc as i64) - 1; // >= 1
    (1 + (g - 1).rem_euclid(m)) as u32
}

fn is_excluded_cp(cp: u32) -> bool {
    cp == 0xFFFF || (0xD800..0xE000).contains(&cp) || cp > 0x10FFFF
}

/// Upper bound of the byte size of the format-4 subtable for the BMP part of a mapping: the builder first splits each
/// contiguous code-point range into maximal chains of consecutive glyph ids (8 bytes each) and the stretches between them
/// (8 + 2*len bytes, 8 for a single code point) and afterwards merges only when that saves bytes.
fn format4_size_bound(model: &BTreeMap<u32, u32>) -> u64 {
    let bmp: Vec<(u32, u32)> = model.range(..0x10000).map(|(c, g)| (*c, *g)).collect();
    let mut total: u64 = 16 + 8; // header + sentinel segment
    let n = bmp.len();
    let flush = |loose: &mut u64, total: &mut u64| {
        if *loose == 1 {
            *total += 8;
        } else if *loose > 1 {
            *total += 8 + 2 * *loose;
        }
        *loose = 0;
    };
    let mut i = 0;
    while i < n {
        // contiguous code-point range i..=e
        let mut e = i;
        while e + 1 < n && bmp[e + 1].0 == bmp[e].0 + 1 {
            e += 1;
        }
        let mut p = i;
        let mut loose: u64 = 0; // length of the current stretch without consecutive glyph ids
        while p <= e {
            let mut j = p;
            while j < e && bmp[j + 1].1 == bmp[j].1 + 1 {
                j += 1;
            }
            if j > p {
                flush(&mut loose, &mut total);
                total += 8;
                p = j + 1;
            } else {
                loose += 1;
                p += 1;
            }
        }
        flush(&mut loose, &mut total);
        i = e + 1;
    }
    total
}

struct Built {
    model: BTreeMap<u32, u32>,
    runs_used: u32,
    dropped: u32,
}

fn build_model(c: &Case) -> Built {
    let gc = GLYPH_COUNTS[(c.gc as usize) % GLYPH_COUNTS.len()];
    let mut runs: Vec<&Run> = c.runs.iter().collect();
    let mut model: BTreeMap<u32, u32> = BTreeMap::new();
    let mut next_free: u32 = 0;
    let mut runs_used = 0;
    let mut dropped = 0;
    let fold = |st: u32| match c.plane {
        1 => st & 0xFFFF,
        2 if st < 0x10000 => st + 0x10000,
        _ => st,
    };
    runs.sort_by_key(|r| fold(r.start));
    let limit: u32 = if c.plane == 1 { 0x10000 } else { 0x110000 };
    for r in runs {
        let start = fold(r.start);
        let s = if start >= next_free { start } else { next_free.saturating_add(r.gap as u32) };
        if s >= limit {
            continue;
        }
        let len = r.len.min(limit - s);
        let kk = 2 + (r.k % 6); // 2..=7
        let g0: i64 = match r.gmode % 6 {
            0 => r.g0 as i64,
            1 => s as i64 + 32768 + (r.g0 % 5) as i64 - 2,
            2 => s as i64 - 32768 + (r.g0 % 5) as i64 - 2,
            3 => s as i64 + (r.g0 % 5) as i64 - 2,
            4 => gc as i64 - 1 - (r.g0 % 4) as i64,
            _ => 1 + (r.g0 % 4) as i64,
        };
        let mut added: Vec<u32> = vec![];
        for i in 0..len {
            let cp = s + i;
            if is_excluded_cp(cp) {
                continue;
            }
            let ii = i as i64;
            let g: i64 = match r.pat % 8 {
                0 => g0 + ii,
                1 => g0,
                2 => h32(r.g0, i) as i64,
                3 => g0 - ii,
                4 => {
                    if i % kk == kk - 1 {
                        continue;
                    }
                    g0 + ii
                }
                5 => g0 + ii + (i / kk) as i64,
                6 => {
                    if (i / kk) % 2 == 0 {
                        g0 + ii
                    } else {
                        h32(r.g0, i) as i64
                    }
                }
                _ => g0 + (i ^ 1) as i64,
            };
            model.insert(cp, norm_gid(g, gc));
            added.push(cp);
        }
        next_free = s.saturating_add(len);
        if added.is_empty() {
            continue;
        }
        // known finding "format 4 larger than 65 535 bytes panics": excluded by construction, counted
        if !c.nocap && model.range(..0x10000).count() > 3000 && added[0] < 0x10000 && format4_size_bound(&model) > 65_535 {
            for cp in &added {
                model.remove(cp);
            }
            dropped += 1;
            continue;
        }
        runs_used += 1;
    }
    Built { model, runs_used, dropped }
}

fn input_pairs(c: &Case, model: &BTreeMap<u32, u32>) -> Vec<(char, GlyphId)> {
    let mut v: Vec<(char, GlyphId)> = model.iter().map(|(c, g)| (char::from_u32(*c).expect("generator yields scalar values"), GlyphId::new(*g))).collect();
    match c.order {
        0 => {}
        1 => v.reverse(),
        seed => {
            let mut p = seed;
            for i in (1..v.len()).rev() {
                p = p.wrapping_mul(6364136223846793005).wrapping_add(1442695040888963407);
                v.swap(i, ((p >> 33) as usize) % (i + 1));
            }
        }
    }
    if c.dup % 4 == 3 {
        let extra: Vec<(char, GlyphId)> = v.iter().step_by(7).take(50).cloned().collect();
        v.extend(extra);
    }
    v
}

// ------------------------------------------------------------------------------------------------
// oracle over compiled cmap bytes

fn g_nonzero(g: Option<read_fonts::types::GlyphId>) -> Option<u32> {
    g.map(|g| g.to_u32()).filter(|g| *g != 0)
}

fn first_diff(got: &[(u32, u32)], want: &[(u32, u32)]) -> String {
    let n = got.len().min(want.len());
    for i in 0..n {
        if got[i] != want[i] {
            return format!("first difference at index {i}: got (U+{:04X}, {}), want (U+{:04X}, {}); lengths {} vs {}", got[i].0, got[i].1, want[i].0, want[i].1, got.len(), want.len());
        }
    }
    let next = if got.len() > n { format!("extra (U+{:04X}, {})", got[n].0, got[n].1) } else if want.len() > n { format!("missing (U+{:04X}, {})", want[n].0, want[n].1) } else { "equal".into() };
    format!("lengths {} vs {}: {next}", got.len(), want.len())
}

struct TableFacts {
    seg_count: usize,
    range_offset_segs: usize,
    wrap_pos: usize,
    wrap_neg: usize,
    groups12: usize,
    fmt4_len: usize,
}

/// Everything the property demands of the code-point part of a compiled cmap.
fn check_codepoint_maps(bytes: &[u8], model: &BTreeMap<u32, u32>, gc: u32, stats: &Stats) -> Result<TableFacts, Fail> {
    let mut facts = TableFacts { seg_count: 0, range_offset_segs: 0, wrap_pos: 0, wrap_neg: 0, groups12: 0, fmt4_len: 0 };
    let rcmap = rc::Cmap::read(FontData::new(bytes)).map_err(|e| fail("read", format!("compiled cmap does not parse: {e}")))?;
    let want_all: Vec<(u32, u32)> = model.iter().map(|(c, g)| (*c, *g)).collect();
    let want_bmp: Vec<(u32, u32)> = model.range(..0x10000).map(|(c, g)| (*c, *g)).collect();

    // probes above the BMP: every mapped supplementary code point and its neighbours, plane/range limits
    let mut high: BTreeSet<u32> = BTreeSet::new();
    for c in model.range(0x10000..).map(|(c, _)| *c) {
        high.insert(c.saturating_sub(1).max(0x10000));
        high.insert(c);
        high.insert(c.saturating_add(1));
    }
    for c in [0x10000u32, 0x10001, 0x1FFFF, 0x20000, 0x10FFFE, 0x10FFFF, 0x110000, 0x110001, 0x7FFF_FFFF, 0x8000_0000, u32::MAX - 1, u32::MAX] {
        high.insert(c);
    }
    let lookup = |cp: u32| model.get(&cp).copied();

    // (1) table level: Cmap::map_codepoint; Some(0) counts as unmapped here (the format-4 sentinel answers U+FFFF with 0)
    for cp in (0..=0xFFFFu32).chain(high.iter().copied()) {
        let got = g_nonzero(rcmap.map_codepoint(cp));
        if got != lookup(cp) {
            return Err(fail("table-lookup", format!("Cmap::map_codepoint(U+{cp:04X}) = {got:?}, model {:?}", lookup(cp))));
        }
    }
    stats.class_n("lookups (code point, per API level)", 65_536 + high.len() as u64);

    // (2) every subtable
    let mut seen_offsets: BTreeSet<u32> = BTreeSet::new();
    for rec in rcmap.encoding_records() {
        let sub = rec.subtable(rcmap.offset_data()).map_err(|e| fail("subtable-read", format!("subtable of record ({:?},{}) does not parse: {e}", rec.platform_id(), rec.encoding_id())))?;
        let fresh = seen_offsets.insert(rec.subtable_offset().to_u32());
        match sub {
            rc::CmapSubtable::Format4(c4) => {
                if !fresh {
                    continue;
                }
                for cp in (0..=0xFFFFu32).chain(high.iter().copied()) {
                    let got = g_nonzero(c4.map_codepoint(cp));
                    let want = if cp <= 0xFFFF { lookup(cp) } else { None };
                    if got != want {
                        return Err(fail("cmap4-lookup", format!("Cmap4::map_codepoint(U+{cp:04X}) = {got:?}, model {want:?}")));
                    }
                }
                let listed: Vec<(u32, u32)> = c4.iter().take(70_000).map(|(c, g)| (c, g.to_u32())).filter(|(_, g)| *g != 0).collect();
                if listed != want_bmp {
                    return Err(fail("cmap4-iter", format!("Cmap4::iter (glyph 0 entries removed) differs from the BMP pairs of the model: {}", first_diff(&listed, &want_bmp))));
                }
                // facts for the evidence (how the builder encoded it)
                let starts = c4.start_code();
                let ros = c4.id_range_offsets();
                facts.seg_count = starts.len();
                facts.fmt4_len = c4.length() as usize;
                for (i, st) in starts.iter().enumerate() {
                    let st = st.get() as u32;
                    let ro = ros.get(i).map(|x| x.get()).unwrap_or(0);
                    if ro != 0 {
                        facts.range_offset_segs += 1;
                    } else if let Some(g) = model.get(&st) {
                        let d = *g as i64 - st as i64;
                        if d > 32767 {
                            facts.wrap_pos += 1;
                        } else if d < -32768 {
                            facts.wrap_neg += 1;
                        }
                    }
                }
            }
            rc::CmapSubtable::Format12(c12) => {
                if !fresh {
                    continue;
                }
                facts.groups12 = c12.groups().len();
                for cp in (0..=0xFFFFu32).chain(high.iter().copied()) {
                    let got = g_nonzero(c12.map_codepoint(cp));
                    if got != lookup(cp) {
                        return Err(fail("cmap12-lookup", format!("Cmap12::map_codepoint(U+{cp:04X}) = {got:?}, model {:?}", lookup(cp))));
                    }
                }
                let listed: Vec<(u32, u32)> = c12.iter().take(want_all.len() + 16).map(|(c, g)| (c, g.to_u32())).collect();
                if listed != want_all {
                    return Err(fail("cmap12-iter", format!("Cmap12::iter differs from the model: {}", first_diff(&listed, &want_all))));
                }
                let lim = rc::Cmap12IterLimits { max_char: char::MAX as u32, glyph_count: gc };
                let listed: Vec<(u32, u32)> = c12.iter_with_limits(lim).take(want_all.len() + 16).map(|(c, g)| (c, g.to_u32())).collect();
                if listed != want_all {
                    return Err(fail("cmap12-iter-limits", format!("Cmap12::iter_with_limits(char::MAX, {gc}) differs from the model: {}", first_diff(&listed, &want_all))));
                }
            }
            rc::CmapSubtable::Format14(_) => {}
            // the statement does not prescribe formats: anything else is only counted
            _ => stats.class("subtable of another format (not interrogated directly)"),
        }
    }

    // (3) the high-level character map of a font holding this cmap
    let font_bytes = Kit { num_glyphs: gc as u16, extra: vec![(*b"cmap", bytes.to_vec())], ..Default::default() }.build();
    let font = FontRef::new(&font_bytes).map_err(|e| fail("fontkit", format!("FontKit font does not open: {e}")))?;
    let direct = Charmap::new(&font);
    let via_index = MappingIndex::new(&font).charmap(&font);
    for (name, cm) in [("Charmap", &direct), ("MappingIndex::charmap", &via_index)] {
        for cp in (0..=0xFFFFu32).chain(high.iter().copied()) {
            let got = cm.map(cp).map(|g| g.to_u32());
            if got != lookup(cp) {
                return Err(fail("charmap-lookup", format!("{name}::map(U+{cp:04X}) = {got:?}, model {:?}", lookup(cp))));
            }
        }
        let listed: Vec<(u32, u32)> = cm.mappings().take(want_all.len() + 16).map(|(c, g)| (c, g.to_u32())).collect();
        if listed != want_all {
            return Err(fail("charmap-mappings", format!("{name}::mappings() differs from the model: {}", first_diff(&listed, &want_all))));
        }
    }
    stats.class_n("lookups (code point, per API level)", 2 * (65_536 + high.len() as u64));
    Ok(facts)
}

fn test_map(c: &Case, stats: &Stats) -> CaseResult {
    test_map_labeled(c, stats, "maps", &SLOTS_MAPS, 4)
}
fn test_big_map(c: &Case, stats: &Stats) -> CaseResult {
    test_map_labeled(c, stats, "big-maps", &SLOTS_BIG, 2)
}
static SLOTS_MAPS: AtomicU32 = AtomicU32::new(0);
static SLOTS_BIG: AtomicU32 = AtomicU32::new(0);
static SLOTS_UVS: AtomicU32 = AtomicU32::new(0);
/// the engine keeps the first eight samples: share them between the stages
fn sample_slot(counter: &AtomicU32, limit: u32) -> bool {
    counter.fetch_add(1, Ordering::Relaxed) < limit
}

fn test_map_labeled(c: &Case, stats: &Stats, label: &str, slots: &AtomicU32, slot_limit: u32) -> CaseResult {
    let gc = GLYPH_COUNTS[(c.gc as usize) % GLYPH_COUNTS.len()];
    let b = build_model(c);
    if b.dropped > 0 {
        stats.class_n("excluded_known", b.dropped as u64); // == ctx.excluded_known
        stats.class("case_with_run_dropped_for_format4_size");
    }
    let model = &b.model;
    let pairs = input_pairs(c, model);
    let cmap = wc::Cmap::from_mappings(pairs).map_err(|e| fail("from-mappings-err", format!("from_mappings returned Err for a conflict-free mapping: {e}")))?;
    let bytes = dump_table(&cmap).map_err(|e| fail("dump-err", format!("dump_table failed: {e}")))?;
    let facts = check_codepoint_maps(&bytes, model, gc, stats)?;

    // evidence
    let n_bmp = model.range(..0x10000).count();
    let n_supp = model.len() - n_bmp;
    stats.class(match (n_bmp > 0, n_supp > 0) {
        (false, false) => "empty",
        (true, false) => "bmp-only",
        (false, true) => "supplementary-only",
        (true, true) => "mixed",
    });
    stats.class(match gc {
        2 => "glyph_count=2",
        256 => "glyph_count=256",
        _ => "glyph_count=65535",
    });
    if facts.range_offset_segs > 0 {
        stats.class("has-range-offset-segment");
    }
    if facts.wrap_pos > 0 {
        stats.class("delta-segment gid-cp>32767 (wraps)");
    }
    if facts.wrap_neg > 0 {
        stats.class("delta-segment gid-cp<-32768 (wraps)");
    }
    if model.contains_key(&0x10FFFF) {
        stats.class("maps U+10FFFF");
    }
    if model.contains_key(&0) {
        stats.class("maps U+0000");
    }
    if model.contains_key(&0xFFFE) {
        stats.class("maps U+FFFE");
    }
    if model.contains_key(&0xFFFE) && model.contains_key(&0x10000) {
        stats.class("maps U+FFFE and U+10000");
    }
    stats.class(match facts.seg_count {
        0 => "segments=0",
        1..=2 => "segments=1..2",
        3..=16 => "segments=3..16",
        17..=256 => "segments=17..256",
        257..=4096 => "segments=257..4096",
        _ => "segments>4096",
    });
    if facts.fmt4_len > 32_768 {
        stats.class("format4>32KiB");
    }
    if facts.groups12 > 256 {
        stats.class("format12 groups>256");
    }
    if c.order > 1 {
        stats.class("input shuffled");
    }
    if c.dup % 4 == 3 && !model.is_empty() {
        stats.class("input with identical duplicates");
    }
    let nontrivial = b.runs_used >= 2 && (facts.range_offset_segs > 0 || facts.wrap_pos + facts.wrap_neg > 0 || n_supp > 0);
    if nontrivial {
        stats.nontrivial(hash_json(&(gc, model)));
        if stats.want_sample() && sample_slot(slots, slot_limit) {
            let head: Vec<String> = model.iter().take(12).map(|(c, g)| format!("U+{c:04X}->{g}")).collect();
            stats.sample(serde_json::json!({"stage": label, "glyph_count": gc, "runs_used": b.runs_used, "pairs": model.len(), "bmp": n_bmp, "supplementary": n_supp,
                "format4_segments": facts.seg_count, "range_offset_segments": facts.range_offset_segs, "wrapping_delta_segments": facts.wrap_pos + facts.wrap_neg,
                "format12_groups": facts.groups12, "cmap_bytes": bytes.len(), "first_pairs": head}));
        }
    }
    Ok(())
}

// ------------------------------------------------------------------------------------------------
// generators

fn start_strategy() -> BoxedStrategy<u32> {
    prop_oneof![
        3 => 0u32..0x300,
        1 => Just(0u32),
        1 => 0x70u32..0x90,
        1 => 0x7FE0u32..0x8020,
        1 => 0xD7F0u32..0xE010,
        2 => 0x300u32..0xFFFF,
        3 => 0xFFF0u32..0x10010,
        2 => 0xFFFDu32..=0x10001,
        2 => 0x10000u32..0x10400,
        2 => 0x10FFE0u32..=0x10FFFF,
        1 => 0u32..=0x10FFFF,
    ]
    .boxed()
}

fn run_strategy(len: BoxedStrategy<u32>) -> impl Strategy<Value = Run> {
    (
        start_strategy(),
        len,
        prop_oneof![3 => Just(0u8), 1 => Just(1u8), 2 => Just(2u8), 1 => Just(3u8), 1 => Just(4u8), 2 => Just(5u8), 2 => Just(6u8), 1 => Just(7u8)],
        prop_oneof![4 => Just(0u8), 2 => Just(1u8), 2 => Just(2u8), 1 => Just(3u8), 1 => Just(4u8), 1 => Just(5u8)],
        1u32..65_535,
        prop_oneof![2 => Just(0u8), 2 => Just(1u8), 1 => Just(2u8), 1 => 3u8..40],
        0u32..6,
    )
        .prop_map(|(start, len, pat, gmode, g0, gap, k)| Run { start, len, pat, gmode, g0, gap, k })
}

fn small_len() -> BoxedStrategy<u32> {
    prop_oneof![2 => Just(1u32), 3 => 2u32..7, 3 => 1u32..40, 1 => 40u32..400].boxed()
}

fn order_strategy() -> impl Strategy<Value = u64> {
    prop_oneof![2 => Just(0u64), 1 => Just(1u64), 2 => 2u64..u64::MAX]
}

fn plane_strategy() -> impl Strategy<Value = u8> {
    prop_oneof![3 => Just(0u8), 2 => Just(1u8), 1 => Just(2u8)]
}

fn case_strategy() -> impl Strategy<Value = Case> {
    (0u8..5, proptest::collection::vec(run_strategy(small_len()), 0..14), order_strategy(), 0u8..4, plane_strategy()).prop_map(|(gc, runs, order, dup, plane)| Case { gc, runs, order, dup, nocap: false, plane })
}

fn big_case_strategy() -> impl Strategy<Value = Case> {
    let big_len = prop_oneof![3 => 1u32..40, 2 => 40u32..2000, 2 => 2000u32..12_000, 1 => 12_000u32..34_000].boxed();
    (1u8..5, proptest::collection::vec(run_strategy(big_len), 1..40), order_strategy(), 0u8..4, plane_strategy()).prop_map(|(gc, runs, order, dup, plane)| Case { gc, runs, order, dup, nocap: false, plane })
}

/// Fixed cases around the format-4 size limit (16 + 8*segments + 2*glyph ids <= 65 535).
fn size_limit_case(i: u64) -> Case {
    let one = |start: u32, len: u32, pat: u8, k: u32| Run { start, len, pat, gmode: 0, g0: 60_000, gap: 1, k };
    let runs = match i {
        // 8188 single-code-point segments + sentinel: 65 528 bytes, representable
        0 => vec![one(0x100, 2 * 8188 - 1, 4, 0)],
        // 8189 segments + sentinel: 65 536 bytes
        1 => vec![one(0x100, 2 * 8189 - 1, 4, 0)],
        // one range-offset segment with 32 751 glyph ids: 65 534 bytes, representable
        2 => vec![one(0x100, 32_751, 3, 0)],
        // ... with 32 752 glyph ids: 65 536 bytes
        3 => vec![one(0x100, 32_752, 3, 0)],
        // a second range-offset segment whose idRangeOffset itself exceeds 65 535
        4 => vec![one(0x100, 32_766, 3, 0), Run { start: 0x100 + 32_766 + 1, len: 2, pat: 3, gmode: 0, g0: 500, gap: 1, k: 0 }],
        // far beyond
        _ => vec![one(0x100, 2 * 9000 - 1, 4, 0)],
    };
    Case { gc: 2, runs, order: 0, dup: 0, nocap: true, plane: 0 }
}

// ------------------------------------------------------------------------------------------------
// variation sequences

#[derive(Clone, Debug, Serialize, Deserialize)]
struct URun {
    start: u32,
    len: u32,
    /// 0 default, 1 non-default consecutive glyphs, 2 non-default random glyphs, 3 alternating default / non-default
    kind: u8,
    g0: u32,
    gap: u8,
}

#[derive(Clone, Debug, Serialize, Deserialize)]
struct Sel {
    sel: u32,
    runs: Vec<URun>,
    /// longest default range emitted (1..=256 code points)
    max_range: u16,
    /// write an empty table instead of a null offset when there are no entries of that kind
    empty_default: bool,
    empty_non_default: bool,
    /// copy the content of an earlier selector (identical tables are shared by the packer)
    copy_of: Option<u8>,
}

#[derive(Clone, Debug, Serialize, Deserialize)]
struct Case14 {
    gc: u8,
    /// code-point mappings of the same cmap (may be empty: format 14 only)
    base: Vec<Run>,
    sels: Vec<Sel>,
}

type SelModel = BTreeMap<u32, Option<u16>>;

fn build_uvs_model(c: &Case14, gc: u32) -> BTreeMap<u32, SelModel> {
    let mut out: BTreeMap<u32, SelModel> = BTreeMap::new();
    let mut by_index: Vec<u32> = vec![];
    for s in &c.sels {
        let mut sel = s.sel.min(0xFF_FFFF);
        // selectors are unique in a valid table: a collision moves to the next free value
        while out.contains_key(&sel) {
            sel = if sel >= 0xFF_FFFF { 0 } else { sel + 1 };
        }
        let mut m: SelModel = BTreeMap::new();
        if let Some(j) = s.copy_of.and_then(|j| by_index.get(j as usize)) {
            m = out[j].clone();
        } else {
            let mut runs: Vec<&URun> = s.runs.iter().collect();
            runs.sort_by_key(|r| r.start);
            let mut next_free = 0u32;
            for r in runs {
                let st = if r.start >= next_free { r.start } else { next_free.saturating_add(r.gap as u32) };
                if st > 0xFF_FFFF {
                    continue;
                }
                let len = r.len.min(0x100_0000 - st);
                for i in 0..len {
                    let cp = st + i;
                    let g = match r.kind % 4 {
                        0 => None,
                        1 => Some(norm_gid(r.g0 as i64 + i as i64, gc) as u16),
                        2 => Some(norm_gid(h32(r.g0, i) as i64, gc) as u16),
                        _ => {
                            if (i / (1 + r.g0 % 3)) % 2 == 0 {
                                None
                            } else {
                                Some(norm_gid(r.g0 as i64 + i as i64, gc) as u16)
                            }
                        }
                    };
                    m.insert(cp, g);
                }
                next_free = st.saturating_add(len);
            }
        }
        by_index.push(sel);
        out.insert(sel, m);
    }
    out
}

fn encode_uvs(c: &Case14, model: &BTreeMap<u32, SelModel>) -> (Vec<wc::VariationSelector>, usize, usize) {
    // settings per selector value (first spec that produced it)
    let mut cfg: BTreeMap<u32, &Sel> = BTreeMap::new();
    {
        let mut seen: BTreeSet<u32> = BTreeSet::new();
        for s in &c.sels {
            let mut sel = s.sel.min(0xFF_FFFF);
            while seen.contains(&sel) {
                sel = if sel >= 0xFF_FFFF { 0 } else { sel + 1 };
            }
            seen.insert(sel);
            cfg.insert(sel, s);
        }
    }
    let mut recs = vec![];
    let mut n_ranges = 0;
    let mut n_maps = 0;
    for (sel, m) in model {
        let s = cfg[sel];
        let max_range = (s.max_range.clamp(1, 256)) as u32;
        let mut ranges: Vec<wc::UnicodeRange> = vec![];
        let mut cur: Option<(u32, u32)> = None; // start, len
        for (cp, v) in m {
            if v.is_some() {
                continue;
            }
            cur = match cur {
                Some((st, len)) if st + len == *cp && len < max_range => Some((st, len + 1)),
                Some((st, len)) => {
                    ranges.push(wc::UnicodeRange::new(Uint24::new(st), (len - 1) as u8));
                    Some((*cp, 1))
                }
                None => Some((*cp, 1)),
            };
        }
        if let Some((st, len)) = cur {
            ranges.push(wc::UnicodeRange::new(Uint24::new(st), (len - 1) as u8));
        }
        let maps: Vec<wc::UvsMapping> = m.iter().filter_map(|(cp, v)| v.map(|g| wc::UvsMapping::new(Uint24::new(*cp), g))).collect();
        n_ranges += ranges.len();
        n_maps += maps.len();
        let d = if ranges.is_empty() && !s.empty_default { None } else { Some(wc::DefaultUvs::new(ranges.len() as u32, ranges)) };
        let nd = if maps.is_empty() && !s.empty_non_default { None } else { Some(wc::NonDefaultUvs::new(maps.len() as u32, maps)) };
        recs.push(wc::VariationSelector::new(Uint24::new(*sel), d, nd));
    }
    (recs, n_ranges, n_maps)
}

fn want_variant(model: &BTreeMap<u32, SelModel>, cp: u32, sel: u32) -> Option<MapVariant> {
    match model.get(&sel).and_then(|m| m.get(&cp)) {
        None => None,
        Some(None) => Some(MapVariant::UseDefault),
        Some(Some(g)) => Some(MapVariant::Variant(read_fonts::types::GlyphId::new(*g as u32))),
    }
}

fn variant_key(v: &MapVariant) -> u32 {
    match v {
        MapVariant::UseDefault => u32::MAX,
        MapVariant::Variant(g) => g.to_u32(),
    }
}

fn test_uvs(c: &Case14, stats: &Stats) -> CaseResult {
    let gc = GLYPH_COUNTS[(c.gc as usize) % GLYPH_COUNTS.len()];
    let base_case = Case { gc: c.gc, runs: c.base.clone(), order: 0, dup: 0, nocap: false, plane: 0 };
    let base = build_model(&base_case).model;
    let model = build_uvs_model(c, gc);
    let (recs, n_ranges, n_maps) = encode_uvs(c, &model);
    let n_recs = recs.len() as u32;

    // the length field is not computed by write-fonts: measure the subtable compiled alone
    let alone = dump_table(&wc::CmapSubtable::format_14(0, n_recs, recs.clone())).map_err(|e| fail("uvs-dump-err", format!("dump_table(Cmap14) failed: {e}")))?;
    let sub14 = wc::CmapSubtable::format_14(alone.len() as u32, n_recs, recs);
    let mut cmap = wc::Cmap::from_mappings(input_pairs(&base_case, &base)).map_err(|e| fail("from-mappings-err", format!("from_mappings returned Err: {e}")))?;
    let pos = cmap.encoding_records.iter().take_while(|r| r.platform_id == wc::PlatformId::Unicode).count();
    cmap.encoding_records.insert(pos, wc::EncodingRecord::new(wc::PlatformId::Unicode, 5, sub14));
    let bytes = dump_table(&cmap).map_err(|e| fail("dump-err", format!("dump_table failed: {e}")))?;

    // the code-point part must be unaffected by the extra record
    check_codepoint_maps(&bytes, &base, gc, stats)?;

    let rcmap = rc::Cmap::read(FontData::new(&bytes)).map_err(|e| fail("read", format!("compiled cmap does not parse: {e}")))?;
    let mut c14 = None;
    for rec in rcmap.encoding_records() {
        if let Ok(rc::CmapSubtable::Format14(t)) = rec.subtable(rcmap.offset_data()) {
            c14 = Some(t);
        }
    }
    let c14 = c14.ok_or_else(|| fail("uvs-missing", "no format-14 subtable in the compiled cmap".into()))?;

    // probes
    let mut sels: BTreeSet<u32> = BTreeSet::new();
    for s in model.keys() {
        sels.insert(s.saturating_sub(1));
        sels.insert(*s);
        sels.insert(s + 1);
    }
    sels.extend([0, 0xFE00, 0xFE0F, 0xE0100, 0xE01EF, 0xFF_FFFF, 0x100_0000, u32::MAX]);
    let mut cps: BTreeSet<u32> = BTreeSet::new();
    for m in model.values() {
        for cp in m.keys() {
            cps.insert(cp.saturating_sub(1));
            cps.insert(*cp);
            cps.insert(cp + 1);
        }
    }
    cps.extend([0, 0xFFFF, 0x10000, 0x10FFFF, 0x110000, 0xFF_FFFF, 0x100_0000, u32::MAX]);

    let font_bytes = Kit { num_glyphs: gc as u16, extra: vec![(*b"cmap", bytes.clone())], ..Default::default() }.build();
    let font = FontRef::new(&font_bytes).map_err(|e| fail("fontkit", format!("FontKit font does not open: {e}")))?;
    let direct = Charmap::new(&font);
    let via_index = MappingIndex::new(&font).charmap(&font);
    for sel in &sels {
        for cp in &cps {
            let want = want_variant(&model, *cp, *sel);
            let got = c14.map_variant(*cp, *sel);
            if got != want {
                return Err(fail("uvs-lookup", format!("Cmap14::map_variant(U+{cp:04X}, U+{sel:04X}) = {got:?}, encoded {want:?}")));
            }
            let got = direct.map_variant(*cp, *sel);
            if got != want {
                return Err(fail("uvs-charmap-lookup", format!("Charmap::map_variant(U+{cp:04X}, U+{sel:04X}) = {got:?}, encoded {want:?}")));
            }
            let got = via_index.map_variant(*cp, *sel);
            if got != want {
                return Err(fail("uvs-charmap-lookup", format!("MappingIndex::charmap::map_variant(U+{cp:04X}, U+{sel:04X}) = {got:?}, encoded {want:?}")));
            }
        }
    }
    stats.class_n("lookups (variation sequence)", (sels.len() * cps.len()) as u64);

    // enumeration: exactly the encoded triples (compared as sorted lists: the statement fixes no order between the default and
    // non-default entries of one selector)
    let mut want: Vec<(u32, u32, u32)> = vec![];
    for (sel, m) in &model {
        for (cp, v) in m {
            want.push((*sel, *cp, v.map(|g| g as u32).unwrap_or(u32::MAX)));
        }
    }
    want.sort();
    let total = want.len();
    let collect = |it: &mut dyn Iterator<Item = (u32, u32, MapVariant)>| -> Vec<(u32, u32, u32)> {
        let mut v: Vec<(u32, u32, u32)> = it.take(total + 16).map(|(cp, sel, mv)| (sel, cp, variant_key(&mv))).collect();
        v.sort();
        v
    };
    for (name, got) in [
        ("Cmap14::iter", collect(&mut c14.iter())),
        ("Charmap::variant_mappings", collect(&mut direct.variant_mappings())),
        ("MappingIndex::charmap::variant_mappings", collect(&mut via_index.variant_mappings())),
    ] {
        if got != want {
            let n = got.len().min(want.len());
            let at = (0..n).find(|i| got[*i] != want[*i]);
            return Err(fail("uvs-iter", format!("{name} yields {} triples, encoded {}; first difference (selector, code point, glyph|MAX=default): got {:?} want {:?}",
                got.len(), want.len(), at.map(|i| got[i]).or(got.get(n).copied()), at.map(|i| want[i]).or(want.get(n).copied()))));
        }
    }

    // evidence
    stats.class("uvs-case");
    let both = model.values().filter(|m| m.values().any(|v| v.is_none()) && m.values().any(|v| v.is_some())).count();
    if both > 0 {
        stats.class("uvs: selector with default and non-default entries");
    }
    if model.len() >= 2 {
        stats.class("uvs: >=2 selectors");
    }
    if c.sels.iter().any(|s| s.copy_of.is_some()) && model.len() >= 2 {
        stats.class("uvs: shared tables");
    }
    if model.values().any(|m| m.is_empty()) {
        stats.class("uvs: selector without entries");
    }
    if base.is_empty() {
        stats.class("uvs: format 14 only");
    }
    if model.values().any(|m| m.keys().any(|c| *c > 0x10FFFF)) {
        stats.class("uvs: code point above U+10FFFF");
    }
    if total > 0 && (both > 0 || model.len() >= 2) {
        stats.nontrivial(hash_json(&("uvs", &model, &base)));
        if stats.want_sample() && sample_slot(&SLOTS_UVS, 2) {
            stats.sample(serde_json::json!({"stage": "uvs", "selectors": model.keys().map(|s| format!("U+{s:04X}")).collect::<Vec<_>>(), "default_ranges": n_ranges,
                "non_default_mappings": n_maps, "triples": total, "base_pairs": base.len(), "cmap_bytes": bytes.len()}));
        }
    }
    Ok(())
}

fn uvs_start() -> BoxedStrategy<u32> {
    prop_oneof![
        3 => 0u32..0x300,
        2 => 0x4E00u32..0x4F00,
        2 => 0xFFF0u32..0x10010,
        1 => 0x10FFE0u32..=0x10FFFF,
        1 => 0u32..=0x10FFFF,
        1 => 0xFF_FFE0u32..=0xFF_FFFF,
    ]
    .boxed()
}

fn sel_strategy() -> impl Strategy<Value = Sel> {
    let urun = (uvs_start(), prop_oneof![2 => Just(1u32), 3 => 1u32..10, 2 => 10u32..300, 1 => 250u32..600], 0u8..4, 1u32..65_535, 0u8..3)
        .prop_map(|(start, len, kind, g0, gap)| URun { start, len, kind, g0, gap });
    (
        prop_oneof![3 => 0xFE00u32..=0xFE0F, 3 => 0xE0100u32..=0xE01EF, 1 => 0x180Bu32..=0x180D, 1 => 0u32..=0xFF_FFFF, 1 => Just(0xFF_FFFFu32), 1 => Just(0u32)],
        proptest::collection::vec(urun, 0..6),
        prop_oneof![1 => Just(1u16), 1 => Just(2u16), 3 => Just(256u16), 1 => 1u16..=256],
        any::<bool>(),
        any::<bool>(),
        prop_oneof![4 => Just(None), 1 => (0u8..4).prop_map(Some)],
    )
        .prop_map(|(sel, runs, max_range, empty_default, empty_non_default, copy_of)| Sel { sel, runs, max_range, empty_default, empty_non_default, copy_of })
}

fn case14_strategy() -> impl Strategy<Value = Case14> {
    (0u8..5, proptest::collection::vec(run_strategy(prop_oneof![1u32..20].boxed()), 0..4), proptest::collection::vec(sel_strategy(), 0..7)).prop_map(|(gc, base, sels)| Case14 { gc, base, sels })
}

fn main() {
    let ctx = Ctx::from_args("C08");
    ctx.set_rule("maps/big-maps: mappings made of 0..14 (big: 1..40) runs (start biased to 0, 0x7F, 0x8000, surrogate edges, 0xFFF0..0x10010, 0x10000.., 0x10FFE0..=0x10FFFF; \
        gaps 0/1/2 between colliding runs; glyph patterns consecutive/constant/random/descending/holes/blocks/swapped; first glyph biased so that gid-cp sits at +-32768 and wraps; \
        glyph_count 2/256/65535; U+FFFF and surrogates never mapped; pairs handed over ascending, descending or shuffled, optionally with identical duplicates). \
        Every case is checked on all 65536 BMP code points plus every supplementary pair +-1 and range limits, at table, subtable and Charmap level, plus all iterators. \
        Non-trivial: >= 2 runs and (a range-offset segment, or a delta-coded segment whose gid-cp lies outside i16, or a supplementary mapping); distinct by hash of (glyph_count, mapping). \
        uvs: Cmap14 built from write-fonts types (0..6 selectors, default ranges cut at 1..256, non-default mappings, shared/empty tables) next to a small base mapping; \
        non-trivial: >= 2 selectors or a selector with both kinds of entries. Mappings whose format-4 encoding would exceed 65535 bytes are excluded by construction \
        (run dropped, counted in excluded_known) except in the fixed stage cmap4-size-limit.");
    ctx.assume("the model is a BTreeMap built by the generator; fontkit (hand-encoded head/maxp + vcore sfnt assembler) wraps the compiled cmap for skrifa; at table level Some(GlyphId 0) counts as 'no glyph' (format-4 sentinel at U+FFFF), at Charmap level it does not");
    ctx.assume("Cmap14.length is supplied by the caller of write-fonts: the harness measures the subtable compiled alone; readers do not use the field");
    ctx.prop_stage("maps", Isolation::Threads, ctx.n(10_000, 80_000), case_strategy, test_map);
    ctx.prop_stage("big-maps", Isolation::Threads, ctx.n(700, 4_000), big_case_strategy, test_big_map);
    ctx.prop_stage("uvs", Isolation::Threads, ctx.n(4_000, 30_000), case14_strategy, test_uvs);
    ctx.index_stage("cmap4-size-limit", Isolation::Threads, 6, size_limit_case, test_map);
    ctx.finish();
}
