//! C17 — subsetting preserves everything about the glyphs and characters it keeps.
//!
//! klippa (`Plan::new` + `subset_font`) on every TrueType-flavoured corpus font; the original and the subset are both
//! observed through skrifa (charmap, unhinted outlines, advance, left side bearing, maxp glyph count); the old -> new
//! glyph renumbering comes from hook H3 (`Plan::verif_glyph_map`). The component closure is computed by a parser of
//! glyf/loca written here.
use proptest::prelude::*;
use read_fonts::{
    collections::IntSet,
    types::{F2Dot14, GlyphId, NameId, Tag},
    FontRef, TableProvider,
};
use serde::{Deserialize, Serialize};
use skrifa::{
    instance::{LocationRef, Size},
    outline::{DrawSettings, OutlinePen},
    MetadataProvider,
};
use std::collections::{BTreeMap, BTreeSet};
use std::sync::OnceLock;
use vcore::*;

const F_NO_HINTING: u16 = 0x0001;
const F_RETAIN_GIDS: u16 = 0x0002;
const F_SET_OVERLAPS: u16 = 0x0010;
const F_NOTDEF_OUTLINE: u16 = 0x0040;
const IMPLEMENTED: [u16; 4] = [F_NO_HINTING, F_RETAIN_GIDS, F_SET_OVERLAPS, F_NOTDEF_OUTLINE];
/// DESUBROUTINIZE, NAME_LEGACY, PASSTHROUGH_UNRECOGNIZED, GLYPH_NAMES, NO_PRUNE_UNICODE_RANGES, NO_LAYOUT_CLOSURE, OPTIMIZE_IUP_DELTAS
const OTHER_FLAGS: [u16; 7] = [0x0004, 0x0008, 0x0020, 0x0080, 0x0100, 0x0200, 0x0400];

/// Fonts whose requested characters come out unmapped (listed finding, keyed by font): their character predicates are
/// left out of the main stages by construction and exercised by the `kf-cmap` stage only.
const KF_CMAP_FONTS: [&str; 1] = ["autohint_cmap.ttf"];

/// glyphs compared per (case, pass)
const GLYPH_CAP: usize = 160;

// ------------------------------------------------------------------------------------------------------------------
// corpus

struct FontInfo {
    name: String,
    data: &'static [u8],
    index: u32,
    /// maxp.numGlyphs
    n: u32,
    /// skrifa charmap mappings of the original, sorted by character
    maps: Vec<(u32, u32)>,
    comps: Vec<Vec<u32>>,
    /// bytes of each glyph in glyf
    glen: Vec<u32>,
    composites: Vec<u32>,
    var_glyphs: Vec<u32>,
    /// glyph ids whose HVAR advance delta row is not all zero, grouped by the outer index (ItemVariationData
    /// subtable) of their advance mapping; one group for an implicit (glyph id) mapping, empty without HVAR.
    /// (A subset whose kept rows are all zero loses its HVAR altogether: listed finding.)
    hvar_groups: Vec<Vec<u32>>,
    naxes: usize,
    kf_cmap: bool,
}
impl FontInfo {
    fn font(&self) -> FontRef<'static> {
        FontRef::from_index(self.data, self.index).expect("corpus font opened before")
    }
}

fn be16(d: &[u8], o: usize) -> Option<u16> {
    d.get(o..o.checked_add(2)?).map(|b| u16::from_be_bytes([b[0], b[1]]))
}
fn be32(d: &[u8], o: usize) -> Option<u32> {
    d.get(o..o.checked_add(4)?).map(|b| u32::from_be_bytes([b[0], b[1], b[2], b[3]]))
}

/// Independent reading of glyf/loca: for each glyph id < maxp.numGlyphs the component glyph ids of a composite glyph
/// (empty for simple / empty / unreadable glyphs). Second value: is the glyph a composite.
fn parse_components(font: &FontRef) -> Option<(Vec<Vec<u32>>, Vec<bool>, Vec<u32>)> {
    let head = font.table_data(Tag::new(b"head"))?;
    let maxp = font.table_data(Tag::new(b"maxp"))?;
    let loca = font.table_data(Tag::new(b"loca"))?;
    let glyf = font.table_data(Tag::new(b"glyf"))?;
    let (head, maxp, loca, glyf) = (head.as_bytes(), maxp.as_bytes(), loca.as_bytes(), glyf.as_bytes());
    let long = be16(head, 50)? != 0;
    let n = be16(maxp, 4)? as usize;
    let off = |i: usize| -> Option<usize> {
        if long {
            be32(loca, i.checked_mul(4)?).map(|v| v as usize)
        } else {
            be16(loca, i.checked_mul(2)?).map(|v| v as usize * 2)
        }
    };
    let mut comps = vec![vec![]; n];
    let mut is_comp = vec![false; n];
    let mut glen = vec![0u32; n];
    for g in 0..n {
        let (Some(s), Some(e)) = (off(g), off(g + 1)) else { continue };
        if e <= s || e > glyf.len() {
            continue;
        }
        let d = &glyf[s..e];
        glen[g] = (e - s) as u32;
        let Some(nc) = be16(d, 0) else { continue };
        if (nc as i16) >= 0 {
            continue;
        }
        is_comp[g] = true;
        let mut i = 10usize;
        loop {
            let (Some(flags), Some(gid)) = (be16(d, i), be16(d, i + 2)) else { break };
            comps[g].push(gid as u32);
            i += 4;
            i += if flags & 0x0001 != 0 { 4 } else { 2 };
            if flags & 0x0008 != 0 {
                i += 2;
            } else if flags & 0x0040 != 0 {
                i += 4;
            } else if flags & 0x0080 != 0 {
                i += 8;
            }
            if flags & 0x0020 == 0 || comps[g].len() > 4096 {
                break;
            }
        }
    }
    Some((comps, is_comp, glen))
}

fn charmap_mappings(font: &FontRef) -> Vec<(u32, u32)> {
    let mut m: Vec<(u32, u32)> = font.charmap().mappings().map(|(c, g)| (c, g.to_u32())).collect();
    m.sort_unstable();
    m.dedup_by_key(|x| x.0);
    m
}

fn hvar_groups(font: &FontRef, n: u32) -> Vec<Vec<u32>> {
    let Ok(hvar) = font.hvar() else { return vec![] };
    let Ok(store) = hvar.item_variation_store() else { return vec![] };
    let data = store.item_variation_data();
    let varies = |outer: u16, inner: u16| -> bool {
        match data.get(outer as usize) {
            Some(Ok(d)) => inner < d.item_count() && d.delta_set(inner).any(|v| v != 0),
            _ => false,
        }
    };
    let mut groups: BTreeMap<u16, Vec<u32>> = BTreeMap::new();
    match hvar.advance_width_mapping() {
        Some(Ok(map)) => {
            for g in 0..n {
                if let Ok(ix) = map.get(g) {
                    if varies(ix.outer, ix.inner) {
                        groups.entry(ix.outer).or_default().push(g);
                    }
                }
            }
        }
        _ => {
            groups.insert(0, (0..n.min(0x10000)).filter(|g| varies(0, *g as u16)).collect());
        }
    }
    groups.into_values().filter(|g| !g.is_empty()).collect()
}

/// A corpus font with its HVAR re-encoded (same advance deltas for every glyph, checked below) over `k` ItemVariationData
/// subtables that the explicit advance mapping, walked in glyph order, visits out of order (`order[g % k]`). No font of
/// the repository has more than two subtables, so the renumbering of three or more would never be exercised
/// (seeded change C17-m4). `None` when the font has no usable HVAR or the re-encoding does not reproduce the advances.
fn derive_hvar_multi(font: &FontRef, n: u32, order: &[u32], with_lsb: bool) -> Option<Vec<u8>> {
    use write_fonts::from_obj::ToOwnedTable;
    use write_fonts::tables::hvar::Hvar;
    use write_fonts::tables::variations::{DeltaSetIndexMap, ItemVariationData, ItemVariationStore, VariationRegionList};
    let k = order.len();
    let hvar = font.hvar().ok()?;
    let store = hvar.item_variation_store().ok()?;
    let regions: VariationRegionList = store.variation_region_list().ok()?.to_owned_table();
    let r = regions.variation_regions.len();
    if r == 0 || r > 0x7FFF || (n as usize) < 2 * k || n > 0xFFFF {
        return None;
    }
    let data = store.item_variation_data();
    let map = match hvar.advance_width_mapping() {
        Some(Ok(m)) => Some(m),
        Some(Err(_)) => return None,
        None => None,
    };
    let mut rows: Vec<Vec<Vec<i32>>> = vec![vec![]; k];
    let mut entries: Vec<u32> = vec![];
    let mut long = false;
    for g in 0..n {
        let (o, i) = match &map {
            Some(m) => {
                let ix = m.get(g).ok()?;
                (ix.outer, ix.inner)
            }
            None => (0, g as u16),
        };
        let mut row = vec![0i32; r];
        if let Some(Ok(d)) = data.get(o as usize) {
            if i < d.item_count() {
                for (ri, v) in d.region_indexes().iter().zip(d.delta_set(i)) {
                    *row.get_mut(ri.get() as usize)? = v;
                    long |= i16::try_from(v).is_err();
                }
            }
        }
        let outer = order[g as usize % k];
        entries.push((outer << 16) | rows[outer as usize].len() as u32);
        rows[outer as usize].push(row);
    }
    // optional left-side-bearing mapping of its own: glyph g takes the advance row of glyph g+1 (arbitrary but fixed
    // deltas; the derived font is its own original), stored as further rows visited in yet another order
    let mut lsb_entries: Vec<u32> = vec![];
    if with_lsb {
        let adv_rows: Vec<Vec<i32>> = (0..n as usize)
            .map(|g| {
                let e = entries[(g + 1) % n as usize];
                rows[(e >> 16) as usize][(e & 0xFFFF) as usize].clone()
            })
            .collect();
        for (g, row) in adv_rows.into_iter().enumerate() {
            let outer = order[(g + 1) % k];
            lsb_entries.push((outer << 16) | rows[outer as usize].len() as u32);
            rows[outer as usize].push(row);
        }
    }
    let subtables: Vec<Option<ItemVariationData>> = rows
        .iter()
        .map(|rs| {
            let mut bytes = vec![];
            for row in rs {
                for v in row {
                    if long {
                        bytes.extend_from_slice(&v.to_be_bytes());
                    } else {
                        bytes.extend_from_slice(&(*v as i16).to_be_bytes());
                    }
                }
            }
            let wdc = if long { 0x8000 | r as u16 } else { r as u16 };
            Some(ItemVariationData::new(rs.len() as u16, wdc, (0..r as u16).collect(), bytes))
        })
        .collect();
    let lsb_map = with_lsb.then(|| DeltaSetIndexMap::from_iter(lsb_entries));
    let new_hvar = Hvar::new(ItemVariationStore::new(regions, subtables), Some(DeltaSetIndexMap::from_iter(entries)), lsb_map, None);
    let mut b = write_fonts::FontBuilder::new();
    b.add_table(&new_hvar).ok()?;
    b.copy_missing_tables(font.clone());
    let bytes = b.build();
    // the re-encoding must not change any advance (otherwise the derived font is simply not used)
    let derived = FontRef::new(&bytes).ok()?;
    let naxes = font.axes().len();
    let mut locs: Vec<Vec<F2Dot14>> = vec![vec![F2Dot14::from_bits(16384); naxes], vec![F2Dot14::from_bits(-16384); naxes], vec![F2Dot14::from_bits(5000); naxes]];
    for a in 0..naxes.min(4) {
        let mut l = vec![F2Dot14::ZERO; naxes];
        l[a] = F2Dot14::from_bits(16384);
        locs.push(l);
    }
    for l in &locs {
        let loc = LocationRef::new(l);
        let (m0, m1) = (font.glyph_metrics(Size::unscaled(), loc), derived.glyph_metrics(Size::unscaled(), loc));
        for g in 0..n {
            if m0.advance_width(GlyphId::new(g)) != m1.advance_width(GlyphId::new(g)) {
                eprintln!("[C17] derived HVAR font dropped: advance of glyph {g} not reproduced");
                return None;
            }
        }
    }
    Some(bytes)
}

fn info_for(name: String, file: &str, data: &'static [u8], index: u32) -> Option<FontInfo> {
    let font = FontRef::from_index(data, index).ok()?;
    let required = font.glyf().is_ok()
        && font.loca(None).is_ok()
        && font.cmap().is_ok()
        && font.maxp().is_ok()
        && font.head().is_ok()
        && font.hhea().is_ok()
        && font.hmtx().is_ok();
    if !required {
        return None;
    }
    let n = font.maxp().map(|m| m.num_glyphs() as u32).unwrap_or(0);
    if n == 0 {
        return None;
    }
    let (comps, is_comp, glen) = parse_components(&font)?;
    let composites: Vec<u32> = (0..n).filter(|g| is_comp[*g as usize]).collect();
    let naxes = font.axes().len();
    let var_glyphs: Vec<u32> = match font.gvar() {
        Ok(gvar) if naxes > 0 => (0..n).filter(|g| matches!(gvar.data_for_gid(GlyphId::new(*g)), Ok(Some(d)) if d.len() > 4)).collect(),
        _ => vec![],
    };
    Some(FontInfo {
        kf_cmap: KF_CMAP_FONTS.contains(&file),
        name,
        data,
        index,
        n,
        maps: charmap_mappings(&font),
        comps,
        glen,
        composites,
        var_glyphs,
        hvar_groups: hvar_groups(&font, n),
        naxes,
    })
}

/// visiting orders of the derived multi-subtable HVAR fonts (name suffix, outer index of glyph `g` = order[g % len])
const HVAR_ORDERS: [(&str, &[u32], bool); 3] = [("+hvar3", &[0, 2, 1], false), ("+hvar4", &[3, 1, 0, 2], false), ("+hvar3lsb", &[2, 0, 1], true)];

fn load_fonts() -> Vec<FontInfo> {
    let mut out = vec![];
    for cf in corpus::all_fonts() {
        let data: &'static [u8] = Box::leak(cf.data.clone().into_boxed_slice());
        let members: Vec<u32> = match read_fonts::FileRef::new(data) {
            Ok(read_fonts::FileRef::Font(_)) => vec![0],
            Ok(read_fonts::FileRef::Collection(c)) => (0..c.len()).collect(),
            Err(_) => vec![],
        };
        let multi = members.len() > 1;
        for index in members {
            let name = if multi { format!("{}#{}", cf.name, index) } else { cf.name.clone() };
            let Some(info) = info_for(name.clone(), &cf.name, data, index) else { continue };
            let derive = info.naxes > 0 && !info.kf_cmap && info.hvar_groups.iter().any(|g| !g.is_empty());
            let n = info.n;
            out.push(info);
            if derive {
                let Ok(font) = FontRef::from_index(data, index) else { continue };
                for (suffix, order, with_lsb) in HVAR_ORDERS {
                    if let Some(bytes) = derive_hvar_multi(&font, n, order, with_lsb) {
                        let d: &'static [u8] = Box::leak(bytes.into_boxed_slice());
                        if let Some(di) = info_for(format!("{name}{suffix}"), &cf.name, d, 0) {
                            out.push(di);
                        }
                    }
                }
            }
        }
    }
    out
}

fn fonts() -> &'static [FontInfo] {
    static F: OnceLock<Vec<FontInfo>> = OnceLock::new();
    F.get_or_init(load_fonts)
}
fn font_named(name: &str) -> Option<&'static FontInfo> {
    fonts().iter().find(|f| f.name == name)
}

// ------------------------------------------------------------------------------------------------------------------
// case

#[derive(Clone, Debug, Serialize, Deserialize)]
struct Case {
    font: String,
    /// requested characters (ignored when `star_chars`: the CLI's `--unicodes=*`, i.e. `IntSet::all()`)
    chars: Vec<u32>,
    /// requested glyph ids (ignored when `star_gids`: `--gids=*`)
    gids: Vec<u32>,
    star_chars: bool,
    star_gids: bool,
    flags: u16,
    /// pixels per em compared in addition to the unscaled size
    ppems: Vec<f32>,
    /// normalized coordinates (raw F2Dot14 per axis) compared in addition to the default location
    locs: Vec<Vec<i16>>,
    /// selects which kept glyphs are compared when there are more than GLYPH_CAP
    pick: u32,
}

#[derive(Clone, Debug)]
enum Sel {
    None,
    Some(Vec<u32>),
    Range(u32, u32),
    Frac(u32, u32),
    Stride(u32, u32),
    All,
    Special(Vec<u32>),
}

fn idx(raw: u32, len: usize) -> usize {
    ((raw as u64 * len as u64) >> 32) as usize
}

/// indices into a universe of `len` elements
fn materialise(sel: &Sel, len: usize, special: &[usize]) -> Vec<usize> {
    if len == 0 {
        return vec![];
    }
    let mut v: Vec<usize> = match sel {
        Sel::None => vec![],
        Sel::Some(raws) => raws.iter().map(|r| idx(*r, len)).collect(),
        Sel::Range(start, n) => {
            let s = idx(*start, len);
            (s..len.min(s.saturating_add(*n as usize))).collect()
        }
        Sel::Frac(start, n) => {
            let s = idx(*start, len);
            let n = idx(*n, len) + 1;
            (s..len.min(s.saturating_add(n))).collect()
        }
        Sel::Stride(phase, stride) => {
            let st = (*stride).max(2) as usize;
            ((*phase as usize % st)..len).step_by(st).collect()
        }
        Sel::All => (0..len).collect(),
        Sel::Special(raws) => {
            if special.is_empty() {
                raws.iter().map(|r| idx(*r, len)).collect()
            } else {
                raws.iter().map(|r| special[idx(*r, special.len())]).collect()
            }
        }
    };
    v.sort_unstable();
    v.dedup();
    v
}

fn sel_strategy(with_special: bool) -> BoxedStrategy<Sel> {
    let raw = || any::<u32>();
    prop_oneof![
        (if with_special { 7 } else { 3 }) => Just(Sel::None),
        2 => raw().prop_map(|r| Sel::Some(vec![r])),
        4 => proptest::collection::vec(raw(), 2..10).prop_map(Sel::Some),
        3 => (raw(), 2u32..64).prop_map(|(s, n)| Sel::Range(s, n)),
        1 => (raw(), raw()).prop_map(|(s, n)| Sel::Frac(s, n)),
        2 => (0u32..5, 2u32..6).prop_map(|(p, s)| Sel::Stride(p, s)),
        2 => Just(Sel::All),
        (if with_special { 5 } else { 0 }) => proptest::collection::vec(raw(), 1..8).prop_map(Sel::Special),
    ]
    .boxed()
}

fn flags_strategy() -> BoxedStrategy<u16> {
    (0u16..16, prop_oneof![3 => Just(0u16), 1 => proptest::sample::select(OTHER_FLAGS.to_vec())])
        .prop_map(|(m, other)| {
            let mut f = other;
            for (i, bit) in IMPLEMENTED.iter().enumerate() {
                if m & (1 << i) != 0 {
                    f |= bit;
                }
            }
            f
        })
        .boxed()
}

fn ppem_strategy() -> BoxedStrategy<Vec<f32>> {
    let one = prop_oneof![
        3 => Just(16.0f32),
        3 => Just(113.0f32),
        2 => proptest::sample::select(vec![1.0f32, 7.5, 9.0, 12.0, 24.0, 33.3, 72.0, 1000.0, 2048.0, 4000.0]),
        2 => (64u32..64 * 512).prop_map(|v| v as f32 / 64.0),
    ];
    proptest::collection::vec(one, 1..3).boxed()
}

fn locs_strategy(naxes: usize, max: usize) -> BoxedStrategy<Vec<Vec<i16>>> {
    if naxes == 0 {
        return Just(vec![]).boxed();
    }
    let coord = prop_oneof![
        2 => Just(16384i16),
        2 => Just(-16384i16),
        1 => Just(0i16),
        1 => Just(8192i16),
        4 => -16384i16..=16384,
    ];
    proptest::collection::vec(proptest::collection::vec(coord, naxes..=naxes), 1..=max).boxed()
}

fn extra_chars() -> BoxedStrategy<Vec<u32>> {
    let one = prop_oneof![
        2 => 0u32..0x100,
        2 => 0x100u32..0x3000,
        1 => 0xE000u32..0xF900,
        1 => 0x3000u32..0x10000,
        2 => 0x10000u32..0x110000,
        1 => Just(0x10FFFFu32),
        1 => Just(0xFFFFu32),
    ];
    prop_oneof![3 => Just(vec![]), 2 => proptest::collection::vec(one, 1..4)].boxed()
}

fn extra_gids(n: u32) -> BoxedStrategy<Vec<u32>> {
    let one = prop_oneof![
        4 => (0u32..6).prop_map(move |k| n.saturating_add(k)),
        1 => Just(0xFFFFu32),
        1 => Just(0x10000u32),
        1 => Just(0xFF_FFFFu32),
        1 => Just(u32::MAX),
        1 => any::<u32>().prop_map(move |v| v.max(n)),
    ];
    prop_oneof![3 => Just(vec![]), 2 => proptest::collection::vec(one, 1..4)].boxed()
}

fn request_strategy(fi: usize) -> BoxedStrategy<Case> {
    let f = &fonts()[fi];
    (
        sel_strategy(false),
        sel_strategy(true),
        extra_chars(),
        extra_gids(f.n),
        flags_strategy(),
        ppem_strategy(),
        locs_strategy(f.naxes, 2),
        any::<u32>(),
        // which special list the glyph selection favours: composites or glyphs with variation data
        any::<bool>(),
    )
        .prop_map(move |(csel, gsel, xc, xg, flags, ppems, locs, pick, favour_var)| {
            let f = &fonts()[fi];
            // a font with very many character mappings per glyph (AdobeBlank: 1.1 M): scattered selections make the
            // subset cmap hundreds of times larger than the original one, which klippa's serializer refuses (listed
            // finding, reproduced by the kf stage); keep scattered selections small there
            let huge = f.maps.len() > 50_000;
            let mut chars: Vec<u32> = materialise(&csel, f.maps.len(), &[]).into_iter().map(|i| f.maps[i].0).collect();
            if huge && matches!(csel, Sel::Some(_) | Sel::Stride(..) | Sel::Special(_)) {
                chars.truncate(2000);
            }
            chars.extend(xc);
            let special: Vec<usize> = if (favour_var && !f.var_glyphs.is_empty()) || f.composites.is_empty() {
                f.var_glyphs.iter().map(|g| *g as usize).collect()
            } else {
                f.composites.iter().map(|g| *g as usize).collect()
            };
            let mut gids: Vec<u32> = materialise(&gsel, f.n as usize, &special).into_iter().map(|g| g as u32).collect();
            if huge && matches!(gsel, Sel::Some(_) | Sel::Stride(..) | Sel::Special(_)) {
                gids.truncate(8);
            }
            gids.extend(xg);
            Case { font: f.name.clone(), chars, gids, star_chars: false, star_gids: false, flags, ppems, locs, pick }
        })
        .boxed()
}

fn strategy() -> BoxedStrategy<Case> {
    let n = fonts().len();
    (0..n).prop_flat_map(request_strategy).boxed()
}

/// Variable fonts: small glyph sets built from the HVAR structure (unequal numbers of glyphs from different
/// ItemVariationData subtables of the advance mapping, in both orders; without HVAR or with one subtable: 2-8 glyphs
/// with variation data), always observed at all-axes-min, all-axes-max, all-axes-mid and single-axis extremes.
fn hvar_strategy() -> BoxedStrategy<Case> {
    let var: Vec<usize> = (0..fonts().len()).filter(|i| fonts()[*i].naxes > 0).collect();
    if var.is_empty() {
        return strategy();
    }
    let multi: Vec<usize> = var.iter().copied().filter(|i| fonts()[*i].hvar_groups.iter().filter(|g| !g.is_empty()).count() >= 2).collect();
    let pick_font = if multi.is_empty() {
        proptest::sample::select(var).boxed()
    } else {
        prop_oneof![3 => proptest::sample::select(multi), 1 => proptest::sample::select(var)].boxed()
    };
    pick_font
        .prop_flat_map(|fi| {
            (
                Just(fi),
                // (group, how many glyphs of it): 2-3 groups with independent counts => unequal in both orders
                proptest::collection::vec((any::<u32>(), 1usize..7, proptest::collection::vec(any::<u32>(), 6)), 2..4),
                flags_strategy(),
                ppem_strategy(),
                // single-axis extremes: (axis, sign)
                proptest::collection::vec((any::<u32>(), any::<bool>()), 0..3),
                -16384i16..=16384,
                any::<u32>(),
                any::<bool>(),
            )
        })
        .prop_map(|(fi, picks, flags, ppems, singles, mid, pick, as_chars)| {
            let f = &fonts()[fi];
            let groups: Vec<&Vec<u32>> = f.hvar_groups.iter().filter(|g| !g.is_empty()).collect();
            let mut gids: Vec<u32> = vec![];
            if groups.len() >= 2 {
                for (graw, k, raws) in &picks {
                    let g = groups[idx(*graw, groups.len())];
                    gids.extend(raws.iter().take(*k).map(|r| g[idx(*r, g.len())]));
                }
            } else {
                let pool: Vec<u32> = if let Some(g) = groups.first() {
                    (*g).clone()
                } else if f.var_glyphs.is_empty() {
                    (0..f.n).collect()
                } else {
                    f.var_glyphs.clone()
                };
                for (_, k, raws) in &picks {
                    gids.extend(raws.iter().take(*k).map(|r| pool[idx(*r, pool.len())]));
                }
                gids.truncate(8);
            }
            let mut locs: Vec<Vec<i16>> = vec![vec![-16384; f.naxes], vec![16384; f.naxes], vec![mid; f.naxes], vec![8192; f.naxes], vec![-8192; f.naxes]];
            for (araw, pos) in &singles {
                let mut l = vec![0i16; f.naxes];
                l[idx(*araw, f.naxes)] = if *pos { 16384 } else { -16384 };
                locs.push(l);
            }
            // half of the cases request the glyphs through their characters where they have one
            let mut chars = vec![];
            if as_chars {
                let mut rest = vec![];
                for g in &gids {
                    match f.maps.iter().find(|m| m.1 == *g) {
                        Some(m) => chars.push(m.0),
                        None => rest.push(*g),
                    }
                }
                gids = rest;
            }
            Case { font: f.name.clone(), chars, gids, star_chars: false, star_gids: false, flags, ppems, locs, pick }
        })
        .boxed()
}

/// "subset to everything the font contains": explicit full lists or the CLI's `*`, every flag combination
fn everything_strategy() -> BoxedStrategy<Case> {
    let n = fonts().len();
    (0..n)
        .prop_flat_map(|fi| {
            let f = &fonts()[fi];
            (Just(fi), 0u8..4, flags_strategy(), ppem_strategy(), locs_strategy(f.naxes, 3), any::<u32>())
        })
        .prop_map(|(fi, how, flags, ppems, locs, pick)| {
            let f = &fonts()[fi];
            // how: 0 both explicit, 1 both `*`, 2 all glyph ids only (characters follow from their glyphs), 3 `*` gids + explicit chars
            let (star_chars, star_gids) = match how {
                1 => (true, true),
                3 => (false, true),
                _ => (false, false),
            };
            let chars = if how == 0 || how == 3 { f.maps.iter().map(|m| m.0).collect() } else { vec![] };
            let gids = if how == 0 || how == 2 { (0..f.n).collect() } else { vec![] };
            Case { font: f.name.clone(), chars, gids, star_chars, star_gids, flags, ppems, locs, pick }
        })
        .boxed()
}

// ------------------------------------------------------------------------------------------------------------------
// observation

#[derive(Default, PartialEq, Eq, Clone)]
struct Stream(Vec<(u8, [u32; 6])>);
impl OutlinePen for Stream {
    fn move_to(&mut self, x: f32, y: f32) {
        self.0.push((0, [x.to_bits(), y.to_bits(), 0, 0, 0, 0]));
    }
    fn line_to(&mut self, x: f32, y: f32) {
        self.0.push((1, [x.to_bits(), y.to_bits(), 0, 0, 0, 0]));
    }
    fn quad_to(&mut self, cx0: f32, cy0: f32, x: f32, y: f32) {
        self.0.push((2, [cx0.to_bits(), cy0.to_bits(), x.to_bits(), y.to_bits(), 0, 0]));
    }
    fn curve_to(&mut self, cx0: f32, cy0: f32, cx1: f32, cy1: f32, x: f32, y: f32) {
        self.0.push((3, [cx0.to_bits(), cy0.to_bits(), cx1.to_bits(), cy1.to_bits(), x.to_bits(), y.to_bits()]));
    }
    fn close(&mut self) {
        self.0.push((4, [0; 6]));
    }
}
fn render(s: &Option<Stream>) -> String {
    match s {
        None => "draw error / no outline".into(),
        Some(s) => {
            let mut out = format!("{} elements:", s.0.len());
            for (k, a) in s.0.iter().take(12) {
                let f = |i: usize| f32::from_bits(a[i]);
                out.push_str(&match k {
                    0 => format!(" M{},{}", f(0), f(1)),
                    1 => format!(" L{},{}", f(0), f(1)),
                    2 => format!(" Q{},{} {},{}", f(0), f(1), f(2), f(3)),
                    3 => format!(" C{},{} {},{} {},{}", f(0), f(1), f(2), f(3), f(4), f(5)),
                    _ => " Z".into(),
                });
            }
            out
        }
    }
}

fn fail(pass: &str, sig: &str, msg: String) -> Fail {
    Fail::new(format!("c17|{pass}{sig}"), msg)
}

enum ReqChars {
    All,
    Set(BTreeSet<u32>),
}
impl ReqChars {
    fn contains(&self, c: u32) -> bool {
        match self {
            ReqChars::All => true,
            ReqChars::Set(s) => s.contains(&c),
        }
    }
}
enum ReqGids {
    All,
    Set(BTreeSet<u32>),
}
impl ReqGids {
    fn contains(&self, g: u32) -> bool {
        match self {
            ReqGids::All => true,
            ReqGids::Set(s) => s.contains(&g),
        }
    }
}

fn run_klippa(font: &FontRef, chars: &ReqChars, gids: &ReqGids, flags: u16) -> (Result<Vec<u8>, String>, Vec<(u32, u32)>) {
    let unicodes: IntSet<u32> = match chars {
        ReqChars::All => IntSet::all(),
        ReqChars::Set(s) => s.iter().copied().collect(),
    };
    let glyphs: IntSet<GlyphId> = match gids {
        ReqGids::All => IntSet::all(),
        ReqGids::Set(s) => s.iter().map(|g| GlyphId::new(*g)).collect(),
    };
    // defaults of the klippa command line (klippa/src/main.rs)
    let drop_tables: IntSet<Tag> = [
        klippa::MORX,
        klippa::MORT,
        klippa::KERX,
        klippa::KERN,
        klippa::JSTF,
        klippa::DSIG,
        Tag::new(b"EBDT"),
        Tag::new(b"EBLC"),
        klippa::EBSC,
        Tag::new(b"SVG "),
        klippa::PCLT,
        klippa::LTSH,
        Tag::new(b"feat"),
        klippa::GLAT,
        klippa::GLOC,
        klippa::SILF,
        klippa::SILL,
    ]
    .into_iter()
    .collect();
    let mut layout_scripts = IntSet::<Tag>::empty();
    layout_scripts.invert();
    let layout_features: IntSet<Tag> = klippa::DEFAULT_LAYOUT_FEATURES.iter().copied().collect();
    let mut name_ids = IntSet::<NameId>::empty();
    name_ids.insert_range(NameId::from(0)..=NameId::from(6));
    let mut name_languages = IntSet::<u16>::empty();
    name_languages.insert(0x0409);
    let plan = klippa::Plan::new(
        &glyphs,
        &unicodes,
        font,
        klippa::SubsetFlags::from(flags),
        &drop_tables,
        &layout_scripts,
        &layout_features,
        &name_ids,
        &name_languages,
    );
    let map = plan.verif_glyph_map();
    (klippa::subset_font(font, &plan).map_err(|e| e.to_string()), map)
}

/// One side of a comparison: a font with its skrifa character mappings and glyf component lists.
struct Side<'a> {
    font: FontRef<'a>,
    n: u32,
    maps: &'a [(u32, u32)],
    comps: &'a [Vec<u32>],
}

struct PassOut {
    /// first failure attributed to a listed defect of the output regime (reported after everything else was checked)
    soft: Option<Fail>,
    bytes: Vec<u8>,
    map: Vec<(u32, u32)>,
    kept_composite: bool,
    kept_variable: bool,
    dropped: bool,
    compared: usize,
}

fn coords_of(loc: &[i16]) -> Vec<F2Dot14> {
    loc.iter().map(|v| F2Dot14::from_bits((*v).clamp(-16384, 16384))).collect()
}

/// All predicates of the statement between font `a` and the result of subsetting it with (chars, gids, flags).
#[allow(clippy::too_many_arguments)]
fn check_pass(
    font: &str,
    pass: &str,
    a: &Side,
    chars: &ReqChars,
    gids: &ReqGids,
    c: &Case,
    check_chars: bool,
    var_glyphs: &[u32],
    stats: &Stats,
) -> Result<PassOut, Fail> {
    let flags = c.flags;
    let retain = flags & F_RETAIN_GIDS != 0;
    let (res, map) = guarded(|| run_klippa(&a.font, chars, gids, flags))?;
    // the signature names the table whose subsetting failed
    // signatures of listed findings carry the font: a different defect on another font is still reported
    let fpass = if pass.starts_with(font) { pass.to_string() } else { format!("{font}|{pass}") };
    let fpass = fpass.as_str();
    let bytes = res.map_err(|e| fail(fpass, &format!("subset-err|{}", e.split('\'').nth(1).unwrap_or("?").trim()), format!("subset_font returned Err: {e}")))?;
    if let Ok(dir) = std::env::var("C17_DUMP") {
        // debugging aid for replays: keep the subset files
        let _ = std::fs::write(format!("{dir}/{}subset.ttf", pass.replace('|', "_")), &bytes);
    }
    let b = FontRef::new(&bytes).map_err(|e| fail(pass, "open", format!("the subset does not open: {e}")))?;
    for t in [b"glyf", b"loca", b"maxp", b"head", b"hhea", b"hmtx"] {
        if b.table_data(Tag::new(t)).is_none() {
            return Err(fail(pass, "open", format!("the subset has no {} table", String::from_utf8_lossy(t))));
        }
    }
    let bn = b.maxp().map_err(|e| fail(pass, "open", format!("maxp of the subset unreadable: {e}")))?.num_glyphs() as u32;
    // Listed finding: HVAR silently dropped. Failures of the affected predicates then carry the font and the cause in
    // their signature, and the remaining predicates are still checked (reported at the end of the case).
    let big_glyf = b.table_data(Tag::new(b"glyf")).map(|d| d.len() >= 0x10000).unwrap_or(false);
    let regime_hvar = a.font.table_data(Tag::new(b"HVAR")).is_some() && b.table_data(Tag::new(b"HVAR")).is_none();
    let mut soft: Option<Fail> = None;

    // --- the renumbering
    let mut new_ids = BTreeSet::new();
    let mut kept: BTreeMap<u32, u32> = BTreeMap::new();
    for (old, new) in &map {
        if !new_ids.insert(*new) || kept.insert(*old, *new).is_some() {
            return Err(fail(pass, "map-injective", format!("glyph map is not one-to-one at {old}->{new}")));
        }
        if *new >= bn {
            return Err(fail(pass, "glyph-count", format!("kept glyph {old} -> {new} but the subset has numGlyphs {bn}")));
        }
        if retain && old != new {
            return Err(fail(pass, "retain-gids", format!("RETAIN_GIDS: glyph {old} renumbered to {new}")));
        }
    }
    if !retain && bn as usize != map.len() {
        return Err(fail(pass, "glyph-count", format!("maxp.numGlyphs {bn} but {} glyphs kept", map.len())));
    }
    if retain && bn > a.n.max(map.last().map(|m| m.0 + 1).unwrap_or(1)) {
        return Err(fail(pass, "glyph-count", format!("RETAIN_GIDS: numGlyphs {bn} exceeds the original {}", a.n)));
    }

    // --- kept set ⊇ requested ∪ {0} ∪ glyphs of requested characters ∪ component closure
    let mut required: BTreeSet<u32> = BTreeSet::new();
    required.insert(0);
    match gids {
        ReqGids::All => required.extend(0..a.n),
        ReqGids::Set(s) => required.extend(s.iter().copied().filter(|g| *g < a.n)),
    }
    let acm = a.font.charmap();
    match chars {
        ReqChars::All => required.extend(a.maps.iter().map(|m| m.1).filter(|g| *g < a.n)),
        ReqChars::Set(s) => {
            for ch in s {
                if let Some(g) = acm.map(*ch) {
                    if g.to_u32() < a.n {
                        required.insert(g.to_u32());
                    }
                }
            }
        }
    }
    let mut stack: Vec<u32> = required.iter().copied().collect();
    while let Some(g) = stack.pop() {
        for k in a.comps.get(g as usize).map(|v| v.as_slice()).unwrap_or(&[]) {
            if *k < a.n && required.insert(*k) {
                stack.push(*k);
            }
        }
    }
    for g in &required {
        if !kept.contains_key(g) {
            return Err(fail(pass, "kept-set", format!("glyph {g} (requested, .notdef, or a component of a requested glyph) is not kept; kept {} glyphs", kept.len())));
        }
    }

    // --- characters
    if check_chars {
        let bcm = b.charmap();
        let mut char_fail: Option<Fail> = None;
        let check_one = |ch: u32| -> CaseResult {
            let want = acm.map(ch).map(|g| g.to_u32());
            let want_new = match want {
                None => None,
                Some(g) => Some(*kept.get(&g).ok_or_else(|| fail(pass, "kept-set", format!("glyph {g} of requested char U+{ch:04X} is not kept")))?),
            };
            let got = bcm.map(ch).map(|g| g.to_u32());
            if got != want_new {
                return Err(fail(
                    pass,
                    "requested-char",
                    format!("requested U+{ch:04X}: original glyph {want:?} -> expected new glyph {want_new:?}, the subset maps it to {got:?}"),
                ));
            }
            Ok(())
        };
        match chars {
            ReqChars::All => {
                for (ch, _) in a.maps {
                    if let Err(f) = check_one(*ch) {
                        char_fail.get_or_insert(f);
                    }
                }
            }
            ReqChars::Set(s) => {
                for ch in s {
                    if let Err(f) = check_one(*ch) {
                        char_fail.get_or_insert(f);
                    }
                }
            }
        }
        if let Some(f) = char_fail.take() {
            return Err(f);
        }
        for (ch, g) in bcm.mappings() {
            let og = acm.map(ch).map(|g| g.to_u32());
            let requested = chars.contains(ch) || og.map(|g| gids.contains(g)).unwrap_or(false);
            if !requested {
                return Err(fail(pass, "extra-char", format!("U+{ch:04X} is mapped in the subset (to {g}) although neither it nor its glyph {og:?} was requested")));
            }
            let want_new = og.and_then(|g| kept.get(&g).copied());
            if want_new != Some(g.to_u32()) {
                return Err(fail(pass, "kept-char-glyph", format!("U+{ch:04X}: original glyph {og:?} -> {want_new:?}, the subset maps it to {g}")));
            }
        }
    }

    // --- glyphs: outline, advance, side bearing at every (size, location)
    let kept_list: Vec<(u32, u32)> = kept.iter().map(|(o, n)| (*o, *n)).collect();
    let mut chosen: BTreeSet<usize> = BTreeSet::new();
    if kept_list.len() <= GLYPH_CAP {
        chosen.extend(0..kept_list.len());
    } else {
        chosen.insert(0);
        chosen.insert(kept_list.len() - 1);
        // composites first (at most a third), then an evenly spread selection rotated by `pick`
        let comp_idx: Vec<usize> = (0..kept_list.len()).filter(|i| a.comps.get(kept_list[*i].0 as usize).map(|v| !v.is_empty()).unwrap_or(false)).collect();
        if !comp_idx.is_empty() {
            let take = comp_idx.len().min(GLYPH_CAP / 3);
            let start = c.pick as usize % comp_idx.len();
            for k in 0..take {
                chosen.insert(comp_idx[(start + k * comp_idx.len() / take) % comp_idx.len()]);
            }
        }
        let len = kept_list.len();
        let start = (c.pick as usize / 7) % len;
        let mut k = 0usize;
        while chosen.len() < GLYPH_CAP && k < GLYPH_CAP * 2 {
            chosen.insert((start + k * len / GLYPH_CAP) % len);
            k += 1;
        }
    }
    let mut sizes = vec![Size::unscaled()];
    sizes.extend(c.ppems.iter().take(3).map(|p| Size::new(*p)));
    let naxes = a.font.axes().len();
    let mut locs: Vec<Vec<F2Dot14>> = vec![vec![]];
    if naxes > 0 {
        locs.extend(c.locs.iter().take(10).map(|l| {
            let mut v = coords_of(l);
            v.resize(naxes, F2Dot14::ZERO);
            v
        }));
    }
    let ao = a.font.outline_glyphs();
    let bo = b.outline_glyphs();
    let notdef_outline = flags & F_NOTDEF_OUTLINE != 0;
    let mut compared = 0usize;
    for loc in &locs {
        for size in &sizes {
            let am = a.font.glyph_metrics(*size, LocationRef::new(loc));
            let bm = b.glyph_metrics(*size, LocationRef::new(loc));
            for i in &chosen {
                let (old, new) = kept_list[*i];
                let (og, ng) = (GlyphId::new(old), GlyphId::new(new));
                let at = || format!("glyph {old}->{new} at size {size:?} location {:?}", loc.iter().map(|v| v.to_f32()).collect::<Vec<_>>());
                if old != 0 || notdef_outline {
                    let da = ao.get(og).and_then(|g| {
                        let mut s = Stream::default();
                        g.draw(DrawSettings::unhinted(*size, LocationRef::new(loc)), &mut s).ok().map(|_| s)
                    });
                    if da.is_some() {
                        let db = bo.get(ng).and_then(|g| {
                            let mut s = Stream::default();
                            g.draw(DrawSettings::unhinted(*size, LocationRef::new(loc)), &mut s).ok().map(|_| s)
                        });
                        if da != db {
                            let msg = format!("{}: original [{}] subset [{}]", at(), render(&da), render(&db));
                            let regime = if !notdef_outline && uses_glyph_zero(a.comps, old) {
                                "outline|glyph-0-is-a-component"
                            } else if regime_hvar && !loc.is_empty() {
                                "outline|HVAR-dropped"
                            } else {
                                return Err(fail(pass, "outline", msg));
                            };
                            soft.get_or_insert(fail(fpass, regime, msg));
                        }
                        compared += 1;
                    } else {
                        stats.class("original-glyph-does-not-draw");
                    }
                }
                let (wa, wb) = (am.advance_width(og), bm.advance_width(ng));
                if wa.map(f32::to_bits) != wb.map(f32::to_bits) {
                    let msg = format!("{}: advance {wa:?} became {wb:?}", at());
                    if !regime_hvar || loc.is_empty() {
                        return Err(fail(pass, "advance", msg));
                    }
                    soft.get_or_insert(fail(fpass, "advance|HVAR-dropped", msg));
                }
                let (la, lb) = (am.left_side_bearing(og), bm.left_side_bearing(ng));
                if la.map(f32::to_bits) != lb.map(f32::to_bits) {
                    let msg = format!("{}: left side bearing {la:?} became {lb:?}", at());
                    if !regime_hvar || loc.is_empty() {
                        return Err(fail(pass, "lsb", msg));
                    }
                    soft.get_or_insert(fail(fpass, "lsb|HVAR-dropped", msg));
                }
            }
        }
    }
    stats.evals(compared as u64);
    let kept_composite = kept.keys().any(|g| a.comps.get(*g as usize).map(|v| !v.is_empty()).unwrap_or(false));
    let kept_variable = var_glyphs.iter().any(|g| kept.contains_key(g));
    if big_glyf && !pass.starts_with(font) {
        stats.class(&format!("{pass}subset-glyf>=64K"));
    }
    if cmap4_range_offset_segments(&b) >= 2 && !pass.starts_with(font) {
        stats.class(&format!("{pass}subset-cmap4-several-range-offset-segments"));
    }
    if regime_hvar {
        stats.class("regime:HVAR-dropped");
    }
    Ok(PassOut { soft, dropped: (kept.len() as u32) < a.n, bytes, map, kept_composite, kept_variable, compared })
}

/// does glyph `g` have glyph 0 among its (transitive) components
fn uses_glyph_zero(comps: &[Vec<u32>], g: u32) -> bool {
    let mut seen = BTreeSet::new();
    let mut stack = vec![g];
    while let Some(x) = stack.pop() {
        for k in comps.get(x as usize).map(|v| v.as_slice()).unwrap_or(&[]) {
            if *k == 0 {
                return true;
            }
            if seen.insert(*k) {
                stack.push(*k);
            }
        }
    }
    false
}

/// largest number of segments with a non-zero idRangeOffset in a format 4 subtable of the font's cmap
fn cmap4_range_offset_segments(font: &FontRef) -> usize {
    let Ok(cmap) = font.cmap() else { return 0 };
    let mut most = 0;
    for rec in cmap.encoding_records() {
        if let Ok(read_fonts::tables::cmap::CmapSubtable::Format4(t)) = rec.subtable(cmap.offset_data()) {
            most = most.max(t.id_range_offsets().iter().filter(|o| o.get() != 0).count());
        }
    }
    most
}

fn requests_of(c: &Case) -> (ReqChars, ReqGids) {
    (
        if c.star_chars { ReqChars::All } else { ReqChars::Set(c.chars.iter().copied().collect()) },
        if c.star_gids { ReqGids::All } else { ReqGids::Set(c.gids.iter().copied().collect()) },
    )
}

fn test_with(c: &Case, stats: &Stats, kf_stage: bool) -> CaseResult {
    let Some(info) = font_named(&c.font) else {
        if kf_stage {
            return Ok(()); // the font of a listed finding is no longer in the corpus
        }
        return Err(Fail::new("c17|setup", format!("font {} is not in the corpus", c.font)));
    };
    let orig = info.font();
    let (chars, gids) = requests_of(c);
    let a = Side { font: orig, n: info.n, maps: &info.maps, comps: &info.comps };
    let check_chars = !info.kf_cmap || kf_stage;
    let pass_tag = if kf_stage { format!("{}|", info.name) } else { String::new() };
    let p1 = check_pass(&info.name, &pass_tag, &a, &chars, &gids, c, check_chars, &info.var_glyphs, stats)?;
    if kf_stage {
        return Ok(());
    }
    // --- subsetting the subset again with the same (translated) request changes nothing: every predicate holds again
    // between the first subset and the second (hence, by the first pass, between the original and the second)
    let mut soft = p1.soft.clone();
    if check_chars && soft.is_none() {
        let sub = FontRef::new(&p1.bytes).map_err(|e| fail("", "open", format!("{e}")))?;
        let map1: BTreeMap<u32, u32> = p1.map.iter().copied().collect();
        let gids2 = match &gids {
            ReqGids::All => ReqGids::All,
            ReqGids::Set(s) => ReqGids::Set(
                s.iter()
                    .filter_map(|g| if *g < info.n { map1.get(g).copied() } else { Some(*g) })
                    .collect(),
            ),
        };
        let sn = sub.maxp().map(|m| m.num_glyphs() as u32).unwrap_or(0);
        let smaps = charmap_mappings(&sub);
        let (scomps, _, _) = parse_components(&sub).ok_or_else(|| fail("resubset|", "open", "glyf/loca of the subset unreadable".into()))?;
        let sa = Side { font: sub, n: sn, maps: &smaps, comps: &scomps };
        let p2 = check_pass(&info.name, "resubset|", &sa, &chars, &gids2, c, true, &[], stats)?;
        soft = p2.soft;
        stats.class("resubset-checked");
    } else if !check_chars {
        stats.class("excluded_known");
    }
    if let Some(f) = soft {
        return Err(f);
    }

    // --- evidence
    let everything = !p1.dropped;
    stats.class(if everything { "kept=everything" } else if p1.map.len() == 1 { "kept=notdef-only" } else { "kept=proper-subset" });
    stats.class(if matches!(&gids, ReqGids::Set(s) if s.is_empty()) && matches!(&chars, ReqChars::Set(s) if (s.len() as u32) < info.n) {
        "plan-path=characters-only"
    } else {
        "plan-path=glyph-ids-or-many-characters"
    });
    for (bit, name) in [(F_NO_HINTING, "flag:NO_HINTING"), (F_RETAIN_GIDS, "flag:RETAIN_GIDS"), (F_SET_OVERLAPS, "flag:SET_OVERLAPS_FLAG"), (F_NOTDEF_OUTLINE, "flag:NOTDEF_OUTLINE")] {
        if c.flags & bit != 0 {
            stats.class(name);
        }
    }
    if OTHER_FLAGS.iter().any(|f| c.flags & f != 0) {
        stats.class("flag:unimplemented-one");
    }
    if p1.kept_composite {
        stats.class("kept-composite");
    }
    if p1.kept_variable {
        stats.class("kept-variable-glyph");
    }
    if info.naxes > 0 {
        stats.class("font=variable");
    }
    if c.star_chars || c.star_gids {
        stats.class("request-uses-*");
    }
    if let ReqGids::Set(s) = &gids {
        if s.iter().any(|g| *g >= info.n) {
            stats.class("gid-not-in-font");
        }
    }
    if let ReqChars::Set(s) = &chars {
        if s.iter().any(|ch| info.maps.binary_search_by_key(ch, |m| m.0).is_err()) {
            stats.class("char-not-in-font");
        }
    }
    if p1.map.len() > GLYPH_CAP {
        stats.class("glyphs-sampled(cap)");
    }
    if bytes_loca_long(&p1.bytes) {
        stats.class("subset-long-loca");
    }
    if p1.dropped && (p1.kept_composite || p1.kept_variable) {
        stats.nontrivial(hash_json(&(&c.font, &c.chars, &c.gids, c.star_chars, c.star_gids, c.flags)));
        if stats.want_sample() {
            stats.sample(serde_json::json!({"font": c.font, "chars": c.chars.len(), "gids": c.gids.len(), "flags": format!("{:#06x}", c.flags),
                "kept": p1.map.len(), "of": info.n, "outlines_compared": p1.compared, "ppems": c.ppems, "locations": c.locs}));
        }
    }
    Ok(())
}

fn bytes_loca_long(bytes: &[u8]) -> bool {
    FontRef::new(bytes).ok().and_then(|f| f.head().ok().map(|h| h.index_to_loc_format() != 0)).unwrap_or(false)
}

fn test(c: &Case, stats: &Stats) -> CaseResult {
    test_with(c, stats, false)
}
fn test_kf(c: &Case, stats: &Stats) -> CaseResult {
    // the two listed findings are reproduced with font-keyed signatures; everything else is a plain regression case
    let listed = KF_CMAP_FONTS.contains(&c.font.as_str()) || c.font == KF_ADOBE_BLANK;
    if !listed && font_named(&c.font).is_none() {
        return Ok(());
    }
    test_with(c, stats, listed)
}

/// glyph ids 0..k of a font, k chosen so that their glyf data just exceeds `bytes`
fn prefix_gids(font: &str, bytes: u64) -> Vec<u32> {
    let Some(f) = font_named(font) else { return vec![] };
    let mut sum = 0u64;
    let mut out = vec![];
    for g in 0..f.n {
        out.push(g);
        sum += f.glen[g as usize] as u64 + (f.glen[g as usize] & 1) as u64;
        if sum > bytes {
            break;
        }
    }
    out
}

const KF_ADOBE_BLANK: &str = "AdobeBlank-Regular.ttf";
const KF_CASES: u64 = 19;

/// 0..10  fonts of KF_CMAP_FONTS: k = 1 + j % 5 of the mapped characters, with and without RETAIN_GIDS (listed finding);
/// 10     AdobeBlank-Regular.ttf, every second glyph id below 400 (each glyph carries ~540 characters: the subset
///        cmap needs ~100k single-character groups) (listed finding);
/// 11..   regression cases of two repaired defects, run through the full oracle (they must pass): subsets whose glyf
///        table is 64..128 KB (short loca, offsets beyond 16 bits) or larger (long loca, odd glyph lengths), and
///        subsets whose cmap format 4 needs several range-offset segments.
fn kf_case(i: u64) -> Case {
    let blank = Case { font: String::new(), chars: vec![], gids: vec![], star_chars: false, star_gids: false, flags: 0, ppems: vec![16.0], locs: vec![], pick: 0 };
    let all_chars = |font: &str| -> Vec<u32> { font_named(font).map(|f| f.maps.iter().map(|m| m.0).collect()).unwrap_or_default() };
    let all_gids = |font: &str| -> Vec<u32> { font_named(font).map(|f| (0..f.n).collect()).unwrap_or_default() };
    match i {
        10 => return Case { font: KF_ADOBE_BLANK.into(), gids: (0..400).step_by(2).collect(), ..blank },
        11 => return Case { font: "IndicTestHowrah-Regular.ttf".into(), gids: prefix_gids("IndicTestHowrah-Regular.ttf", 66_000), flags: F_RETAIN_GIDS, ..blank },
        12 => return Case { font: "Roboto-Regular.ttf".into(), gids: prefix_gids("Roboto-Regular.ttf", 70_000), pick: 77, ..blank },
        13 => return Case { font: "DejaVuSans.ttf".into(), gids: prefix_gids("DejaVuSans.ttf", 100_000), flags: F_NOTDEF_OUTLINE, pick: 1234, ..blank },
        14 => return Case { font: "DejaVuSans.ttf".into(), gids: all_gids("DejaVuSans.ttf"), chars: all_chars("DejaVuSans.ttf"), pick: 99, ..blank },
        15 => return Case { font: "DejaVuSerif.ttf".into(), gids: prefix_gids("DejaVuSerif.ttf", 140_000), flags: F_RETAIN_GIDS | F_NO_HINTING, pick: 5, ..blank },
        16 => return Case { font: "BungeeColor-Regular.ttf".into(), gids: all_gids("BungeeColor-Regular.ttf"), chars: all_chars("BungeeColor-Regular.ttf"), flags: F_NOTDEF_OUTLINE, ..blank },
        17 => return Case { font: "ahem.ttf".into(), chars: all_chars("ahem.ttf"), ..blank },
        18 => return Case { font: "BungeeColor-Regular.ttf".into(), gids: (0..868).step_by(2).collect(), flags: F_NOTDEF_OUTLINE, ..blank },
        _ => {}
    }
    let kf: Vec<&FontInfo> = fonts().iter().filter(|f| f.kf_cmap).collect();
    if kf.is_empty() {
        return blank;
    }
    let f = kf[(i as usize) % kf.len()];
    let j = i as usize / kf.len();
    let k = 1 + j % 5;
    let start = (j / 5 * 3) % f.maps.len().max(1);
    let chars = f.maps.iter().skip(start).take(k).map(|m| m.0).collect();
    let flags = if j % 2 == 0 { 0 } else { F_RETAIN_GIDS };
    Case { font: f.name.clone(), chars, flags, ..blank }
}

fn main() {
    let ctx = Ctx::from_args("C17");
    ctx.set_rule("font drawn uniformly from the corpus fonts with glyf/loca/cmap/maxp/head/hhea/hmtx (TTC members included); characters = a selection of the font's own skrifa character mappings (none / one / a few scattered / a contiguous run / a fraction / every k-th / all) plus 0-3 code points from fixed ranges (mostly not in the font); glyph ids = the same selection shapes over 0..numGlyphs or over the font's composite / gvar-carrying glyphs, plus 0-3 ids >= numGlyphs; flags = any of the 16 combinations of NO_HINTING, RETAIN_GIDS, SET_OVERLAPS_FLAG, NOTDEF_OUTLINE, with one unimplemented flag added in a quarter of the cases; 1-2 ppem values and (variable fonts) 1-2 normalized locations; stage `hvar` (variable fonts): 2-18 glyphs taken in unequal numbers from different ItemVariationData subtables of the HVAR advance mapping (any 2-8 glyphs with gvar data when HVAR has one subtable or is absent), observed at all-axes-min / max / mid / +-0.5 and single-axis extremes; stage `everything` requests the whole font (explicit lists or `*`). Non-trivial: the request drops at least one glyph and keeps at least one composite glyph or glyph with gvar data; distinct by hash of (font, request, flags).");
    ctx.assume("skrifa's charmap, unhinted scaler and glyph metrics are the observation on both sides (their correctness is C03/C08/C12's business); the component closure comes from a glyf/loca parser in the harness; the old->new glyph renumbering is read from Plan::verif_glyph_map (hook H3)");
    if fonts().is_empty() {
        ctx.infra_error("no eligible corpus font".into());
    }
    ctx.note(
        "fonts",
        serde_json::json!(fonts()
            .iter()
            .map(|f| serde_json::json!({"name": f.name, "glyphs": f.n, "chars": f.maps.len(), "composites": f.composites.len(), "gvar_glyphs": f.var_glyphs.len(), "axes": f.naxes, "hvar_adv_subtables": f.hvar_groups.iter().filter(|g| !g.is_empty()).count()}))
            .collect::<Vec<_>>()),
    );
    ctx.prop_stage("request", Isolation::Threads, ctx.n(14_000, 120_000), strategy, test);
    ctx.prop_stage("hvar", Isolation::Threads, ctx.n(1_200, 12_000), hvar_strategy, test);
    ctx.prop_stage("everything", Isolation::Threads, ctx.n(800, 6_000), everything_strategy, test);
    ctx.index_stage("kf", Isolation::Threads, KF_CASES, kf_case, test_kf);
    ctx.finish();
}
