//! C16 — layout builders and overflow splitting preserve glyph-level lookup semantics.
//!
//! Stage `sets`: CoverageTableBuilder / ClassDefBuilder / FromIterator against BTreeSet models, every glyph 0..=65535.
//! Stages `gpos-*`: PairPos / MarkToBase rule sets -> public builders -> `Gpos` -> `dump_table` -> reference lookup
//! walker over the compiled bytes (read-fonts accessors only) versus the rule model.
use proptest::prelude::*;
use read_fonts::{
    collections::IntSet,
    tables::{gpos as rg, layout as rl, variations as rv},
    types::{F2Dot14, GlyphId, GlyphId16},
    FontData, FontRead,
};
use serde::{Deserialize, Serialize};
use std::collections::{BTreeMap, BTreeSet};
use vcore::*;
use write_fonts::{
    dump_table,
    tables::{
        gpos::{
            builders::{AnchorBuilder, CursivePosBuilder, MarkToBaseBuilder, MarkToLigBuilder, MarkToMarkBuilder, PairPosBuilder, SinglePosBuilder, ValueRecordBuilder},
            Gpos, PositionLookup, PositionLookupList,
        },
        layout::{
            builders::{Builder, ClassDefBuilder, CoverageTableBuilder, DeviceOrDeltas, LookupBuilder, Metric},
            ClassDef, CoverageTable, Device, FeatureList, LookupFlag, ScriptList,
        },
        variations::{
            ivs_builder::{RemapVariationIndices, VariationStoreBuilder},
            RegionAxisCoordinates, VariationRegion,
        },
    },
};

fn fail(sig: &str, msg: String) -> Fail {
    Fail::new(format!("c16|{sig}"), msg)
}
fn rd<T>(r: Result<T, read_fonts::ReadError>, what: &str) -> Result<T, Fail> {
    r.map_err(|e| fail("read-error", format!("{what}: {e}")))
}
fn lcg(p: &mut u64) -> u64 {
    *p = p.wrapping_mul(6364136223846793005).wrapping_add(1442695040888963407);
    *p >> 33
}
/// permutation derived from a case value (not a source of randomness of its own)
fn shuffle<T>(v: &mut [T], mut p: u64) {
    for i in (1..v.len()).rev() {
        let j = (lcg(&mut p) as usize) % (i + 1);
        v.swap(i, j);
    }
}
fn intset(gs: impl IntoIterator<Item = u16>) -> IntSet<GlyphId16> {
    gs.into_iter().map(GlyphId16::new).collect()
}
/// at most `max` elements of a sorted list, evenly spread, phase chosen by `off`
fn sample(v: &[u16], max: usize, off: u32) -> Vec<u16> {
    if v.len() <= max || max == 0 {
        return v.to_vec();
    }
    let o = off as usize % (v.len() / max);
    (0..max).map(|k| v[k * v.len() / max + o]).collect()
}

// =================================================================================================================
// glyph strategies
// =================================================================================================================
fn glyph() -> BoxedStrategy<u16> {
    prop_oneof![
        4 => 0u16..400,
        2 => 400u16..5000,
        1 => any::<u16>(),
        1 => prop_oneof![Just(0u16), Just(1), Just(65535), Just(65534), Just(32767), Just(32768)],
    ]
    .boxed()
}

#[derive(Clone, Debug, Serialize, Deserialize)]
struct GSpec {
    /// (start, extra): start..=start+extra (saturating)
    runs: Vec<(u16, u16)>,
    singles: Vec<u16>,
    /// (start, count, step): start, start+step, ...
    combs: Vec<(u16, u16, u8)>,
}
fn gset(s: &GSpec) -> BTreeSet<u16> {
    let mut out = BTreeSet::new();
    for &(a, n) in &s.runs {
        for g in a..=a.saturating_add(n) {
            out.insert(g);
        }
    }
    out.extend(s.singles.iter().copied());
    for &(a, n, st) in &s.combs {
        for k in 0..n as u32 {
            let g = a as u32 + k * (st.max(1) as u32);
            if g > 65535 {
                break;
            }
            out.insert(g as u16);
        }
    }
    out
}
fn run_len() -> BoxedStrategy<u16> {
    prop_oneof![3 => 0u16..4, 3 => 0u16..40, 1 => 0u16..700].boxed()
}
fn gspec() -> BoxedStrategy<GSpec> {
    let sparse = proptest::collection::vec(glyph(), 0..40).prop_map(|singles| GSpec { runs: vec![], singles, combs: vec![] });
    let runs = (proptest::collection::vec((glyph(), run_len()), 1..6), proptest::collection::vec(glyph(), 0..6))
        .prop_map(|(runs, singles)| GSpec { runs, singles, combs: vec![] });
    let dense = (glyph(), 300u16..9000, proptest::collection::vec(glyph(), 0..4)).prop_map(|(a, n, singles)| GSpec { runs: vec![(a, n)], singles, combs: vec![] });
    let comb = (proptest::collection::vec((glyph(), 1u16..400, 1u8..5), 1..3), proptest::collection::vec((glyph(), run_len()), 0..3))
        .prop_map(|(combs, runs)| GSpec { runs, singles: vec![], combs });
    let all = (0u16..3, 65000u16..=65535).prop_map(|(a, n)| GSpec { runs: vec![(a, n)], singles: vec![], combs: vec![] });
    prop_oneof![4 => sparse, 4 => runs, 2 => dense, 3 => comb, 1 => all].boxed()
}

// =================================================================================================================
// stage `sets`
// =================================================================================================================
#[derive(Clone, Debug, Serialize, Deserialize)]
struct CovSpec {
    set: GSpec,
    /// 0 from_glyphs, 1 collect::<CoverageTableBuilder>, 2 add() sequence, 3 collect::<CoverageTable>, 4 CoverageTable::from(Vec)
    how: u8,
    perm: u64,
}
#[derive(Clone, Debug, Serialize, Deserialize)]
struct ClsSpec {
    /// partition pieces (start, extra, class); first piece wins per glyph
    pieces: Vec<(u16, u16, u8)>,
    /// (start, count, step, classes): glyph k of the comb goes to class 100 + k % classes
    comb: Option<(u16, u16, u8, u8)>,
    /// arbitrary candidate sets pushed in between (may overlap, may repeat)
    extras: Vec<(u8, GSpec)>,
    /// indices of partition classes offered a second time
    dups: Vec<u8>,
    use0: bool,
    perm: u64,
}
#[derive(Clone, Debug, Serialize, Deserialize)]
struct RawSpec {
    pieces: Vec<(u16, u16, u16)>,
    comb: Option<(u16, u16, u8, u8)>,
    perm: u64,
}
#[derive(Clone, Debug, Serialize, Deserialize)]
struct SetsCase {
    covs: Vec<CovSpec>,
    cls: Vec<ClsSpec>,
    raw: Vec<RawSpec>,
}

fn sets_strategy() -> impl Strategy<Value = SetsCase> {
    let cov = (gspec(), 0u8..5, any::<u64>()).prop_map(|(set, how, perm)| CovSpec { set, how, perm });
    let comb = proptest::option::weighted(0.4, (glyph(), 1u16..600, 1u8..4, 1u8..9));
    let cls = (
        proptest::collection::vec((glyph(), run_len(), 0u8..8), 0..10),
        comb.clone(),
        proptest::collection::vec((any::<u8>(), gspec()), 0..3),
        proptest::collection::vec(any::<u8>(), 0..3),
        any::<bool>(),
        any::<u64>(),
    )
        .prop_map(|(pieces, comb, extras, dups, use0, perm)| ClsSpec { pieces, comb, extras, dups, use0, perm });
    let class_val = prop_oneof![4 => 0u16..5, 1 => any::<u16>(), 1 => Just(65535u16)];
    let raw = (proptest::collection::vec((glyph(), run_len(), class_val), 0..12), comb, any::<u64>()).prop_map(|(pieces, comb, perm)| RawSpec { pieces, comb, perm });
    (proptest::collection::vec(cov, 1..3), proptest::collection::vec(cls, 1..3), proptest::collection::vec(raw, 0..2))
        .prop_map(|(covs, cls, raw)| SetsCase { covs, cls, raw })
}

fn check_cov(spec: &CovSpec, stats: &Stats, fmts: &mut [bool; 2]) -> CaseResult {
    let set = gset(&spec.set);
    let sorted: Vec<u16> = set.iter().copied().collect();
    let mut list = sorted.clone();
    for (i, g) in sorted.iter().enumerate() {
        if i % 5 == 3 {
            list.push(*g);
        }
    }
    shuffle(&mut list, spec.perm);
    let gl: Vec<GlyphId16> = list.iter().map(|g| GlyphId16::new(*g)).collect();
    let how = if spec.how == 2 && sorted.len() > 3000 { 0 } else { spec.how };
    let table: CoverageTable = match how {
        0 => CoverageTableBuilder::from_glyphs(gl).build(),
        1 => gl.into_iter().collect::<CoverageTableBuilder>().build(),
        2 => {
            let mut b = CoverageTableBuilder::default();
            let mut model: Vec<u16> = Vec::new();
            for g in &list {
                let want = match model.binary_search(g) {
                    Ok(i) => i,
                    Err(i) => {
                        model.insert(i, *g);
                        i
                    }
                };
                let got = b.add(GlyphId16::new(*g));
                if got as usize != want {
                    return Err(fail("cov-add-index", format!("CoverageTableBuilder::add({g}) returned {got}, the glyph's index among the glyphs added so far is {want}")));
                }
            }
            b.build()
        }
        3 => gl.into_iter().collect::<CoverageTable>(),
        _ => CoverageTable::from(gl),
    };
    stats.class(&format!("cov-how={how}"));
    // write side
    if table.len() != sorted.len() {
        return Err(fail("cov-len", format!("CoverageTable::len() = {}, set has {} glyphs", table.len(), sorted.len())));
    }
    if !table.iter().map(|g| g.to_u16()).eq(sorted.iter().copied()) {
        return Err(fail("cov-iter", format!("write-side CoverageTable::iter() differs from the sorted set ({} glyphs)", sorted.len())));
    }
    // compiled bytes
    let bytes = dump_table(&table).map_err(|e| fail("cov-dump", format!("dump_table(coverage of {} glyphs): {e}", sorted.len())))?;
    let rt = rd(rl::CoverageTable::read(FontData::new(&bytes)), "coverage")?;
    let f = match &rt {
        rl::CoverageTable::Format1(_) => 0,
        rl::CoverageTable::Format2(_) => 1,
    };
    fmts[f] = true;
    stats.class(if f == 0 { "coverage-format1" } else { "coverage-format2" });
    if !rt.iter().map(|g| g.to_u16()).eq(sorted.iter().copied()) {
        return Err(fail("cov-iter", format!("read-side CoverageTable::iter() differs from the sorted set ({} glyphs, format {})", sorted.len(), f + 1)));
    }
    let mut rank = 0usize;
    for g in 0..=65535u16 {
        let want = if rank < sorted.len() && sorted[rank] == g {
            rank += 1;
            Some((rank - 1) as u16)
        } else {
            None
        };
        let got = rt.get(GlyphId16::new(g));
        if got != want {
            return Err(fail("cov-get", format!("coverage format {} of {} glyphs: get({g}) = {got:?}, expected {want:?}", f + 1, sorted.len())));
        }
    }
    stats.evals(65536);
    for big in [65536u32, 70000, 0x10000 + sorted.first().copied().unwrap_or(0) as u32, u32::MAX >> 8] {
        if rt.get(GlyphId::new(big)).is_some() {
            return Err(fail("cov-get", format!("coverage get({big}) is Some for a glyph id beyond 16 bits")));
        }
    }
    // size (reported only)
    let ranges = sorted.iter().enumerate().filter(|(i, g)| *i == 0 || sorted[*i - 1] != g.wrapping_sub(1) || **g == 0).count();
    let best = (4 + 2 * sorted.len()).min(4 + 6 * ranges);
    if bytes.len() != best {
        stats.class("coverage-not-smallest-format(reported)");
    }
    Ok(())
}

/// `want`: glyph -> non-zero class. Checks write-side get/iter (on the interesting glyphs) and read-side get (all glyphs) / iter.
fn check_classdef(what: &str, cd: &ClassDef, want: &BTreeMap<u16, u16>, stats: &Stats, fmts: &mut [bool; 2]) -> CaseResult {
    let mut probe: BTreeSet<u16> = [0u16, 1, 65534, 65535].into_iter().collect();
    for (i, g) in want.keys().enumerate() {
        if want.len() < 600 || i % (want.len() / 300) == 0 {
            probe.insert(*g);
            probe.insert(g.wrapping_sub(1));
            probe.insert(g.wrapping_add(1));
        }
    }
    for g in &probe {
        let got = cd.get(GlyphId16::new(*g));
        let w = want.get(g).copied().unwrap_or(0);
        if got != w {
            return Err(fail("classdef-get", format!("{what}: write-side ClassDef::get({g}) = {got}, expected {w}")));
        }
    }
    let mut seen: BTreeMap<u16, u16> = BTreeMap::new();
    for (g, c) in cd.iter() {
        if c != 0 && seen.insert(g.to_u16(), c).is_some() {
            return Err(fail("classdef-iter", format!("{what}: write-side iter() yields glyph {g} twice")));
        }
    }
    if &seen != want {
        return Err(fail("classdef-iter", format!("{what}: write-side iter() yields {} classed glyphs, expected {}", seen.len(), want.len())));
    }
    let bytes = dump_table(cd).map_err(|e| fail("classdef-dump", format!("{what}: dump_table: {e}")))?;
    let rt = rd(rl::ClassDef::read(FontData::new(&bytes)), "classdef")?;
    let f = match &rt {
        rl::ClassDef::Format1(_) => 0,
        rl::ClassDef::Format2(_) => 1,
    };
    fmts[f] = true;
    stats.class(if f == 0 { "classdef-format1" } else { "classdef-format2" });
    for g in 0..=65535u16 {
        let got = rt.get(GlyphId16::new(g));
        let w = want.get(&g).copied().unwrap_or(0);
        if got != w {
            return Err(fail("classdef-get", format!("{what}: classdef format {} ({} classed glyphs): get({g}) = {got}, expected {w}", f + 1, want.len())));
        }
    }
    stats.evals(65536);
    let mut seen: BTreeMap<u16, u16> = BTreeMap::new();
    for (g, c) in rt.iter() {
        if c != 0 && seen.insert(g.to_u16(), c).is_some() {
            return Err(fail("classdef-iter", format!("{what}: read-side iter() yields glyph {g} twice")));
        }
    }
    if &seen != want {
        return Err(fail("classdef-iter", format!("{what}: read-side iter() yields {} classed glyphs, expected {}", seen.len(), want.len())));
    }
    Ok(())
}

fn partition(pieces: impl Iterator<Item = (u16, u16, u32)>, comb: &Option<(u16, u16, u8, u8)>) -> BTreeMap<u16, u32> {
    let mut of: BTreeMap<u16, u32> = BTreeMap::new();
    for (a, n, c) in pieces {
        for g in a..=a.saturating_add(n) {
            of.entry(g).or_insert(c);
        }
    }
    if let Some((a, n, st, nc)) = comb {
        for k in 0..*n as u32 {
            let g = *a as u32 + k * (*st).max(1) as u32;
            if g > 65535 {
                break;
            }
            of.entry(g as u16).or_insert(100_000 + k % (*nc).max(1) as u32);
        }
    }
    of
}

fn check_cls(spec: &ClsSpec, stats: &Stats, fmts: &mut [bool; 2]) -> CaseResult {
    let of = partition(spec.pieces.iter().map(|(a, n, c)| (*a, *n, *c as u32)), &spec.comb);
    let mut by: BTreeMap<u32, BTreeSet<u16>> = BTreeMap::new();
    for (g, c) in &of {
        by.entry(*c).or_default().insert(*g);
    }
    let mut cands: Vec<BTreeSet<u16>> = by.into_values().collect();
    shuffle(&mut cands, spec.perm);
    let n_part = cands.len();
    for d in &spec.dups {
        if n_part > 0 {
            let s = cands[*d as usize % n_part].clone();
            cands.push(s);
        }
    }
    for (pos, gs) in &spec.extras {
        let at = *pos as usize % (cands.len() + 1);
        cands.insert(at, gset(gs));
    }
    let mut b = if spec.use0 { ClassDefBuilder::new_using_class_0() } else { ClassDefBuilder::new() };
    let mut accepted: Vec<BTreeSet<u16>> = Vec::new();
    let mut all: BTreeSet<u16> = BTreeSet::new();
    for c in &cands {
        let known = accepted.contains(c);
        let want = known || c.iter().all(|g| !all.contains(g));
        let got = b.checked_add(intset(c.iter().copied()));
        if got != want {
            return Err(fail("checked-add", format!("ClassDefBuilder::checked_add of a {}-glyph class returned {got}; it is {} an already added class and {} disjoint from the glyphs added so far", c.len(), if known { "" } else { "not" }, if want && !known { "" } else { "not" })));
        }
        if want {
            stats.class(if known { "checked_add:repeat" } else { "checked_add:new" });
            if !known {
                all.extend(c.iter().copied());
                accepted.push(c.clone());
            }
        } else {
            stats.class("checked_add:rejected");
        }
    }
    let plain = b.clone().build();
    let (cd, mapping) = b.build_with_mapping();
    if plain != cd {
        return Err(fail("classdef-build-differs", "ClassDefBuilder::build() and build_with_mapping().0 differ".into()));
    }
    if mapping.len() != accepted.len() {
        return Err(fail("classdef-mapping", format!("mapping has {} classes, {} distinct classes were accepted", mapping.len(), accepted.len())));
    }
    let base = u16::from(!spec.use0);
    let mut ids: Vec<(usize, u16)> = Vec::new();
    let mut want: BTreeMap<u16, u16> = BTreeMap::new();
    for s in &accepted {
        let Some(id) = mapping.get(&intset(s.iter().copied())).copied() else {
            return Err(fail("classdef-mapping", format!("an accepted class of {} glyphs is missing from the mapping", s.len())));
        };
        if id < base || (id - base) as usize >= accepted.len() {
            return Err(fail("classdef-mapping", format!("class id {id} outside {base}..{}", base as usize + accepted.len())));
        }
        ids.push((s.len(), id));
        if id != 0 {
            for g in s {
                want.insert(*g, id);
            }
        }
    }
    let distinct: BTreeSet<u16> = ids.iter().map(|x| x.1).collect();
    if distinct.len() != ids.len() {
        return Err(fail("classdef-mapping", "two distinct classes share a class id".into()));
    }
    // id order by class size is documented builder behaviour but not part of the property: reported only
    if ids.iter().any(|a| ids.iter().any(|b| a.0 > b.0 && a.1 > b.1)) {
        stats.class("classdef-ids-not-by-decreasing-size(reported)");
    }
    stats.class(if spec.use0 { "classdef-builder:class0" } else { "classdef-builder:no-class0" });
    check_classdef(if spec.use0 { "ClassDefBuilder(class 0 used)" } else { "ClassDefBuilder" }, &cd, &want, stats, fmts)
}

fn check_raw(spec: &RawSpec, stats: &Stats, fmts: &mut [bool; 2]) -> CaseResult {
    let of = partition(spec.pieces.iter().map(|(a, n, c)| (*a, *n, *c as u32)), &spec.comb);
    let mut items: Vec<(u16, u16)> = of.iter().map(|(g, c)| (*g, if *c >= 100_000 { (*c - 100_000 + 1) as u16 } else { *c as u16 })).collect();
    shuffle(&mut items, spec.perm);
    let want: BTreeMap<u16, u16> = items.iter().filter(|x| x.1 != 0).copied().collect();
    if items.iter().any(|x| x.1 == 0) {
        stats.class("from_iter:explicit-class-0");
    }
    let cd: ClassDef = items.iter().map(|(g, c)| (GlyphId16::new(*g), *c)).collect();
    check_classdef("ClassDef::from_iter", &cd, &want, stats, fmts)
}

fn test_sets(c: &SetsCase, stats: &Stats) -> CaseResult {
    let mut fmts = [false; 2];
    for s in &c.covs {
        check_cov(s, stats, &mut fmts)?;
    }
    for s in &c.cls {
        check_cls(s, stats, &mut fmts)?;
    }
    for s in &c.raw {
        check_raw(s, stats, &mut fmts)?;
    }
    if fmts[0] && fmts[1] {
        let h = hash_json(c);
        stats.nontrivial(h);
        stats.class("nontrivial:sets");
        if h % 1500 == 0 && stats.want_sample() {
            stats.sample(serde_json::json!({"stage": "sets", "coverage_sets": c.covs.iter().map(|s| gset(&s.set).len()).collect::<Vec<_>>(), "classdef_builders": c.cls.len(), "from_iter": c.raw.len()}));
        }
    }
    Ok(())
}

// =================================================================================================================
// GPOS cases: specification types (the replay format)
// =================================================================================================================
#[derive(Clone, Debug, Serialize, Deserialize, PartialEq)]
enum DSpec {
    None,
    /// index into the device palette
    Dev(u8),
    /// index into the delta-set palette
    Var(u8),
}
#[derive(Clone, Debug, Serialize, Deserialize)]
struct MSpec {
    v: i16,
    d: DSpec,
}
/// x_placement, y_placement, x_advance, y_advance
type VSpec = [Option<MSpec>; 4];
#[derive(Clone, Debug, Serialize, Deserialize)]
struct ASpec {
    x: i16,
    y: i16,
    point: Option<u16>,
    xd: DSpec,
    yd: DSpec,
}
/// a regular family of glyph-pair rules: first glyphs g1 + a*s1 (a < n1), seconds g2 + b*s2 + shift(a) (b < n2)
#[derive(Clone, Debug, Serialize, Deserialize)]
struct PBlock {
    g1: u16,
    n1: u16,
    s1: u8,
    g2: u16,
    n2: u16,
    s2: u8,
    skew: u16,
    pal: u8,
    pal_n: u8,
    ca: u16,
    cb: u16,
    /// every first glyph gets the identical pair set (identical PairSet tables are shared in the object graph)
    same_rows: bool,
}
#[derive(Clone, Debug, Serialize, Deserialize)]
struct PartBlock {
    start: u16,
    classes: u16,
    size_a: u16,
    size_m: u16,
    stride: u8,
    interleave: bool,
}
/// a partition of some glyphs into classes (disjoint by construction: first assignment of a glyph wins)
#[derive(Clone, Debug, Serialize, Deserialize)]
struct PartSpec {
    explicit: Vec<(u16, u16, u8)>,
    block: Option<PartBlock>,
}
#[derive(Clone, Debug, Serialize, Deserialize)]
struct PB {
    explicit_first: bool,
    /// (g1, g2, palette, salt); duplicates allowed (first wins)
    pairs: Vec<(u16, u16, u8, i16)>,
    blocks: Vec<PBlock>,
    c1: PartSpec,
    c2: PartSpec,
    /// (raw class1 index, raw class2 index, palette, salt); a repeated cell is not offered twice
    crules: Vec<(u16, u16, u8, i16)>,
    /// (density/256, coef, palette, palette span): regular fill of the class1 x class2 grid
    cgrid: Option<(u8, u16, u8, u8)>,
}
#[derive(Clone, Debug, Serialize, Deserialize)]
struct MBlock {
    start: u16,
    n: u16,
    stride: u8,
    interleave: bool,
    apal: u8,
    coef: u16,
}
#[derive(Clone, Debug, Serialize, Deserialize)]
struct BBlock {
    start: u16,
    n: u16,
    stride: u8,
    density: u8,
    apal: u8,
    coef: u16,
}
#[derive(Clone, Debug, Serialize, Deserialize)]
struct MB {
    n_classes: u8,
    /// (glyph, class, anchor palette, salt); a glyph is inserted once (first mention)
    marks: Vec<(u16, u8, u8, i16)>,
    mblock: Option<MBlock>,
    /// (glyph, class, anchor palette, salt); a (glyph, class) is inserted once
    bases: Vec<(u16, u8, u8, i16)>,
    bblock: Option<BBlock>,
}
/// one ligature glyph: `comps` components; per class one component-anchor list given as a bit mask (bit k = component k
/// has an anchor), so None entries occur at leading / middle / trailing positions; classes not listed are absent
#[derive(Clone, Debug, Serialize, Deserialize)]
struct LigSpec {
    glyph: u16,
    comps: u8,
    /// use add_ligature_components_directly instead of one insert_ligature call per class
    direct: bool,
    /// (class, mask, anchor palette, salt); a (glyph, class) is offered once
    classes: Vec<(u8, u8, u8, i16)>,
}
#[derive(Clone, Debug, Serialize, Deserialize)]
struct LBlock {
    start: u16,
    n: u16,
    stride: u8,
    comps_a: u8,
    mask_coef: u16,
    density: u8,
    apal: u8,
    coef: u16,
}
#[derive(Clone, Debug, Serialize, Deserialize)]
struct LB {
    n_classes: u8,
    marks: Vec<(u16, u8, u8, i16)>,
    mblock: Option<MBlock>,
    ligs: Vec<LigSpec>,
    lblock: Option<LBlock>,
}
/// cursive: (glyph, mode, anchor palette, salt), mode bit 0 = entry anchor, bit 1 = exit anchor; block (start, n, stride, apal, coef)
#[derive(Clone, Debug, Serialize, Deserialize)]
struct CB {
    items: Vec<(u16, u8, u8, i16)>,
    block: Option<(u16, u16, u8, u8, u16)>,
}
/// single adjustment: (glyph, value palette, salt); block (start, n, stride, pal, pal span, coef, distinct salts)
#[derive(Clone, Debug, Serialize, Deserialize)]
struct SB {
    items: Vec<(u16, u8, i16)>,
    block: Option<(u16, u16, u8, u8, u8, u16, u8)>,
}
#[derive(Clone, Debug, Serialize, Deserialize)]
enum LKind {
    Pair(Vec<PB>),
    Mark(Vec<MB>),
    MarkMark(Vec<MB>),
    Lig(Vec<LB>),
    Curs(Vec<CB>),
    Single(Vec<SB>),
}
#[derive(Clone, Debug, Serialize, Deserialize)]
struct LSpec {
    flags: u16,
    mark_set: Option<u16>,
    kind: LKind,
}
#[derive(Clone, Debug, Serialize, Deserialize)]
struct GposCase {
    axes: u8,
    /// per region, per axis: index into REGION_AXES
    regions: Vec<Vec<u8>>,
    /// delta sets: (region index, non-zero delta)
    dsets: Vec<Vec<(u8, i16)>>,
    devs: Vec<(u16, Vec<i8>)>,
    vals: Vec<(VSpec, VSpec)>,
    anchors: Vec<ASpec>,
    lookups: Vec<LSpec>,
    strangers: Vec<u16>,
    qsel: u32,
    /// query budget per lookup
    budget: u32,
    /// 0 small, 1 medium, 2 large (generator tier)
    tier: u8,
}

const REGION_AXES: [(i16, i16, i16); 6] = [(0, 0x4000, 0x4000), (-0x4000, -0x4000, 0), (0, 0x2000, 0x4000), (0x2000, 0x4000, 0x4000), (-0x4000, -0x2000, 0), (0, 0, 0)];
const MULT: [i16; 4] = [1, 3, 5, 7];
const NONE16: u16 = u16::MAX;

// =================================================================================================================
// palettes and model values
// =================================================================================================================
type RegionKey = Vec<(i16, i16, i16)>;
type DeltaKey = Vec<(RegionKey, i32)>;

#[derive(Clone, Debug, PartialEq)]
enum DevK {
    None,
    Dev { start: u16, end: u16, vals: Vec<i8> },
    /// interned canonical delta set (id 0 = no deltas)
    Var(u32),
}
fn dev_nil(d: &DevK) -> bool {
    match d {
        DevK::None => true,
        DevK::Var(id) => *id == 0,
        DevK::Dev { vals, .. } => vals.iter().all(|v| *v == 0),
    }
}
fn dev_equiv(a: &DevK, b: &DevK) -> bool {
    (dev_nil(a) && dev_nil(b)) || a == b
}
struct Interner {
    map: BTreeMap<DeltaKey, u32>,
}
impl Interner {
    fn new() -> Self {
        let mut map = BTreeMap::new();
        map.insert(Vec::new(), 0);
        Interner { map }
    }
    fn id(&mut self, k: DeltaKey) -> u32 {
        let n = self.map.len() as u32;
        *self.map.entry(k).or_insert(n)
    }
}

struct PalRec {
    spec: VSpec,
    d: [DevK; 4],
}
struct APal {
    spec: ASpec,
    xd: DevK,
    yd: DevK,
}
struct Pal {
    axes: u16,
    /// delta sets as (region coordinates, delta), regions distinct
    dsets: Vec<Vec<(RegionKey, i16)>>,
    dset_ids: Vec<u32>,
    devs: Vec<(u16, Vec<i8>)>,
    vals: Vec<[PalRec; 2]>,
    anchors: Vec<APal>,
}
impl Pal {
    fn new(c: &GposCase, intern: &mut Interner) -> Pal {
        let axes = c.axes.clamp(1, 3) as usize;
        let regions: Vec<RegionKey> = c.regions.iter().map(|r| (0..axes).map(|a| REGION_AXES[*r.get(a).unwrap_or(&0) as usize % REGION_AXES.len()]).collect()).collect();
        let mut dsets = Vec::new();
        let mut dset_ids = Vec::new();
        for ds in &c.dsets {
            let mut out: Vec<(RegionKey, i16)> = Vec::new();
            if !regions.is_empty() {
                for (ri, d) in ds {
                    let key = regions[*ri as usize % regions.len()].clone();
                    if *d != 0 && !out.iter().any(|x| x.0 == key) {
                        out.push((key, *d));
                    }
                }
            }
            if out.is_empty() {
                continue;
            }
            let mut canon: DeltaKey = out.iter().map(|(k, d)| (k.clone(), *d as i32)).collect();
            canon.sort();
            dset_ids.push(intern.id(canon));
            dsets.push(out);
        }
        let devs: Vec<(u16, Vec<i8>)> = c.devs.iter().filter(|d| !d.1.is_empty()).map(|(s, v)| ((*s).min(60000), v.iter().copied().take(24).collect())).collect();
        let mut pal = Pal { axes: axes as u16, dsets, dset_ids, devs, vals: Vec::new(), anchors: Vec::new() };
        for (a, b) in &c.vals {
            let mk = |s: &VSpec, pal: &Pal| PalRec { spec: s.clone(), d: std::array::from_fn(|k| s[k].as_ref().map(|m| pal.devk(&m.d)).unwrap_or(DevK::None)) };
            let recs = [mk(a, &pal), mk(b, &pal)];
            pal.vals.push(recs);
        }
        for a in &c.anchors {
            let ap = APal { spec: a.clone(), xd: pal.devk(&a.xd), yd: pal.devk(&a.yd) };
            pal.anchors.push(ap);
        }
        pal
    }
    fn devk(&self, d: &DSpec) -> DevK {
        match d {
            DSpec::Dev(i) if !self.devs.is_empty() => {
                let (s, v) = &self.devs[*i as usize % self.devs.len()];
                DevK::Dev { start: *s, end: *s + (v.len() as u16 - 1), vals: v.clone() }
            }
            DSpec::Var(i) if !self.dsets.is_empty() => DevK::Var(self.dset_ids[*i as usize % self.dsets.len()]),
            _ => DevK::None,
        }
    }
    fn dod(&self, d: &DSpec) -> DeviceOrDeltas {
        match d {
            DSpec::Dev(i) if !self.devs.is_empty() => {
                let (s, v) = &self.devs[*i as usize % self.devs.len()];
                DeviceOrDeltas::Device(Device::new(*s, *s + (v.len() as u16 - 1), v))
            }
            DSpec::Var(i) if !self.dsets.is_empty() => {
                let ds = &self.dsets[*i as usize % self.dsets.len()];
                DeviceOrDeltas::Deltas(
                    ds.iter()
                        .map(|(k, d)| (VariationRegion::new(k.iter().map(|(a, b, c)| RegionAxisCoordinates::new(F2Dot14::from_bits(*a), F2Dot14::from_bits(*b), F2Dot14::from_bits(*c))).collect()), *d))
                        .collect(),
                )
            }
            _ => DeviceOrDeltas::None,
        }
    }
    fn val_ix(&self, raw: u8) -> usize {
        (raw as usize * self.vals.len()) >> 8
    }
    fn anchor_ix(&self, raw: u8) -> usize {
        (raw as usize * self.anchors.len()) >> 8
    }
    fn vrb(&self, p: usize, r: usize, salt: i16) -> ValueRecordBuilder {
        let rec = &self.vals[p][r];
        let s = salt_r(salt, r);
        let m = |k: usize| rec.spec[k].as_ref().map(|ms| Metric { default: ms.v.wrapping_add(s.wrapping_mul(MULT[k])), device_or_deltas: self.dod(&ms.d) });
        ValueRecordBuilder { x_placement: m(0), y_placement: m(1), x_advance: m(2), y_advance: m(3) }
    }
    fn anchor_builder(&self, p: usize, salt: i16) -> AnchorBuilder {
        let a = &self.anchors[p].spec;
        let mut b = AnchorBuilder::new(a.x.wrapping_add(salt), a.y.wrapping_add(salt.wrapping_mul(3)));
        if let Some(pt) = a.point {
            b = b.with_contourpoint(pt);
        }
        if a.xd != DSpec::None {
            b = b.with_x_device(self.dod(&a.xd));
        }
        if a.yd != DSpec::None {
            b = b.with_y_device(self.dod(&a.yd));
        }
        b
    }
    /// the adjustment a rule (palette entry p, salt) stands for
    fn adj(&self, p: usize, salt: i16) -> Adj {
        let mut a = Adj::zero();
        for r in 0..2 {
            let rec = &self.vals[p][r];
            for k in 0..4 {
                if let Some(m) = &rec.spec[k] {
                    a.v[r * 4 + k] = m.v.wrapping_add(salt_r(salt, r).wrapping_mul(MULT[k]));
                    a.d[r * 4 + k] = rec.d[k].clone();
                }
            }
        }
        a
    }
    /// the adjustment of a single-glyph rule: record 1 of the palette entry only
    fn adj1(&self, p: usize, salt: i16) -> Adj {
        let mut a = self.adj(p, salt);
        for k in 4..8 {
            a.v[k] = 0;
            a.d[k] = DevK::None;
        }
        a
    }
    fn adj_matches(&self, got: &Adj, p: usize, salt: i16) -> bool {
        for r in 0..2 {
            let rec = &self.vals[p][r];
            for k in 0..4 {
                let (wv, wd) = match &rec.spec[k] {
                    Some(m) => (m.v.wrapping_add(salt_r(salt, r).wrapping_mul(MULT[k])), &rec.d[k]),
                    None => (0, &DevK::None),
                };
                if got.v[r * 4 + k] != wv || !dev_equiv(&got.d[r * 4 + k], wd) {
                    return false;
                }
            }
        }
        true
    }
    fn anchor(&self, p: usize, salt: i16) -> AK {
        let a = &self.anchors[p];
        let has_dev = a.xd != DevK::None || a.yd != DevK::None;
        AK { x: a.spec.x.wrapping_add(salt), y: a.spec.y.wrapping_add(salt.wrapping_mul(3)), point: if has_dev { None } else { a.spec.point }, xd: a.xd.clone(), yd: a.yd.clone() }
    }
}
fn salt_r(s: i16, r: usize) -> i16 {
    if r == 0 {
        s
    } else {
        s.wrapping_mul(11)
    }
}

/// what a pair lookup does to a glyph pair: 2 x (x_placement, y_placement, x_advance, y_advance) + device / variation data
#[derive(Clone, Debug, PartialEq)]
struct Adj {
    v: [i16; 8],
    d: [DevK; 8],
}
impl Adj {
    fn zero() -> Adj {
        Adj { v: [0; 8], d: std::array::from_fn(|_| DevK::None) }
    }
    fn is_zero(&self) -> bool {
        self.v.iter().all(|v| *v == 0) && self.d.iter().all(dev_nil)
    }
}
fn adj_equiv(a: &Adj, b: &Adj) -> bool {
    a.v == b.v && a.d.iter().zip(&b.d).all(|(x, y)| dev_equiv(x, y))
}
/// an anchor as seen by a shaper
#[derive(Clone, Debug)]
struct AK {
    x: i16,
    y: i16,
    point: Option<u16>,
    xd: DevK,
    yd: DevK,
}
fn ak_eq(a: &AK, b: &AK) -> bool {
    a.x == b.x && a.y == b.y && a.point == b.point && dev_equiv(&a.xd, &b.xd) && dev_equiv(&a.yd, &b.yd)
}

// =================================================================================================================
// rule models
// =================================================================================================================
#[derive(Clone, Copy)]
enum Op {
    /// insert_pair(g1, g2, palette, salt)
    P(u16, u16, usize, i16),
    /// insert_classes(class1 index, class2 index, palette, salt)
    C(u16, u16, usize, i16),
}
struct PBModel {
    ops: Vec<Op>,
    pairs: BTreeMap<(u16, u16), (usize, i16)>,
    c1sets: Vec<Vec<u16>>,
    c2sets: Vec<Vec<u16>>,
    /// glyph -> class index, only for classes that occur in a rule
    c1of: Vec<u16>,
    c2of: Vec<u16>,
    cells: BTreeMap<(u16, u16), (usize, i16)>,
    dup_pairs: u32,
}
enum Expect {
    /// no subtable applies
    Nothing,
    /// a class subtable applies with an empty record
    Zero,
    Val(usize, i16),
}

fn part_sets(p: &PartSpec) -> Vec<Vec<u16>> {
    let mut of: BTreeMap<u16, u32> = BTreeMap::new();
    for (a, n, c) in &p.explicit {
        for g in *a..=a.saturating_add((*n).min(60)) {
            of.entry(g).or_insert(*c as u32);
        }
    }
    if let Some(b) = &p.block {
        let n = b.classes.max(1) as u32;
        let sizes: Vec<u32> = (0..n).map(|i| 1 + (i * b.size_a as u32) % b.size_m.max(1) as u32).collect();
        let total: u32 = sizes.iter().sum();
        let mut k = 0u32;
        let mut put = |cls: u32, k: u32| {
            let g = b.start as u32 + k * b.stride.max(1) as u32;
            if g <= 65535 {
                of.entry(g as u16).or_insert(1000 + cls);
            }
        };
        if b.interleave {
            for k in 0..total {
                put(k % n, k);
            }
        } else {
            for (i, sz) in sizes.iter().enumerate() {
                for _ in 0..*sz {
                    put(i as u32, k);
                    k += 1;
                }
            }
        }
    }
    let mut by: BTreeMap<u32, Vec<u16>> = BTreeMap::new();
    for (g, c) in of {
        by.entry(c).or_default().push(g);
    }
    by.into_values().collect()
}

fn pb_model(b: &PB, pal: &Pal) -> PBModel {
    let mut explicit: Vec<Op> = b.pairs.iter().map(|(g1, g2, p, s)| Op::P(*g1, *g2, pal.val_ix(*p), *s)).collect();
    let mut regular: Vec<Op> = Vec::new();
    for bl in &b.blocks {
        let n1 = bl.n1 as u32;
        let n2 = (bl.n2 as u32).min(60_000 / n1.max(1)).max(1);
        let pn = bl.pal_n.max(1) as u32;
        for a in 0..n1 {
            let g1 = bl.g1 as u32 + a * bl.s1.max(1) as u32;
            if g1 > 65535 {
                break;
            }
            let shift = if bl.same_rows { 0 } else { (a * bl.skew as u32) % 7 };
            for bb in 0..n2 {
                let g2 = bl.g2 as u32 + bb * bl.s2.max(1) as u32 + shift;
                if g2 > 65535 {
                    break;
                }
                let (pi, salt) = if bl.same_rows {
                    ((bb * bl.cb as u32) % pn, (bb.wrapping_mul(bl.cb as u32 | 1)) as i16)
                } else {
                    ((a * bl.ca as u32 + bb * bl.cb as u32) % pn, (a.wrapping_mul(bl.ca as u32 | 1) ^ bb.wrapping_mul(bl.cb as u32 | 1).wrapping_mul(31)) as i16)
                };
                regular.push(Op::P(g1 as u16, g2 as u16, pal.val_ix(bl.pal.wrapping_add((pi * 37) as u8)), salt));
            }
        }
    }
    let mut ops = if b.explicit_first {
        explicit.append(&mut regular);
        explicit
    } else {
        regular.append(&mut explicit);
        regular
    };
    let mut pairs = BTreeMap::new();
    let mut dup_pairs = 0;
    for op in &ops {
        if let Op::P(g1, g2, p, s) = op {
            if pairs.contains_key(&(*g1, *g2)) {
                dup_pairs += 1;
            } else {
                pairs.insert((*g1, *g2), (*p, *s));
            }
        }
    }
    // class rules
    let c1sets = part_sets(&b.c1);
    let c2sets = part_sets(&b.c2);
    let mut cells: BTreeMap<(u16, u16), (usize, i16)> = BTreeMap::new();
    let (n1, n2) = (c1sets.len() as u32, c2sets.len() as u32);
    if n1 > 0 && n2 > 0 {
        for (ri, rj, p, s) in &b.crules {
            let (i, j) = (((*ri as u32 * n1) >> 16) as u16, ((*rj as u32 * n2) >> 16) as u16);
            if !cells.contains_key(&(i, j)) {
                cells.insert((i, j), (pal.val_ix(*p), *s));
                ops.push(Op::C(i, j, pal.val_ix(*p), *s));
            }
        }
        if let Some((density, coef, p0, pn)) = &b.cgrid {
            let n2c = n2.min(70_000 / n1).max(1);
            for i in 0..n1 {
                for j in 0..n2c {
                    let h = (i * *coef as u32).wrapping_add(j * (*coef as u32 | 1) * 7).wrapping_add(i * j);
                    if (h % 256) < *density as u32 && !cells.contains_key(&(i as u16, j as u16)) {
                        let p = pal.val_ix(p0.wrapping_add((((i + j) % (*pn).max(1) as u32) * 37) as u8));
                        let s = (i * 31 + j * 17) as i16;
                        cells.insert((i as u16, j as u16), (p, s));
                        ops.push(Op::C(i as u16, j as u16, p, s));
                    }
                }
            }
        }
    }
    let mut c1of = vec![NONE16; 65536];
    let mut c2of = vec![NONE16; 65536];
    let used1: BTreeSet<u16> = cells.keys().map(|k| k.0).collect();
    let used2: BTreeSet<u16> = cells.keys().map(|k| k.1).collect();
    for i in &used1 {
        for g in &c1sets[*i as usize] {
            c1of[*g as usize] = *i;
        }
    }
    for j in &used2 {
        for g in &c2sets[*j as usize] {
            c2of[*g as usize] = *j;
        }
    }
    PBModel { ops, pairs, c1sets, c2sets, c1of, c2of, cells, dup_pairs }
}

fn expect_pair(bs: &[PBModel], g1: u16, g2: u16) -> Expect {
    for b in bs {
        if let Some((p, s)) = b.pairs.get(&(g1, g2)) {
            return Expect::Val(*p, *s);
        }
        let i = b.c1of[g1 as usize];
        if i != NONE16 {
            let j = b.c2of[g2 as usize];
            if j != NONE16 {
                if let Some((p, s)) = b.cells.get(&(i, j)) {
                    return Expect::Val(*p, *s);
                }
            }
            return Expect::Zero;
        }
    }
    Expect::Nothing
}

struct MBModel {
    mark_ops: Vec<(u16, u8, usize, i16)>,
    base_ops: Vec<(u16, u8, usize, i16)>,
    marks: BTreeMap<u16, (u8, usize, i16)>,
    bases: BTreeMap<(u16, u8), (usize, i16)>,
}
fn mb_model(b: &MB, pal: &Pal) -> MBModel {
    let nc = b.n_classes.clamp(1, 16) as u32;
    let mut mark_ops = Vec::new();
    let mut marks = BTreeMap::new();
    let mut add_mark = |g: u16, c: u8, p: usize, s: i16| {
        if !marks.contains_key(&g) {
            marks.insert(g, (c, p, s));
            mark_ops.push((g, c, p, s));
        }
    };
    for (g, c, p, s) in &b.marks {
        add_mark(*g, (*c as u32 % nc) as u8, pal.anchor_ix(*p), *s);
    }
    if let Some(m) = &b.mblock {
        for k in 0..m.n as u32 {
            let g = m.start as u32 + k * m.stride.max(1) as u32;
            if g > 65535 {
                break;
            }
            let c = if m.interleave { k % nc } else { k * nc / m.n as u32 };
            add_mark(g as u16, c as u8, pal.anchor_ix(m.apal.wrapping_add(((k * m.coef as u32) % 5 * 51) as u8)), k.wrapping_mul(m.coef as u32) as i16);
        }
    }
    let used: BTreeSet<u8> = marks.values().map(|v| v.0).collect();
    let mut base_ops = Vec::new();
    let mut bases = BTreeMap::new();
    let mut add_base = |g: u16, c: u8, p: usize, s: i16| {
        if used.contains(&c) && !bases.contains_key(&(g, c)) {
            bases.insert((g, c), (p, s));
            base_ops.push((g, c, p, s));
        }
    };
    for (g, c, p, s) in &b.bases {
        add_base(*g, (*c as u32 % nc) as u8, pal.anchor_ix(*p), *s);
    }
    if let Some(bb) = &b.bblock {
        for k in 0..bb.n as u32 {
            let g = bb.start as u32 + k * bb.stride.max(1) as u32;
            if g > 65535 {
                break;
            }
            for c in 0..nc {
                let h = (k * (bb.coef as u32 | 1)).wrapping_add(c * 97).wrapping_add(k * c);
                if (h % 256) < bb.density as u32 {
                    add_base(g as u16, c as u8, pal.anchor_ix(bb.apal.wrapping_add(((k + c) % 4 * 67) as u8)), (k.wrapping_mul(bb.coef as u32)).wrapping_add(c * 977) as i16);
                }
            }
        }
    }
    MBModel { mark_ops, base_ops, marks, bases }
}
fn expect_mark<'a>(bs: &'a [MBModel], mark: u16, base: u16) -> Option<(&'a (u8, usize, i16), &'a (usize, i16))> {
    for b in bs {
        if let Some(m) = b.marks.get(&mark) {
            if let Some(a) = b.bases.get(&(base, m.0)) {
                return Some((m, a));
            }
        }
    }
    None
}

type MarkInfo = (u8, usize, i16);
fn marks_model(nc: u32, explicit: &[(u16, u8, u8, i16)], block: &Option<MBlock>, pal: &Pal) -> (Vec<(u16, u8, usize, i16)>, BTreeMap<u16, MarkInfo>) {
    let mut ops = Vec::new();
    let mut marks = BTreeMap::new();
    let mut add = |g: u16, c: u8, p: usize, s: i16| {
        if !marks.contains_key(&g) {
            marks.insert(g, (c, p, s));
            ops.push((g, c, p, s));
        }
    };
    for (g, c, p, s) in explicit {
        add(*g, (*c as u32 % nc) as u8, pal.anchor_ix(*p), *s);
    }
    if let Some(m) = block {
        for k in 0..m.n as u32 {
            let g = m.start as u32 + k * m.stride.max(1) as u32;
            if g > 65535 {
                break;
            }
            let c = if m.interleave { k % nc } else { k * nc / m.n as u32 };
            add(g as u16, c as u8, pal.anchor_ix(m.apal.wrapping_add(((k * m.coef as u32) % 5 * 51) as u8)), k.wrapping_mul(m.coef as u32) as i16);
        }
    }
    (ops, marks)
}

struct LigM {
    comps: u8,
    direct: bool,
    /// insert_ligature calls: (class, per component an optional anchor)
    calls: Vec<(u8, Vec<Option<(usize, i16)>>)>,
    anchors: BTreeMap<(u8, u8), (usize, i16)>,
}
struct LBModel {
    mark_ops: Vec<(u16, u8, usize, i16)>,
    marks: BTreeMap<u16, MarkInfo>,
    /// ligature glyphs in insertion order
    order: Vec<u16>,
    ligs: BTreeMap<u16, LigM>,
}
fn lb_model(b: &LB, pal: &Pal) -> LBModel {
    let nc = b.n_classes.clamp(1, 8) as u32;
    let (mark_ops, marks) = marks_model(nc, &b.marks, &b.mblock, pal);
    let used: BTreeSet<u8> = marks.values().map(|v| v.0).collect();
    let mut order = Vec::new();
    let mut ligs: BTreeMap<u16, LigM> = BTreeMap::new();
    let mut add = |glyph: u16, comps: u8, direct: bool, classes: &[(u8, u8, u8, i16)]| {
        if ligs.contains_key(&glyph) {
            return;
        }
        let comps = comps.clamp(1, 5);
        let mut m = LigM { comps, direct, calls: Vec::new(), anchors: BTreeMap::new() };
        for (c, mask, ap, salt) in classes {
            let c = (*c as u32 % nc) as u8;
            if !used.contains(&c) || m.calls.iter().any(|x| x.0 == c) {
                continue;
            }
            let list: Vec<Option<(usize, i16)>> = (0..comps).map(|k| ((mask >> k) & 1 == 1).then(|| (pal.anchor_ix(*ap), salt.wrapping_add(k as i16 * 131)))).collect();
            for (k, a) in list.iter().enumerate() {
                if let Some(a) = a {
                    m.anchors.insert((c, k as u8), *a);
                }
            }
            m.calls.push((c, list));
        }
        if m.calls.is_empty() && !direct {
            return; // nothing is said about this glyph
        }
        order.push(glyph);
        ligs.insert(glyph, m);
    };
    for l in &b.ligs {
        add(l.glyph, l.comps, l.direct, &l.classes);
    }
    if let Some(lb) = &b.lblock {
        for k in 0..lb.n as u32 {
            let g = lb.start as u32 + k * lb.stride.max(1) as u32;
            if g > 65535 {
                break;
            }
            let mut classes = Vec::new();
            for c in 0..nc {
                let h = (k * (lb.coef as u32 | 1)).wrapping_add(c * 89).wrapping_add(k * c);
                if (h % 256) < lb.density as u32 {
                    let mask = ((k * (lb.mask_coef as u32 | 1) + c * 11) >> 2) as u8;
                    classes.push((c as u8, mask, lb.apal.wrapping_add(((k + c) % 4 * 67) as u8), k.wrapping_mul(lb.coef as u32).wrapping_add(c * 577) as i16));
                }
            }
            add(g as u16, 1 + ((k * lb.comps_a as u32) % 5) as u8, k % 7 == 3, &classes);
        }
    }
    LBModel { mark_ops, marks, order, ligs }
}
fn expect_lig<'a>(bs: &'a [LBModel], mark: u16, lig: u16, comp: u8) -> Option<(&'a MarkInfo, &'a (usize, i16))> {
    for b in bs {
        if let (Some(m), Some(l)) = (b.marks.get(&mark), b.ligs.get(&lig)) {
            if let Some(a) = l.anchors.get(&(m.0, comp)) {
                return Some((m, a));
            }
        }
    }
    None
}

/// cursive / single: glyph -> data; within a lookup a glyph belongs to the first builder that mentions it
struct CBModel {
    ops: Vec<(u16, u8, usize, i16)>,
    items: BTreeMap<u16, (u8, usize, i16)>,
}
fn cb_models(bs: &[CB], pal: &Pal) -> Vec<CBModel> {
    let mut taken: BTreeSet<u16> = BTreeSet::new();
    bs.iter()
        .map(|b| {
            let mut m = CBModel { ops: Vec::new(), items: BTreeMap::new() };
            let mut add = |g: u16, mode: u8, p: usize, s: i16| {
                if taken.insert(g) {
                    m.items.insert(g, (mode & 3, p, s));
                    m.ops.push((g, mode & 3, p, s));
                }
            };
            for (g, mode, p, s) in &b.items {
                add(*g, *mode, pal.anchor_ix(*p), *s);
            }
            if let Some((start, n, stride, ap, coef)) = &b.block {
                for k in 0..*n as u32 {
                    let g = *start as u32 + k * (*stride).max(1) as u32;
                    if g > 65535 {
                        break;
                    }
                    add(g as u16, ((k * (*coef as u32 | 1)) >> 3) as u8, pal.anchor_ix(ap.wrapping_add((k % 3 * 83) as u8)), k.wrapping_mul(*coef as u32) as i16);
                }
            }
            m
        })
        .collect()
}
struct SBModel {
    ops: Vec<(u16, usize, i16)>,
    items: BTreeMap<u16, (usize, i16)>,
}
fn sb_model(b: &SB, pal: &Pal) -> SBModel {
    let mut m = SBModel { ops: Vec::new(), items: BTreeMap::new() };
    let mut add = |g: u16, p: usize, s: i16| {
        if !m.items.contains_key(&g) {
            m.items.insert(g, (p, s));
            m.ops.push((g, p, s));
        }
    };
    for (g, p, s) in &b.items {
        add(*g, pal.val_ix(*p), *s);
    }
    if let Some((start, n, stride, p0, pn, coef, salts)) = &b.block {
        for k in 0..*n as u32 {
            let g = *start as u32 + k * (*stride).max(1) as u32;
            if g > 65535 {
                break;
            }
            let h = k.wrapping_mul(*coef as u32 | 1);
            add(g as u16, pal.val_ix(p0.wrapping_add(((h >> 4) % (*pn).max(1) as u32 * 37) as u8)), ((h >> 7) % (*salts).max(1) as u32) as i16);
        }
    }
    m
}

enum LModel {
    Pair(Vec<PBModel>),
    Mark(Vec<MBModel>),
    MarkMark(Vec<MBModel>),
    Lig(Vec<LBModel>),
    Curs(Vec<CBModel>),
    Single(Vec<SBModel>),
}
impl LModel {
    fn name(&self) -> &'static str {
        match self {
            LModel::Pair(_) => "PairPos",
            LModel::Mark(_) => "MarkToBase",
            LModel::MarkMark(_) => "MarkToMark",
            LModel::Lig(_) => "MarkToLig",
            LModel::Curs(_) => "Cursive",
            LModel::Single(_) => "SinglePos",
        }
    }
}

// =================================================================================================================
// reference lookup walker over the compiled bytes (read-fonts accessors only)
// =================================================================================================================
struct Resolver<'a, 'i> {
    ivs: Option<rv::ItemVariationStore<'a>>,
    cache: BTreeMap<(u16, u16), u32>,
    intern: &'i mut Interner,
    devices: u64,
    varidx: u64,
}
impl<'a, 'i> Resolver<'a, 'i> {
    fn dev(&mut self, d: Option<Result<rl::DeviceOrVariationIndex<'_>, read_fonts::ReadError>>) -> Result<DevK, Fail> {
        let Some(d) = d else { return Ok(DevK::None) };
        match rd(d, "device / variation index table")? {
            rl::DeviceOrVariationIndex::Device(t) => {
                self.devices += 1;
                let (s, e) = (t.start_size(), t.end_size());
                let bits: usize = match t.delta_format() {
                    rl::DeltaFormat::Local2BitDeltas => 2,
                    rl::DeltaFormat::Local4BitDeltas => 4,
                    rl::DeltaFormat::Local8BitDeltas => 8,
                    f => return Err(fail("device-format", format!("device table with delta format {f:?}"))),
                };
                if e < s {
                    return Err(fail("device-format", format!("device table with start size {s} > end size {e}")));
                }
                let per = 16 / bits;
                let words = t.delta_value();
                let mut vals = Vec::new();
                for i in 0..(e - s) as usize + 1 {
                    let Some(w) = words.get(i / per) else {
                        return Err(fail("device-format", format!("device table {s}..={e} has only {} words", words.len())));
                    };
                    let raw = ((w.get() >> (16 - bits * (i % per + 1))) as i32) & ((1 << bits) - 1);
                    vals.push(if raw & (1 << (bits - 1)) != 0 { raw - (1 << bits) } else { raw } as i8);
                }
                Ok(DevK::Dev { start: s, end: e, vals })
            }
            rl::DeviceOrVariationIndex::VariationIndex(v) => {
                self.varidx += 1;
                Ok(DevK::Var(self.var(v.delta_set_outer_index(), v.delta_set_inner_index())?))
            }
        }
    }
    fn var(&mut self, outer: u16, inner: u16) -> Result<u32, Fail> {
        if let Some(id) = self.cache.get(&(outer, inner)) {
            return Ok(*id);
        }
        let bad = |m: String| fail("varidx-unresolvable", format!("variation index ({outer},{inner}): {m}"));
        let ivs = self.ivs.as_ref().ok_or_else(|| bad("no variation store".into()))?;
        let data = match ivs.item_variation_data().get(outer as usize) {
            Some(Ok(d)) => d,
            Some(Err(e)) => return Err(bad(format!("{e}"))),
            None => return Err(bad("null ItemVariationData offset".into())),
        };
        if inner >= data.item_count() {
            return Err(bad(format!("inner index beyond item count {}", data.item_count())));
        }
        let regions = rd(ivs.variation_region_list(), "region list")?.variation_regions();
        let ris = data.region_indexes();
        let deltas: Vec<i32> = data.delta_set(inner).collect();
        if deltas.len() != ris.len() {
            return Err(bad(format!("{} deltas for {} regions", deltas.len(), ris.len())));
        }
        let mut key: DeltaKey = Vec::new();
        for (ri, d) in ris.iter().zip(deltas) {
            if d == 0 {
                continue;
            }
            if ri.get() as usize >= regions.len() {
                return Err(bad(format!("region index {} beyond {} regions", ri.get(), regions.len())));
            }
            let r = rd(regions.get(ri.get() as usize), "region")?;
            key.push((r.region_axes().iter().map(|a| (a.start_coord().to_bits(), a.peak_coord().to_bits(), a.end_coord().to_bits())).collect(), d));
        }
        key.sort();
        let id = self.intern.id(key);
        self.cache.insert((outer, inner), id);
        Ok(id)
    }
    fn adj(&mut self, v1: &rg::ValueRecord, v2: &rg::ValueRecord, data: FontData<'_>) -> Result<Adj, Fail> {
        let mut a = Adj::zero();
        for (r, v) in [v1, v2].into_iter().enumerate() {
            a.v[r * 4] = v.x_placement().unwrap_or(0);
            a.v[r * 4 + 1] = v.y_placement().unwrap_or(0);
            a.v[r * 4 + 2] = v.x_advance().unwrap_or(0);
            a.v[r * 4 + 3] = v.y_advance().unwrap_or(0);
            a.d[r * 4] = self.dev(v.x_placement_device(data))?;
            a.d[r * 4 + 1] = self.dev(v.y_placement_device(data))?;
            a.d[r * 4 + 2] = self.dev(v.x_advance_device(data))?;
            a.d[r * 4 + 3] = self.dev(v.y_advance_device(data))?;
        }
        Ok(a)
    }
    fn anchor(&mut self, a: &rg::AnchorTable<'_>) -> Result<AK, Fail> {
        Ok(match a {
            rg::AnchorTable::Format1(t) => AK { x: t.x_coordinate(), y: t.y_coordinate(), point: None, xd: DevK::None, yd: DevK::None },
            rg::AnchorTable::Format2(t) => AK { x: t.x_coordinate(), y: t.y_coordinate(), point: Some(t.anchor_point()), xd: DevK::None, yd: DevK::None },
            rg::AnchorTable::Format3(t) => AK { x: t.x_coordinate(), y: t.y_coordinate(), point: None, xd: self.dev(t.x_device())?, yd: self.dev(t.y_device())? },
        })
    }
}

enum PSub<'a> {
    F1 { cov: rl::CoverageTable<'a>, t: rg::PairPosFormat1<'a> },
    F2 { cov: rl::CoverageTable<'a>, cd1: rl::ClassDef<'a>, cd2: rl::ClassDef<'a>, t: rg::PairPosFormat2<'a> },
}
enum BaseArr<'a> {
    Base(rg::BaseArray<'a>),
    Mark2(rg::Mark2Array<'a>),
}
/// MarkToBase or MarkToMark subtable
struct MSub<'a> {
    mcov: rl::CoverageTable<'a>,
    bcov: rl::CoverageTable<'a>,
    marks: rg::MarkArray<'a>,
    bases: BaseArr<'a>,
    classes: u16,
}
struct LSub<'a> {
    mcov: rl::CoverageTable<'a>,
    lcov: rl::CoverageTable<'a>,
    marks: rg::MarkArray<'a>,
    ligs: rg::LigatureArray<'a>,
    classes: u16,
}
struct CSub<'a> {
    cov: rl::CoverageTable<'a>,
    t: rg::CursivePosFormat1<'a>,
}
struct SSub<'a> {
    cov: rl::CoverageTable<'a>,
    t: rg::SinglePos<'a>,
}
enum AnySub<'a> {
    Pair(PSub<'a>),
    Mark(MSub<'a>),
    MarkMark(MSub<'a>),
    Lig(LSub<'a>),
    Curs(CSub<'a>),
    Single(SSub<'a>),
}
impl AnySub<'_> {
    fn name(&self) -> &'static str {
        match self {
            AnySub::Pair(_) => "PairPos",
            AnySub::Mark(_) => "MarkToBase",
            AnySub::MarkMark(_) => "MarkToMark",
            AnySub::Lig(_) => "MarkToLig",
            AnySub::Curs(_) => "Cursive",
            AnySub::Single(_) => "SinglePos",
        }
    }
}
struct OutLookup<'a> {
    ext: bool,
    flag: u16,
    mark_set: Option<u16>,
    subs: Vec<AnySub<'a>>,
}
fn psub<'a>(p: rg::PairPos<'a>) -> Result<AnySub<'a>, Fail> {
    Ok(AnySub::Pair(match p {
        rg::PairPos::Format1(t) => PSub::F1 { cov: rd(t.coverage(), "pairpos 1 coverage")?, t },
        rg::PairPos::Format2(t) => PSub::F2 { cov: rd(t.coverage(), "pairpos 2 coverage")?, cd1: rd(t.class_def1(), "class_def1")?, cd2: rd(t.class_def2(), "class_def2")?, t },
    }))
}
fn msub<'a>(t: rg::MarkBasePosFormat1<'a>) -> Result<AnySub<'a>, Fail> {
    Ok(AnySub::Mark(MSub { mcov: rd(t.mark_coverage(), "mark coverage")?, bcov: rd(t.base_coverage(), "base coverage")?, marks: rd(t.mark_array(), "mark array")?, bases: BaseArr::Base(rd(t.base_array(), "base array")?), classes: t.mark_class_count() }))
}
fn mmsub<'a>(t: rg::MarkMarkPosFormat1<'a>) -> Result<AnySub<'a>, Fail> {
    Ok(AnySub::MarkMark(MSub { mcov: rd(t.mark1_coverage(), "mark1 coverage")?, bcov: rd(t.mark2_coverage(), "mark2 coverage")?, marks: rd(t.mark1_array(), "mark1 array")?, bases: BaseArr::Mark2(rd(t.mark2_array(), "mark2 array")?), classes: t.mark_class_count() }))
}
fn lsub<'a>(t: rg::MarkLigPosFormat1<'a>) -> Result<AnySub<'a>, Fail> {
    Ok(AnySub::Lig(LSub { mcov: rd(t.mark_coverage(), "mark coverage")?, lcov: rd(t.ligature_coverage(), "ligature coverage")?, marks: rd(t.mark_array(), "mark array")?, ligs: rd(t.ligature_array(), "ligature array")?, classes: t.mark_class_count() }))
}
fn csub<'a>(t: rg::CursivePosFormat1<'a>) -> Result<AnySub<'a>, Fail> {
    Ok(AnySub::Curs(CSub { cov: rd(t.coverage(), "cursive coverage")?, t }))
}
fn ssub<'a>(t: rg::SinglePos<'a>) -> Result<AnySub<'a>, Fail> {
    let cov = match &t {
        rg::SinglePos::Format1(x) => rd(x.coverage(), "singlepos 1 coverage")?,
        rg::SinglePos::Format2(x) => rd(x.coverage(), "singlepos 2 coverage")?,
    };
    Ok(AnySub::Single(SSub { cov, t }))
}
fn open_lookups<'a>(gpos: &rg::Gpos<'a>, model: &[LModel]) -> Result<Vec<OutLookup<'a>>, Fail> {
    let ll = rd(gpos.lookup_list(), "lookup list")?;
    let lookups = ll.lookups();
    if lookups.len() != model.len() {
        return Err(fail("lookup-count", format!("compiled lookup list has {} lookups, {} were supplied", lookups.len(), model.len())));
    }
    macro_rules! plain {
        ($l:expr, $conv:expr) => {{
            let subs = $l.subtables().iter().map(|s| $conv(rd(s, "subtable")?)).collect::<Result<Vec<_>, Fail>>()?;
            OutLookup { ext: false, flag: $l.lookup_flag().to_bits(), mark_set: $l.mark_filtering_set(), subs }
        }};
    }
    let mut out = Vec::new();
    for (i, m) in model.iter().enumerate() {
        let o = match rd(lookups.get(i), &format!("lookup {i}"))? {
            rg::PositionLookup::Single(l) => plain!(l, ssub),
            rg::PositionLookup::Pair(l) => plain!(l, psub),
            rg::PositionLookup::Cursive(l) => plain!(l, csub),
            rg::PositionLookup::MarkToBase(l) => plain!(l, msub),
            rg::PositionLookup::MarkToLig(l) => plain!(l, lsub),
            rg::PositionLookup::MarkToMark(l) => plain!(l, mmsub),
            rg::PositionLookup::Extension(l) => {
                let mut subs = Vec::new();
                for s in l.subtables().iter() {
                    subs.push(match rd(s, "extension subtable")? {
                        rg::ExtensionSubtable::Single(e) => ssub(rd(e.extension(), "extension target")?)?,
                        rg::ExtensionSubtable::Pair(e) => psub(rd(e.extension(), "extension target")?)?,
                        rg::ExtensionSubtable::Cursive(e) => csub(rd(e.extension(), "extension target")?)?,
                        rg::ExtensionSubtable::MarkToBase(e) => msub(rd(e.extension(), "extension target")?)?,
                        rg::ExtensionSubtable::MarkToLig(e) => lsub(rd(e.extension(), "extension target")?)?,
                        rg::ExtensionSubtable::MarkToMark(e) => mmsub(rd(e.extension(), "extension target")?)?,
                        _ => return Err(fail("ext-type", format!("lookup {i}: an extension subtable wraps a contextual lookup type, supplied as {}", m.name()))),
                    });
                }
                OutLookup { ext: true, flag: l.lookup_flag().to_bits(), mark_set: l.mark_filtering_set(), subs }
            }
            _ => return Err(fail("lookup-type", format!("lookup {i}: compiled as a contextual lookup, supplied as {}", m.name()))),
        };
        if let Some(s) = o.subs.iter().find(|s| s.name() != m.name()) {
            return Err(fail(if o.ext { "ext-type" } else { "lookup-type" }, format!("lookup {i}: compiled{} as {}, supplied as {}", if o.ext { " (extension)" } else { "" }, s.name(), m.name())));
        }
        out.push(o);
    }
    Ok(out)
}

/// the subtables that cover the first glyph, in lookup order
enum PHit<'a, 's> {
    F1(usize, rg::PairSet<'a>),
    F2(usize, rg::Class1Record<'a>, &'s rl::ClassDef<'a>, u16, FontData<'a>),
}
fn pair_hits<'a, 's>(subs: &'s [PSub<'a>], g1: u16) -> Result<Vec<PHit<'a, 's>>, Fail> {
    let mut out = Vec::new();
    for (i, s) in subs.iter().enumerate() {
        match s {
            PSub::F1 { cov, t } => {
                if let Some(ci) = cov.get(GlyphId16::new(g1)) {
                    let sets = t.pair_sets();
                    if ci as usize >= sets.len() {
                        return Err(fail("pair-set-index", format!("subtable {i}: coverage index {ci} of glyph {g1} beyond {} pair sets", sets.len())));
                    }
                    out.push(PHit::F1(i, rd(sets.get(ci as usize), "pair set")?));
                }
            }
            PSub::F2 { cov, cd1, cd2, t } => {
                if cov.get(GlyphId16::new(g1)).is_some() {
                    let c1 = cd1.get(GlyphId16::new(g1));
                    if c1 >= t.class1_count() {
                        continue; // a shaper skips the subtable
                    }
                    out.push(PHit::F2(i, rd(t.class1_records().get(c1 as usize), "class1 record")?, cd2, t.class2_count(), t.offset_data()));
                }
            }
        }
    }
    Ok(out)
}
fn pair_eval(hits: &[PHit<'_, '_>], g2: u16, rs: &mut Resolver<'_, '_>) -> Result<Option<(usize, Adj)>, Fail> {
    for h in hits {
        match h {
            PHit::F1(i, ps) => {
                let recs = ps.pair_value_records();
                let (mut lo, mut hi) = (0usize, recs.len());
                while lo < hi {
                    let mid = (lo + hi) / 2;
                    let r = rd(recs.get(mid), "pair value record")?;
                    let sg = r.second_glyph().to_u16();
                    if sg == g2 {
                        return Ok(Some((*i, rs.adj(r.value_record1(), r.value_record2(), ps.offset_data())?)));
                    } else if sg < g2 {
                        lo = mid + 1;
                    } else {
                        hi = mid;
                    }
                }
            }
            PHit::F2(i, c1rec, cd2, n2, data) => {
                let c2 = cd2.get(GlyphId16::new(g2));
                if c2 >= *n2 {
                    continue;
                }
                let r = rd(c1rec.class2_records().get(c2 as usize), "class2 record")?;
                return Ok(Some((*i, rs.adj(r.value_record1(), r.value_record2(), *data)?)));
            }
        }
    }
    Ok(None)
}

struct MHit {
    sub: usize,
    class: u16,
    anchor: AK,
}
fn mark_hits<'s, 'a: 's>(subs: impl Iterator<Item = (&'s rl::CoverageTable<'a>, &'s rg::MarkArray<'a>)>, mark: u16, rs: &mut Resolver<'_, '_>) -> Result<Vec<MHit>, Fail> {
    let mut out = Vec::new();
    for (i, (mcov, marks)) in subs.enumerate() {
        if let Some(mi) = mcov.get(GlyphId16::new(mark)) {
            let recs = marks.mark_records();
            let Some(r) = recs.get(mi as usize) else {
                return Err(fail("mark-record-index", format!("subtable {i}: coverage index {mi} of mark {mark} beyond {} mark records", recs.len())));
            };
            let a = rd(r.mark_anchor(marks.offset_data()), "mark anchor")?;
            out.push(MHit { sub: i, class: r.mark_class(), anchor: rs.anchor(&a)? });
        }
    }
    Ok(out)
}
fn mark_eval(subs: &[MSub<'_>], hits: &[MHit], base: u16, rs: &mut Resolver<'_, '_>) -> Result<Option<(usize, AK, AK)>, Fail> {
    for h in hits {
        let s = &subs[h.sub];
        let Some(bi) = s.bcov.get(GlyphId16::new(base)) else { continue };
        if h.class >= s.classes {
            continue;
        }
        let oob = |n: usize| fail("base-record-index", format!("subtable {}: coverage index {bi} of base {base} beyond {n} base records", h.sub));
        let a = match &s.bases {
            BaseArr::Base(b) => {
                let recs = b.base_records();
                if bi as usize >= recs.len() {
                    return Err(oob(recs.len()));
                }
                rd(recs.get(bi as usize), "base record")?.base_anchors(b.offset_data()).get(h.class as usize)
            }
            BaseArr::Mark2(b) => {
                let recs = b.mark2_records();
                if bi as usize >= recs.len() {
                    return Err(oob(recs.len()));
                }
                rd(recs.get(bi as usize), "mark2 record")?.mark2_anchors(b.offset_data()).get(h.class as usize)
            }
        };
        match a {
            None => continue,
            Some(a) => return Ok(Some((h.sub, h.anchor.clone(), rs.anchor(&rd(a, "base anchor")?)?))),
        }
    }
    Ok(None)
}
fn lig_eval(subs: &[LSub<'_>], hits: &[MHit], lig: u16, comp: u8, rs: &mut Resolver<'_, '_>) -> Result<Option<(usize, AK, AK)>, Fail> {
    for h in hits {
        let s = &subs[h.sub];
        let Some(li) = s.lcov.get(GlyphId16::new(lig)) else { continue };
        if h.class >= s.classes {
            continue;
        }
        let attaches = s.ligs.ligature_attaches();
        if li as usize >= attaches.len() {
            return Err(fail("ligature-index", format!("subtable {}: coverage index {li} of ligature {lig} beyond {} ligature attach tables", h.sub, attaches.len())));
        }
        let att = rd(attaches.get(li as usize), "ligature attach")?;
        let recs = att.component_records();
        if comp as usize >= recs.len() {
            continue;
        }
        match rd(recs.get(comp as usize), "component record")?.ligature_anchors(att.offset_data()).get(h.class as usize) {
            None => continue,
            Some(a) => return Ok(Some((h.sub, h.anchor.clone(), rs.anchor(&rd(a, "ligature anchor")?)?))),
        }
    }
    Ok(None)
}
/// entry / exit anchors of the first subtable that covers the glyph
fn curs_eval(subs: &[CSub<'_>], g: u16, rs: &mut Resolver<'_, '_>) -> Result<(Option<AK>, Option<AK>), Fail> {
    for (i, s) in subs.iter().enumerate() {
        if let Some(ci) = s.cov.get(GlyphId16::new(g)) {
            let recs = s.t.entry_exit_record();
            let Some(r) = recs.get(ci as usize) else {
                return Err(fail("entry-exit-index", format!("subtable {i}: coverage index {ci} of glyph {g} beyond {} entry/exit records", recs.len())));
            };
            let mut get = |a: Option<Result<rg::AnchorTable<'_>, read_fonts::ReadError>>| -> Result<Option<AK>, Fail> {
                match a {
                    None => Ok(None),
                    Some(a) => Ok(Some(rs.anchor(&rd(a, "entry/exit anchor")?)?)),
                }
            };
            return Ok((get(r.entry_anchor(s.t.offset_data()))?, get(r.exit_anchor(s.t.offset_data()))?));
        }
    }
    Ok((None, None))
}
/// the adjustment of the first subtable that covers the glyph
fn single_eval(subs: &[SSub<'_>], g: u16, rs: &mut Resolver<'_, '_>) -> Result<Option<(usize, Adj)>, Fail> {
    let none = rg::ValueRecord::default();
    for (i, s) in subs.iter().enumerate() {
        if let Some(ci) = s.cov.get(GlyphId16::new(g)) {
            return Ok(Some((
                i,
                match &s.t {
                    rg::SinglePos::Format1(t) => rs.adj(&t.value_record(), &none, t.offset_data())?,
                    rg::SinglePos::Format2(t) => {
                        let recs = t.value_records();
                        if ci as usize >= recs.len() {
                            return Err(fail("single-value-index", format!("subtable {i}: coverage index {ci} of glyph {g} beyond {} value records", recs.len())));
                        }
                        rs.adj(&rd(recs.get(ci as usize), "value record")?, &none, t.offset_data())?
                    }
                },
            )));
        }
    }
    Ok(None)
}

// =================================================================================================================
// build through the public builders, compile, evaluate
// =================================================================================================================
fn lookup_flag(l: &LSpec) -> LookupFlag {
    let mut bits = l.flags & 0xFF0F;
    if l.mark_set.is_some() {
        bits |= 0x10;
    }
    LookupFlag::from_bits_truncate(bits)
}

fn neighbours(src: impl Iterator<Item = u16>, strangers: &[u16]) -> Vec<u16> {
    let mut s: BTreeSet<u16> = BTreeSet::new();
    for g in src {
        s.insert(g);
        s.insert(g.saturating_sub(1));
        s.insert(g.saturating_add(1));
    }
    s.extend(strangers.iter().copied());
    s.insert(0);
    s.insert(65535);
    s.into_iter().collect()
}
fn cov_edges(cov: &rl::CoverageTable<'_>, into: &mut Vec<u16>) {
    let mut it = cov.iter();
    if let Some(first) = it.next() {
        let last = it.last().unwrap_or(first);
        for g in [first.to_u16(), last.to_u16()] {
            into.extend([g, g.saturating_sub(1), g.saturating_add(1)]);
        }
    }
}
fn render_adj(a: &Adj) -> String {
    format!("{:?} dev {:?}", a.v, a.d.iter().map(|d| match d { DevK::None => "-".to_string(), DevK::Dev { start, end, vals } => format!("D{start}..{end}{vals:?}"), DevK::Var(i) => format!("V#{i}") }).collect::<Vec<_>>())
}

struct Tally {
    queries: u64,
    rule_hits: u64,
    zero_hits: u64,
    nothing: u64,
}

fn check_pair_lookup(li: usize, c: &GposCase, pal: &Pal, bs: &[PBModel], subs: &[PSub<'_>], rs: &mut Resolver<'_, '_>, tally: &mut Tally, how: &str) -> CaseResult {
    let mut check_row = |g1: u16, cols: &mut dyn Iterator<Item = u16>, rs: &mut Resolver<'_, '_>| -> CaseResult {
        let hits = pair_hits(subs, g1)?;
        for g2 in cols {
            tally.queries += 1;
            let got = pair_eval(&hits, g2, rs)?;
            let want = expect_pair(bs, g1, g2);
            let ok = match (&got, &want) {
                (None, Expect::Nothing) | (None, Expect::Zero) => true,
                (Some((_, a)), Expect::Nothing) | (Some((_, a)), Expect::Zero) => a.is_zero(),
                (None, Expect::Val(p, s)) => pal.adj(*p, *s).is_zero(),
                (Some((_, a)), Expect::Val(p, s)) => pal.adj_matches(a, *p, *s),
            };
            match want {
                Expect::Nothing => tally.nothing += 1,
                Expect::Zero => tally.zero_hits += 1,
                Expect::Val(..) => tally.rule_hits += 1,
            }
            if !ok {
                let w = match want {
                    Expect::Nothing => "no rule for this pair (no adjustment)".to_string(),
                    Expect::Zero => "first glyph is in a class rule set but no rule for this class pair (no adjustment)".to_string(),
                    Expect::Val(p, s) => format!("rule value {}", render_adj(&pal.adj(p, s))),
                };
                let g = match &got {
                    None => "nothing".to_string(),
                    Some((si, a)) => format!("{} from subtable {si} of {}", render_adj(a), subs.len()),
                };
                return Err(fail("pair-mismatch", format!("lookup {li} ({how}): pair ({g1},{g2}): compiled table yields {g}; expected {w}")));
            }
        }
        Ok(())
    };
    // (a) every glyph-pair rule, exactly
    let mut by_first: BTreeMap<u16, BTreeSet<u16>> = BTreeMap::new();
    for b in bs {
        for (g1, g2) in b.pairs.keys() {
            by_first.entry(*g1).or_default().insert(*g2);
        }
    }
    for (g1, seconds) in &by_first {
        check_row(*g1, &mut seconds.iter().copied(), rs)?;
    }
    // (b) grid
    let firsts = bs.iter().flat_map(|b| b.pairs.keys().map(|k| k.0).chain(b.cells.keys().flat_map(|k| b.c1sets[k.0 as usize].iter().copied())));
    let seconds = bs.iter().flat_map(|b| b.pairs.keys().map(|k| k.1).chain(b.cells.keys().flat_map(|k| b.c2sets[k.1 as usize].iter().copied())));
    let k1 = neighbours(firsts, &c.strangers);
    let k2 = neighbours(seconds, &c.strangers);
    let budget = c.budget.max(1000) as u64;
    let k: Vec<u16> = k1.iter().chain(k2.iter()).copied().collect::<BTreeSet<u16>>().into_iter().collect();
    if (k.len() as u64) * (k.len() as u64) <= budget {
        for g1 in &k {
            check_row(*g1, &mut k.iter().copied(), rs)?;
        }
        return Ok(());
    }
    let mut cols: BTreeSet<u16> = sample(&k2, 1536, c.qsel).into_iter().collect();
    let mut rows: Vec<u16> = Vec::new();
    for b in bs {
        for (i, j) in b.cells.keys() {
            rows.extend(b.c1sets[*i as usize].first());
            rows.extend(b.c1sets[*i as usize].last());
            cols.extend(b.c2sets[*j as usize].first());
        }
    }
    for s in subs {
        match s {
            PSub::F1 { cov, .. } | PSub::F2 { cov, .. } => cov_edges(cov, &mut rows),
        }
    }
    let cols: Vec<u16> = cols.into_iter().collect();
    let room = (budget / cols.len().max(1) as u64) as usize;
    rows.extend(sample(&k1, room.max(8), c.qsel >> 8));
    let mut seen = BTreeSet::new();
    let mut used = 0u64;
    for g1 in rows {
        if seen.insert(g1) {
            check_row(g1, &mut cols.iter().copied(), rs)?;
            used += cols.len() as u64;
            if used >= budget {
                break;
            }
        }
    }
    Ok(())
}

fn check_mark_lookup(li: usize, c: &GposCase, pal: &Pal, bs: &[MBModel], subs: &[MSub<'_>], rs: &mut Resolver<'_, '_>, tally: &mut Tally, how: &str) -> CaseResult {
    let mut check_row = |mark: u16, cols: &[u16], rs: &mut Resolver<'_, '_>| -> CaseResult {
        let hits = mark_hits(subs.iter().map(|s| (&s.mcov, &s.marks)), mark, rs)?;
        for base in cols {
            tally.queries += 1;
            let got = mark_eval(subs, &hits, *base, rs)?;
            let want = expect_mark(bs, mark, *base);
            let ok = match (&got, &want) {
                (None, None) => true,
                (Some((_, m, b)), Some((wm, wb))) => ak_eq(m, &pal.anchor(wm.1, wm.2)) && ak_eq(b, &pal.anchor(wb.0, wb.1)),
                _ => false,
            };
            if want.is_some() {
                tally.rule_hits += 1;
            } else {
                tally.nothing += 1;
            }
            if !ok {
                let w = want.map(|(wm, wb)| format!("mark class {} anchor {:?}, base anchor {:?}", wm.0, pal.anchor(wm.1, wm.2), pal.anchor(wb.0, wb.1))).unwrap_or("no attachment".into());
                let g = got.map(|(si, m, b)| format!("mark anchor {m:?}, base anchor {b:?} from subtable {si} of {}", subs.len())).unwrap_or("nothing".into());
                return Err(fail("mark-mismatch", format!("lookup {li} ({how}): mark {mark} on base {base}: compiled table yields {g}; expected {w}")));
            }
        }
        Ok(())
    };
    let k1 = neighbours(bs.iter().flat_map(|b| b.marks.keys().copied()), &c.strangers);
    let k2 = neighbours(bs.iter().flat_map(|b| b.bases.keys().map(|k| k.0)), &c.strangers);
    let budget = c.budget.max(1000) as u64;
    if (k1.len() as u64) * (k2.len() as u64) <= budget {
        for m in &k1 {
            check_row(*m, &k2, rs)?;
        }
        return Ok(());
    }
    // (a) one mark of every class against every base: all base anchors
    let mut reps: BTreeSet<u16> = BTreeSet::new();
    for b in bs {
        let mut first: BTreeMap<u8, u16> = BTreeMap::new();
        for (g, v) in &b.marks {
            first.entry(v.0).or_insert(*g);
        }
        reps.extend(first.values());
    }
    for m in &reps {
        check_row(*m, &k2, rs)?;
    }
    // (b) every mark against a few bases: all mark anchors and classes
    let few = sample(&k2, 40, c.qsel);
    for m in &k1 {
        check_row(*m, &few, rs)?;
    }
    // (c) split-boundary rows, then a spread of rows, against every base
    let mut rows = Vec::new();
    for s in subs {
        cov_edges(&s.mcov, &mut rows);
    }
    let room = (budget / k2.len().max(1) as u64) as usize;
    rows.extend(sample(&k1, room.max(8), c.qsel >> 8));
    let mut used = 0u64;
    for m in rows {
        if reps.insert(m) {
            check_row(m, &k2, rs)?;
            used += k2.len() as u64;
            if used >= budget {
                break;
            }
        }
    }
    Ok(())
}

fn check_lig_lookup(li: usize, c: &GposCase, pal: &Pal, bs: &[LBModel], subs: &[LSub<'_>], rs: &mut Resolver<'_, '_>, tally: &mut Tally, how: &str) -> CaseResult {
    let mut check_row = |mark: u16, cols: &[u16], rs: &mut Resolver<'_, '_>| -> CaseResult {
        let hits = mark_hits(subs.iter().map(|s| (&s.mcov, &s.marks)), mark, rs)?;
        for lig in cols {
            for comp in 0..6u8 {
                tally.queries += 1;
                let got = lig_eval(subs, &hits, *lig, comp, rs)?;
                let want = expect_lig(bs, mark, *lig, comp);
                let ok = match (&got, &want) {
                    (None, None) => true,
                    (Some((_, m, a)), Some((wm, wa))) => ak_eq(m, &pal.anchor(wm.1, wm.2)) && ak_eq(a, &pal.anchor(wa.0, wa.1)),
                    _ => false,
                };
                if want.is_some() {
                    tally.rule_hits += 1;
                } else {
                    tally.nothing += 1;
                }
                if !ok {
                    let w = want.map(|(wm, wa)| format!("mark class {} anchor {:?}, component anchor {:?}", wm.0, pal.anchor(wm.1, wm.2), pal.anchor(wa.0, wa.1))).unwrap_or("no attachment".into());
                    let g = got.map(|(si, m, a)| format!("mark anchor {m:?}, component anchor {a:?} from subtable {si} of {}", subs.len())).unwrap_or("nothing".into());
                    return Err(fail("lig-mismatch", format!("lookup {li} ({how}): mark {mark} on ligature {lig} component {comp}: compiled table yields {g}; expected {w}")));
                }
            }
        }
        Ok(())
    };
    let k1 = neighbours(bs.iter().flat_map(|b| b.marks.keys().copied()), &c.strangers);
    let k2 = neighbours(bs.iter().flat_map(|b| b.ligs.keys().copied()), &c.strangers);
    let budget = c.budget.max(1000) as u64 / 6;
    if (k1.len() as u64) * (k2.len() as u64) <= budget {
        for m in &k1 {
            check_row(*m, &k2, rs)?;
        }
        return Ok(());
    }
    // one mark of every class against every ligature, every mark against a few ligatures, then a spread of rows
    let mut reps: BTreeSet<u16> = BTreeSet::new();
    for b in bs {
        let mut first: BTreeMap<u8, u16> = BTreeMap::new();
        for (g, v) in &b.marks {
            first.entry(v.0).or_insert(*g);
        }
        reps.extend(first.values());
    }
    for m in &reps {
        check_row(*m, &k2, rs)?;
    }
    let few = sample(&k2, 12, c.qsel);
    for m in &k1 {
        check_row(*m, &few, rs)?;
    }
    let room = (budget / k2.len().max(1) as u64) as usize;
    for m in sample(&k1, room.max(4), c.qsel >> 8) {
        if reps.insert(m) {
            check_row(m, &k2, rs)?;
        }
    }
    Ok(())
}

fn check_curs_lookup(li: usize, c: &GposCase, pal: &Pal, bs: &[CBModel], subs: &[CSub<'_>], rs: &mut Resolver<'_, '_>, tally: &mut Tally, how: &str) -> CaseResult {
    let k = neighbours(bs.iter().flat_map(|b| b.items.keys().copied()), &c.strangers);
    for g in k {
        tally.queries += 1;
        let got = curs_eval(subs, g, rs)?;
        let want = bs.iter().find_map(|b| b.items.get(&g));
        let (we, wx) = match want {
            Some((mode, p, s)) => ((mode & 1 != 0).then(|| pal.anchor(*p, *s)), (mode & 2 != 0).then(|| pal.anchor(*p, s.wrapping_add(77)))),
            None => (None, None),
        };
        if want.is_some() {
            tally.rule_hits += 1;
        } else {
            tally.nothing += 1;
        }
        let same = |a: &Option<AK>, b: &Option<AK>| match (a, b) {
            (None, None) => true,
            (Some(a), Some(b)) => ak_eq(a, b),
            _ => false,
        };
        if !same(&got.0, &we) || !same(&got.1, &wx) {
            return Err(fail("cursive-mismatch", format!("lookup {li} ({how}): glyph {g}: compiled table yields entry {:?} exit {:?}; expected entry {we:?} exit {wx:?}", got.0, got.1)));
        }
    }
    Ok(())
}

fn check_single_lookup(li: usize, c: &GposCase, pal: &Pal, bs: &[SBModel], subs: &[SSub<'_>], rs: &mut Resolver<'_, '_>, tally: &mut Tally, how: &str) -> CaseResult {
    let k = neighbours(bs.iter().flat_map(|b| b.items.keys().copied()), &c.strangers);
    for g in k {
        tally.queries += 1;
        let got = single_eval(subs, g, rs)?;
        let want = bs.iter().find_map(|b| b.items.get(&g));
        let ok = match (&got, want) {
            (None, None) => true,
            (Some((_, a)), None) => a.is_zero(),
            (None, Some((p, s))) => pal.adj1(*p, *s).is_zero(),
            (Some((_, a)), Some((p, s))) => adj_equiv(a, &pal.adj1(*p, *s)),
        };
        if want.is_some() {
            tally.rule_hits += 1;
        } else {
            tally.nothing += 1;
        }
        if !ok {
            let w = want.map(|(p, s)| render_adj(&pal.adj1(*p, *s))).unwrap_or("no rule (no adjustment)".into());
            let gs = got.map(|(si, a)| format!("{} from subtable {si} of {}", render_adj(&a), subs.len())).unwrap_or("nothing".into());
            return Err(fail("single-mismatch", format!("lookup {li} ({how}): glyph {g}: compiled table yields {gs}; expected {w}")));
        }
    }
    Ok(())
}

fn check_class_id<E: std::fmt::Display>(ids: &mut BTreeMap<u8, u16>, cl: u8, g: u16, r: Result<u16, E>) -> CaseResult {
    match r {
        Ok(id) => match ids.get(&cl) {
            Some(prev) if *prev != id => Err(fail("mark-class-id", format!("insert_mark returned class id {id} for class c{cl}, earlier {prev}"))),
            Some(_) => Ok(()),
            None => {
                if ids.values().any(|v| *v == id) {
                    return Err(fail("mark-class-id", format!("insert_mark returned class id {id} for the new class c{cl}, which is the id of another class")));
                }
                ids.insert(cl, id);
                Ok(())
            }
        },
        Err(e) => Err(fail("insert-mark", format!("insert_mark of a new glyph {g} failed: {e}"))),
    }
}

fn test_gpos(c: &GposCase, stats: &Stats) -> CaseResult {
    let mut intern = Interner::new();
    let pal = Pal::new(c, &mut intern);
    if pal.vals.is_empty() || pal.anchors.is_empty() {
        return Ok(());
    }
    // models + builders
    let mut vs = VariationStoreBuilder::new(pal.axes);
    let mut models: Vec<LModel> = Vec::new();
    let mut lookups: Vec<PositionLookup> = Vec::new();
    let mut pre_counts: Vec<usize> = Vec::new();
    let mut pre_f1: Vec<usize> = Vec::new();
    let (mut n_pair_rules, mut n_class_rules, mut n_dup, mut n_marks, mut n_bases) = (0usize, 0usize, 0u32, 0usize, 0usize);
    for l in &c.lookups {
        let flag = lookup_flag(l);
        match &l.kind {
            LKind::Pair(pbs) => {
                let ms: Vec<PBModel> = pbs.iter().map(|b| pb_model(b, &pal)).collect();
                let mut builders = Vec::new();
                for m in &ms {
                    let mut b = PairPosBuilder::default();
                    let sets1: Vec<IntSet<GlyphId16>> = m.c1sets.iter().map(|s| intset(s.iter().copied())).collect();
                    let sets2: Vec<IntSet<GlyphId16>> = m.c2sets.iter().map(|s| intset(s.iter().copied())).collect();
                    for op in &m.ops {
                        match *op {
                            Op::P(g1, g2, p, s) => b.insert_pair(GlyphId16::new(g1), pal.vrb(p, 0, s), GlyphId16::new(g2), pal.vrb(p, 1, s)),
                            Op::C(i, j, p, s) => b.insert_classes(sets1[i as usize].clone(), pal.vrb(p, 0, s), sets2[j as usize].clone(), pal.vrb(p, 1, s)),
                        }
                    }
                    n_pair_rules += m.pairs.len();
                    n_class_rules += m.cells.len();
                    n_dup += m.dup_pairs;
                    builders.push(b);
                }
                let lk = LookupBuilder::<PairPosBuilder>::new_with_lookups(flag, l.mark_set, builders).build(&mut vs);
                pre_counts.push(lk.subtables.len());
                pre_f1.push(lk.subtables.iter().filter(|s| matches!(s.as_ref(), write_fonts::tables::gpos::PairPos::Format1(_))).count());
                lookups.push(PositionLookup::Pair(lk));
                models.push(LModel::Pair(ms));
            }
            LKind::Mark(mbs) => {
                let ms: Vec<MBModel> = mbs.iter().map(|b| mb_model(b, &pal)).collect();
                let mut builders = Vec::new();
                for m in &ms {
                    let mut b = MarkToBaseBuilder::default();
                    let mut ids: BTreeMap<u8, u16> = BTreeMap::new();
                    for (g, cl, p, s) in &m.mark_ops {
                        check_class_id(&mut ids, *cl, *g, b.insert_mark(GlyphId16::new(*g), &format!("c{cl}"), pal.anchor_builder(*p, *s)))?;
                    }
                    for (g, cl, p, s) in &m.base_ops {
                        b.insert_base(GlyphId16::new(*g), &format!("c{cl}"), pal.anchor_builder(*p, *s));
                    }
                    if !b.mark_glyphs().map(|g| g.to_u16()).eq(m.marks.keys().copied()) {
                        return Err(fail("mark-glyphs", "MarkToBaseBuilder::mark_glyphs() differs from the inserted marks".into()));
                    }
                    n_marks += m.marks.len();
                    n_bases += m.bases.len();
                    builders.push(b);
                }
                let lk = LookupBuilder::<MarkToBaseBuilder>::new_with_lookups(flag, l.mark_set, builders).build(&mut vs);
                pre_counts.push(lk.subtables.len());
                pre_f1.push(0);
                lookups.push(PositionLookup::MarkToBase(lk));
                models.push(LModel::Mark(ms));
            }
            LKind::MarkMark(mbs) => {
                let ms: Vec<MBModel> = mbs.iter().map(|b| mb_model(b, &pal)).collect();
                let mut builders = Vec::new();
                for m in &ms {
                    let mut b = MarkToMarkBuilder::default();
                    let mut ids: BTreeMap<u8, u16> = BTreeMap::new();
                    for (g, cl, p, s) in &m.mark_ops {
                        check_class_id(&mut ids, *cl, *g, b.insert_mark1(GlyphId16::new(*g), &format!("c{cl}"), pal.anchor_builder(*p, *s)))?;
                    }
                    for (g, cl, p, s) in &m.base_ops {
                        b.insert_mark2(GlyphId16::new(*g), &format!("c{cl}"), pal.anchor_builder(*p, *s));
                    }
                    n_marks += m.marks.len();
                    n_bases += m.bases.len();
                    builders.push(b);
                }
                let lk = LookupBuilder::<MarkToMarkBuilder>::new_with_lookups(flag, l.mark_set, builders).build(&mut vs);
                pre_counts.push(lk.subtables.len());
                pre_f1.push(0);
                lookups.push(PositionLookup::MarkToMark(lk));
                models.push(LModel::MarkMark(ms));
            }
            LKind::Lig(lbs) => {
                let ms: Vec<LBModel> = lbs.iter().map(|b| lb_model(b, &pal)).collect();
                let mut builders = Vec::new();
                for m in &ms {
                    let mut b = MarkToLigBuilder::default();
                    let mut ids: BTreeMap<u8, u16> = BTreeMap::new();
                    for (g, cl, p, s) in &m.mark_ops {
                        check_class_id(&mut ids, *cl, *g, b.insert_mark(GlyphId16::new(*g), &format!("c{cl}"), pal.anchor_builder(*p, *s)))?;
                    }
                    for g in &m.order {
                        let lm = &m.ligs[g];
                        if lm.direct {
                            let comps: Vec<BTreeMap<String, AnchorBuilder>> =
                                (0..lm.comps).map(|k| lm.anchors.iter().filter(|(key, _)| key.1 == k).map(|(key, (p, s))| (format!("c{}", key.0), pal.anchor_builder(*p, *s))).collect()).collect();
                            b.add_ligature_components_directly(GlyphId16::new(*g), comps);
                            stats.class("lig:components-directly");
                        } else {
                            for (cl, list) in &lm.calls {
                                let sparse = list.iter().position(|a| a.is_none()).map(|i| list[i..].iter().any(|a| a.is_some())).unwrap_or(false);
                                stats.class(if sparse { "lig:anchor-list-with-None-before-Some" } else { "lig:anchor-list-dense-or-trailing-None" });
                                b.insert_ligature(GlyphId16::new(*g), &format!("c{cl}"), list.iter().map(|a| a.map(|(p, s)| pal.anchor_builder(p, s))).collect());
                            }
                        }
                        n_bases += lm.anchors.len();
                    }
                    if !b.lig_glyphs().map(|g| g.to_u16()).eq(m.ligs.keys().copied()) {
                        return Err(fail("lig-glyphs", "MarkToLigBuilder::lig_glyphs() differs from the inserted ligatures".into()));
                    }
                    n_marks += m.marks.len();
                    builders.push(b);
                }
                let lk = LookupBuilder::<MarkToLigBuilder>::new_with_lookups(flag, l.mark_set, builders).build(&mut vs);
                pre_counts.push(lk.subtables.len());
                pre_f1.push(0);
                lookups.push(PositionLookup::MarkToLig(lk));
                models.push(LModel::Lig(ms));
            }
            LKind::Curs(cbs) => {
                let ms = cb_models(cbs, &pal);
                let mut builders = Vec::new();
                for m in &ms {
                    let mut b = CursivePosBuilder::default();
                    for (g, mode, p, s) in &m.ops {
                        stats.class(["cursive:neither", "cursive:entry-only", "cursive:exit-only", "cursive:both"][*mode as usize]);
                        b.insert(GlyphId16::new(*g), (mode & 1 != 0).then(|| pal.anchor_builder(*p, *s)), (mode & 2 != 0).then(|| pal.anchor_builder(*p, s.wrapping_add(77))));
                    }
                    builders.push(b);
                }
                let lk = LookupBuilder::<CursivePosBuilder>::new_with_lookups(flag, l.mark_set, builders).build(&mut vs);
                pre_counts.push(lk.subtables.len());
                pre_f1.push(0);
                lookups.push(PositionLookup::Cursive(lk));
                models.push(LModel::Curs(ms));
            }
            LKind::Single(sbs) => {
                let ms: Vec<SBModel> = sbs.iter().map(|b| sb_model(b, &pal)).collect();
                let mut builders = Vec::new();
                for m in &ms {
                    let mut b = SinglePosBuilder::default();
                    for (g, p, s) in &m.ops {
                        let v = pal.vrb(*p, 0, *s);
                        if !b.can_add(GlyphId16::new(*g), &v) {
                            return Err(fail("single-can-add", format!("SinglePosBuilder::can_add({g}) is false for a glyph that has no value yet")));
                        }
                        b.insert(GlyphId16::new(*g), v);
                    }
                    builders.push(b);
                }
                let lk = LookupBuilder::<SinglePosBuilder>::new_with_lookups(flag, l.mark_set, builders).build(&mut vs);
                pre_counts.push(lk.subtables.len());
                pre_f1.push(0);
                lookups.push(PositionLookup::Single(lk));
                models.push(LModel::Single(ms));
            }
        }
    }
    let (store, remap) = vs.build();
    let mut gpos = Gpos::new(ScriptList::default(), FeatureList::default(), PositionLookupList::new(lookups));
    gpos.remap_variation_indices(&remap);
    let bytes = match dump_table(&gpos) {
        Ok(b) => b,
        Err(e) => {
            // no compiled table: nothing the statement speaks about (counted, sampled)
            let m = format!("{e}");
            let kinds: BTreeSet<&str> = models.iter().map(|m| m.name()).collect();
            stats.class(&format!("{} {:?}", if m.contains("ack") { "dump:packing-failed" } else { "dump:validation-error" }, kinds));
            if stats.want_sample() {
                stats.sample(serde_json::json!({"stage": "gpos", "dump_error": m.chars().take(160).collect::<String>(), "pair_rules": n_pair_rules, "class_rules": n_class_rules, "marks": n_marks, "base_anchors": n_bases}));
            }
            return Ok(());
        }
    };
    let ivs_bytes = dump_table(&store).map_err(|e| fail("ivs-dump", format!("dump_table(ItemVariationStore): {e}")))?;
    let ivs = rv::ItemVariationStore::read(FontData::new(&ivs_bytes)).ok();
    let rgpos = rd(rg::Gpos::read(FontData::new(&bytes)), "Gpos")?;
    let out = open_lookups(&rgpos, &models)?;
    let mut rs = Resolver { ivs, cache: BTreeMap::new(), intern: &mut intern, devices: 0, varidx: 0 };
    let mut tally = Tally { queries: 0, rule_hits: 0, zero_hits: 0, nothing: 0 };
    let (mut any_ext, mut any_split) = (false, false);
    let mut shape = Vec::new();
    for (li, ((o, m), l)) in out.into_iter().zip(&models).zip(&c.lookups).enumerate() {
        let want_flag = lookup_flag(l).to_bits();
        if o.flag != want_flag || o.mark_set != l.mark_set {
            return Err(fail("lookup-flag", format!("lookup {li}: compiled flag {:#06x} / mark filtering set {:?}, supplied {want_flag:#06x} / {:?}", o.flag, o.mark_set, l.mark_set)));
        }
        let n_out = o.subs.len();
        let split = n_out > pre_counts[li];
        if n_out < pre_counts[li] {
            return Err(fail("subtable-count", format!("lookup {li}: {} subtables built, {n_out} compiled", pre_counts[li])));
        }
        any_ext |= o.ext;
        any_split |= split;
        let how = format!("{}, {}{}{} subtables, {} before compilation", m.name(), if o.ext { "extension, " } else { "" }, if split { "split, " } else { "" }, n_out, pre_counts[li]);
        let (mut ps, mut mks, mut lgs, mut cs, mut ss) = (Vec::new(), Vec::new(), Vec::new(), Vec::new(), Vec::new());
        for s in o.subs {
            match s {
                AnySub::Pair(x) => ps.push(x),
                AnySub::Mark(x) | AnySub::MarkMark(x) => mks.push(x),
                AnySub::Lig(x) => lgs.push(x),
                AnySub::Curs(x) => cs.push(x),
                AnySub::Single(x) => ss.push(x),
            }
        }
        stats.class(&format!("lookup:{}", m.name()));
        if o.ext {
            stats.class(&format!("promoted-to-extension:{}", m.name()));
        }
        match m {
            LModel::Pair(bs) => {
                let subs = &ps;
                for s in subs {
                    stats.class(match s {
                        PSub::F1 { .. } => "pairpos-format1-subtable",
                        PSub::F2 { .. } => "pairpos-format2-subtable",
                    });
                }
                if split {
                    stats.class("split:pairpos-lookup");
                    let f1 = subs.iter().filter(|s| matches!(s, PSub::F1 { .. })).count();
                    if f1 > pre_f1[li] {
                        stats.class("split:pairpos-format1-subtable");
                    }
                    if subs.len() - f1 > pre_counts[li] - pre_f1[li] {
                        stats.class("split:pairpos-format2-subtable");
                    }
                }
                check_pair_lookup(li, c, &pal, bs, subs, &mut rs, &mut tally, &how)?;
            }
            LModel::Mark(bs) | LModel::MarkMark(bs) => {
                if split {
                    stats.class("split:marktobase-lookup");
                }
                check_mark_lookup(li, c, &pal, bs, &mks, &mut rs, &mut tally, &how)?;
            }
            LModel::Lig(bs) => check_lig_lookup(li, c, &pal, bs, &lgs, &mut rs, &mut tally, &how)?,
            LModel::Curs(bs) => check_curs_lookup(li, c, &pal, bs, &cs, &mut rs, &mut tally, &how)?,
            LModel::Single(bs) => {
                for s in &ss {
                    stats.class(match s.t {
                        rg::SinglePos::Format1(_) => "singlepos-format1-subtable",
                        rg::SinglePos::Format2(_) => "singlepos-format2-subtable",
                    });
                }
                check_single_lookup(li, c, &pal, bs, &ss, &mut rs, &mut tally, &how)?;
            }
        }
        if o.ext {
            stats.class("promoted-to-extension");
        }
        shape.push(how);
    }
    stats.evals(tally.queries);
    stats.class_n("queries:rule", tally.rule_hits);
    stats.class_n("queries:class-subtable-zero", tally.zero_hits);
    stats.class_n("queries:no-rule", tally.nothing);
    stats.class_n("resolved:device-tables", rs.devices);
    stats.class_n("resolved:variation-indices", rs.varidx);
    stats.class(match bytes.len() {
        0..=16_383 => "gpos<16K",
        16_384..=65_535 => "gpos 16K..64K",
        65_536..=262_143 => "gpos 64K..256K",
        _ => "gpos>=256K",
    });
    if n_dup > 0 {
        stats.class("has-duplicate-pair-rules(first wins)");
    }
    if n_class_rules > 0 && n_pair_rules > 0 {
        stats.class("glyph-and-class-rules");
    }
    if any_ext || any_split {
        stats.nontrivial(hash_json(c));
        stats.class("nontrivial:gpos");
        if stats.want_sample() {
            stats.sample(serde_json::json!({"stage": "gpos", "bytes": bytes.len(), "lookups": shape, "pair_rules": n_pair_rules, "class_rules": n_class_rules, "marks": n_marks, "base_anchors": n_bases, "queries": tally.queries}));
        }
    }
    Ok(())
}

// =================================================================================================================
// GPOS strategies. tier 0: small (fully explicit), 1: medium (around the 64 KiB limit), 2: large (several x 64 KiB)
// =================================================================================================================
fn ival() -> BoxedStrategy<i16> {
    prop_oneof![3 => -60i16..60, 2 => any::<i16>(), 1 => Just(0i16), 1 => prop_oneof![Just(i16::MIN), Just(i16::MAX)]].boxed()
}
fn dspec() -> BoxedStrategy<DSpec> {
    prop_oneof![8 => Just(DSpec::None), 1 => any::<u8>().prop_map(DSpec::Dev), 1 => any::<u8>().prop_map(DSpec::Var)].boxed()
}
fn vspec(p_field: u32) -> BoxedStrategy<VSpec> {
    let f = move || prop_oneof![10 - p_field => Just(None), p_field => (ival(), dspec()).prop_map(|(v, d)| Some(MSpec { v, d }))];
    (f(), f(), f(), f()).prop_map(|(a, b, c, d)| [a, b, c, d]).boxed()
}
fn vals_strategy() -> BoxedStrategy<Vec<(VSpec, VSpec)>> {
    let kern = (ival(), dspec()).prop_map(|(v, d)| ([None, None, Some(MSpec { v, d }), None], [None, None, None, None]));
    let one = prop_oneof![3 => kern, 3 => (vspec(4), prop_oneof![3 => Just([None, None, None, None]), 1 => vspec(3)]), 1 => (vspec(9), vspec(9))];
    proptest::collection::vec(one, 1..7).boxed()
}
fn aspec() -> BoxedStrategy<ASpec> {
    (ival(), ival(), proptest::option::weighted(0.2, any::<u16>()), dspec(), dspec()).prop_map(|(x, y, point, xd, yd)| ASpec { x, y, point, xd, yd }).boxed()
}
fn gbase(t: u8) -> BoxedStrategy<u16> {
    if t == 0 {
        glyph()
    } else {
        prop_oneof![5 => 0u16..3000, 1 => 20000u16..40000, 1 => 60000u16..=65535].boxed()
    }
}
/// Option strategy that also accepts the probabilities 0 and 1
fn opt<S: Strategy + 'static>(p: f64, s: S) -> BoxedStrategy<Option<S::Value>>
where
    S::Value: Clone + std::fmt::Debug + 'static,
{
    if p <= 0.0 {
        Just(None).boxed()
    } else if p >= 1.0 {
        s.prop_map(Some).boxed()
    } else {
        proptest::option::weighted(p, s).boxed()
    }
}
fn pblock(t: u8) -> BoxedStrategy<PBlock> {
    let (n1, n2) = match t {
        0 => (1u16..8, 1u16..8),
        1 => (20u16..300, 6u16..80),
        _ => (200u16..1300, 20u16..120),
    };
    (gbase(t), n1, 1u8..4, gbase(t), n2, 1u8..4, 0u16..7, any::<u8>(), 1u8..5, any::<u16>(), any::<u16>(), proptest::bool::weighted(0.25))
        .prop_map(|(g1, n1, s1, g2, n2, s2, skew, pal, pal_n, ca, cb, same_rows)| PBlock { g1, n1, s1, g2, n2, s2, skew, pal, pal_n, ca, cb, same_rows })
        .boxed()
}
fn part(t: u8, second: bool) -> BoxedStrategy<PartSpec> {
    let explicit = proptest::collection::vec((glyph(), prop_oneof![3 => 0u16..3, 1 => 0u16..40], 0u8..8), 0..7);
    let classes = match (t, second) {
        (0, _) => 1u16..6,
        (1, false) => 10u16..140,
        (1, true) => 6u16..60,
        (_, false) => 80u16..420,
        (_, true) => 30u16..150,
    };
    let block = (gbase(t), classes, 0u16..7, 1u16..6, 1u8..4, any::<bool>()).prop_map(|(start, classes, size_a, size_m, stride, interleave)| PartBlock { start, classes, size_a, size_m, stride, interleave });
    let p_block = if t == 0 { 0.4 } else { 1.0 };
    (explicit, opt(p_block, block)).prop_map(|(explicit, block)| PartSpec { explicit, block }).boxed()
}
/// what: 0 glyph pairs only, 1 class rules only, 2 both
fn pb(t: u8, what: u8) -> BoxedStrategy<PB> {
    let narrow = (0u16..6, 0u16..6, any::<u8>(), any::<i16>());
    let wide = (glyph(), glyph(), any::<u8>(), any::<i16>());
    let pairs = proptest::collection::vec(prop_oneof![1 => narrow, 3 => wide], if what == 1 { 0..3 } else { 0..40 });
    let blocks = proptest::collection::vec(pblock(t), if what == 1 { 0..1 } else if t == 0 { 0..2 } else { 1..3 });
    let crules = proptest::collection::vec((any::<u16>(), any::<u16>(), any::<u8>(), any::<i16>()), if what == 0 { 0..1 } else { 0..14 });
    let cgrid = opt(if what == 0 { 0.0 } else if t == 0 { 0.5 } else { 1.0 }, (prop_oneof![20u8..=255, Just(255u8)], any::<u16>(), any::<u8>(), 1u8..5));
    (any::<bool>(), pairs, blocks, part(t, false), part(t, true), crules, cgrid)
        .prop_map(|(explicit_first, pairs, blocks, c1, c2, crules, cgrid)| PB { explicit_first, pairs, blocks, c1, c2, crules, cgrid })
        .boxed()
}
fn mb(t: u8) -> BoxedStrategy<MB> {
    mb_sized(t, false)
}
/// `unsplittable`: sizes for MarkToMark, whose subtables cannot be split and must stay under 64 KiB
fn mb_sized(t: u8, unsplittable: bool) -> BoxedStrategy<MB> {
    let marks = proptest::collection::vec((glyph(), any::<u8>(), any::<u8>(), any::<i16>()), if t == 0 { 0..14 } else { 0..5 });
    let bases = proptest::collection::vec((glyph(), any::<u8>(), any::<u8>(), any::<i16>()), if t == 0 { 0..18 } else { 0..5 });
    let (nm, nb) = match (t, unsplittable) {
        (0, _) => (1u16..10, 1u16..12),
        (_, true) => (30u16..500, 50u16..700),
        (1, _) => (50u16..900, 100u16..1600),
        _ => (500u16..3000, 1000u16..4000),
    };
    let mblock = (gbase(t), nm, 1u8..3, any::<bool>(), any::<u8>(), prop_oneof![1 => Just(0u16), 4 => any::<u16>()]).prop_map(|(start, n, stride, interleave, apal, coef)| MBlock { start, n, stride, interleave, apal, coef });
    let bblock = (gbase(t), nb, 1u8..3, prop_oneof![100u8..=255, Just(255u8)], any::<u8>(), prop_oneof![1 => Just(0u16), 4 => any::<u16>()]).prop_map(|(start, n, stride, density, apal, coef)| BBlock { start, n, stride, density, apal, coef });
    let p = if t == 0 { 0.4 } else { 1.0 };
    (if t == 0 { 1u8..5 } else if unsplittable { 1u8..6 } else { 2u8..9 }, marks, opt(p, mblock), bases, opt(p, bblock))
        .prop_map(|(n_classes, marks, mblock, bases, bblock)| MB { n_classes, marks, mblock, bases, bblock })
        .boxed()
}
fn lb(t: u8) -> BoxedStrategy<LB> {
    let mark = (glyph(), any::<u8>(), any::<u8>(), any::<i16>());
    let cls = (any::<u8>(), prop_oneof![3 => any::<u8>(), 1 => Just(0u8), 1 => Just(0xFFu8), 1 => prop_oneof![Just(0b10u8), Just(0b100), Just(0b1010), Just(0b10100), Just(0b11000), Just(0b01101)]], any::<u8>(), any::<i16>());
    let lig = (glyph(), 1u8..=5, proptest::bool::weighted(0.2), proptest::collection::vec(cls, 0..5)).prop_map(|(glyph, comps, direct, classes)| LigSpec { glyph, comps, direct, classes });
    let marks = proptest::collection::vec(mark, if t == 0 { 1..10 } else { 0..4 });
    let ligs = proptest::collection::vec(lig, if t == 0 { 0..8 } else { 0..4 });
    let (nm, nl) = match t {
        0 => (1u16..8, 1u16..8),
        1 => (20u16..400, 30u16..300),
        _ => (20u16..600, 200u16..1000),
    };
    let mblock = (gbase(t), nm, 1u8..3, any::<bool>(), any::<u8>(), any::<u16>()).prop_map(|(start, n, stride, interleave, apal, coef)| MBlock { start, n, stride, interleave, apal, coef });
    let lblock = (gbase(t), nl, 1u8..3, 0u8..5, any::<u16>(), prop_oneof![60u8..=255, Just(255u8)], any::<u8>(), prop_oneof![1 => Just(0u16), 4 => any::<u16>()])
        .prop_map(|(start, n, stride, comps_a, mask_coef, density, apal, coef)| LBlock { start, n, stride, comps_a, mask_coef, density, apal, coef });
    let p = if t == 0 { 0.3 } else { 1.0 };
    (1u8..5, marks, opt(p, mblock), ligs, opt(p, lblock)).prop_map(|(n_classes, marks, mblock, ligs, lblock)| LB { n_classes, marks, mblock, ligs, lblock }).boxed()
}
fn cb(t: u8) -> BoxedStrategy<CB> {
    let items = proptest::collection::vec((glyph(), 0u8..4, any::<u8>(), any::<i16>()), if t == 0 { 0..14 } else { 0..4 });
    let n = if t == 0 { 1u16..10 } else { 200u16..4000 };
    let block = (gbase(t), n, 1u8..3, any::<u8>(), any::<u16>());
    (items, opt(if t == 0 { 0.3 } else { 1.0 }, block)).prop_map(|(items, block)| CB { items, block }).boxed()
}
fn sb(t: u8) -> BoxedStrategy<SB> {
    let salt = prop_oneof![2 => Just(0i16), 1 => 0i16..3, 1 => any::<i16>()];
    let items = proptest::collection::vec((glyph(), any::<u8>(), salt), if t == 0 { 0..16 } else { 0..4 });
    let n = match t {
        0 => 1u16..12,
        1 => 100u16..4000,
        _ => 1000u16..9000,
    };
    let block = (gbase(t), n, 1u8..3, any::<u8>(), 1u8..4, any::<u16>(), prop_oneof![Just(1u8), 2u8..6, Just(255u8)]);
    (items, opt(if t == 0 { 0.4 } else { 1.0 }, block)).prop_map(|(items, block)| SB { items, block }).boxed()
}
fn lspec(t: u8) -> BoxedStrategy<LSpec> {
    let w = if t == 0 { 3 } else { 2 };
    let kind = prop_oneof![
        3 => proptest::collection::vec(pb(t, 0), 1..3).prop_map(LKind::Pair),
        3 => proptest::collection::vec(pb(t, 1), 1..3).prop_map(LKind::Pair),
        2 => proptest::collection::vec(pb(t, 2), 1..3).prop_map(LKind::Pair),
        3 => proptest::collection::vec(mb(t), 1..3).prop_map(LKind::Mark),
        w => proptest::collection::vec(mb_sized(t, true), 1..3).prop_map(LKind::MarkMark),
        w + 1 => proptest::collection::vec(lb(t), 1..3).prop_map(LKind::Lig),
        w => proptest::collection::vec(cb(t), 1..3).prop_map(LKind::Curs),
        w => proptest::collection::vec(sb(t), 1..3).prop_map(LKind::Single),
    ];
    (prop_oneof![2 => Just(0u16), 1 => any::<u16>()], proptest::option::weighted(0.3, any::<u16>()), kind).prop_map(|(flags, mark_set, kind)| LSpec { flags, mark_set, kind }).boxed()
}
fn gpos_strategy(t: u8, budget: u32) -> BoxedStrategy<GposCase> {
    let regions = proptest::collection::vec(proptest::collection::vec(0u8..6, 3), 0..4);
    let dsets = proptest::collection::vec(proptest::collection::vec((any::<u8>(), prop_oneof![1i16..200, -200i16..-1, any::<i16>()]), 1..4), 0..4);
    let devs = proptest::collection::vec((0u16..200, proptest::collection::vec(prop_oneof![-2i8..2, -8i8..8, any::<i8>()], 1..13)), 0..3);
    // lookups: small cases are all small; bigger tiers mix one or two big lookups with small ones
    let lookups = match t {
        0 => proptest::collection::vec(lspec(0), 1..4).boxed(),
        _ => (proptest::collection::vec(lspec(t), 1..4), proptest::collection::vec(lspec(0), 0..2), any::<bool>())
            .prop_map(|(mut big, mut small, front)| {
                if front {
                    small.append(&mut big);
                    small
                } else {
                    big.append(&mut small);
                    big
                }
            })
            .boxed(),
    };
    (1u8..3, regions, dsets, devs, vals_strategy(), proptest::collection::vec(aspec(), 1..6), lookups, proptest::collection::vec(glyph(), 0..6), any::<u32>())
        .prop_map(move |(axes, regions, dsets, devs, vals, anchors, lookups, strangers, qsel)| GposCase { axes, regions, dsets, devs, vals, anchors, lookups, strangers, qsel, budget, tier: t })
        .boxed()
}

/// regression (fixed finding): an empty MarkToBaseBuilder lookup next to a PairPos lookup that needs splitting used to
/// panic the splitter (mark2base.rs chunks_exact(0)); i = number of seconds per first glyph beyond 60
fn regress_case(i: u64) -> GposCase {
    let none = || PartSpec { explicit: vec![], block: None };
    let block = PBlock { g1: 1, n1: 500, s1: 2, g2: 1, n2: 60 + i as u16, s2: 1, skew: 0, pal: 0, pal_n: 1, ca: 1, cb: 1, same_rows: false };
    GposCase {
        axes: 1,
        regions: vec![],
        dsets: vec![],
        devs: vec![],
        vals: vec![([None, None, Some(MSpec { v: -50, d: DSpec::None }), None], [None, None, None, None])],
        anchors: vec![ASpec { x: 0, y: 0, point: None, xd: DSpec::None, yd: DSpec::None }],
        lookups: vec![
            LSpec { flags: 0, mark_set: None, kind: LKind::Mark(vec![MB { n_classes: 1, marks: vec![], mblock: None, bases: vec![], bblock: None }]) },
            LSpec { flags: 0, mark_set: None, kind: LKind::Pair(vec![PB { explicit_first: false, pairs: vec![], blocks: vec![block], c1: none(), c2: none(), crules: vec![], cgrid: None }]) },
        ],
        strangers: vec![],
        qsel: 0,
        budget: 400_000,
        tier: 0,
    }
}

// ------------------------------------------------------------------------------------------------------------------
// pairpos-overlap: class rules whose classes overlap (several class subtables inside one PairPosBuilder)

/// rules = (mask over OV1 for the first class, mask over OV2 for the second class), in insertion order
#[derive(Clone, Debug, Serialize, Deserialize)]
struct OvCase {
    rules: Vec<(u8, u8)>,
}
const OV1: [u16; 6] = [10, 11, 12, 13, 14, 15];
const OV2: [u16; 5] = [50, 51, 52, 53, 54];

fn ov_strategy() -> impl Strategy<Value = OvCase> {
    // small masks favoured: singletons and pairs overlap with larger classes without being equal to them
    let m1 = prop_oneof![2 => (0u32..6).prop_map(|i| 1u8 << i), 2 => (0u32..6, 0u32..6).prop_map(|(i, j)| (1u8 << i) | (1u8 << j)), 1 => 1u8..64];
    let m2 = prop_oneof![2 => (0u32..5).prop_map(|i| 1u8 << i), 1 => 1u8..32];
    proptest::collection::vec((m1, m2), 2..9).prop_map(|rules| OvCase { rules })
}

/// Oracle independent of how the builder distributes rules over subtables, as long as rules stay in insertion order
/// (format 2 subtables are walked in order; the first one covering the first glyph decides): for a pair (g1, g2) let
/// R be the first inserted rule whose first class holds g1. No rule => no adjustment. g2 in R's second class => R's
/// value (any subtable before R's holds only earlier rules, none of which covers g1; within R's subtable classes are
/// disjoint or identical, so g1's class is R's first class and g2's class is R's second class). Otherwise the answer
/// depends on which later rules share R's subtable: not asserted, counted.
fn test_overlap(c: &OvCase, stats: &Stats) -> CaseResult {
    let members = |u: &[u16], m: u8| -> Vec<u16> { u.iter().enumerate().filter(|(i, _)| (m >> i) & 1 == 1).map(|(_, g)| *g).collect() };
    let mut seen = BTreeSet::new();
    let rules: Vec<(u8, u8)> = c.rules.iter().copied().filter(|r| seen.insert(*r)).collect();
    let mut b = PairPosBuilder::default();
    for (i, (m1, m2)) in rules.iter().enumerate() {
        b.insert_classes(intset(members(&OV1, *m1)), ValueRecordBuilder::new().with_x_advance((i as i16 + 1) * 10), intset(members(&OV2, *m2)), ValueRecordBuilder::new());
    }
    let mut vs = VariationStoreBuilder::new(0);
    let lk = LookupBuilder::<PairPosBuilder>::new_with_lookups(LookupFlag::empty(), None, vec![b]).build(&mut vs);
    let mut blobs = vec![];
    for st in &lk.subtables {
        match dump_table(st.as_ref()) {
            Ok(bytes) => blobs.push(bytes),
            Err(_) => {
                stats.class("overlap:dump-failed");
                return Ok(());
            }
        }
    }
    let mut subs = vec![];
    for bytes in &blobs {
        subs.push(rd(rg::PairPos::read(FontData::new(bytes)), "pair subtable of the overlap stage")?);
    }
    let (mut asserted, mut skipped) = (0u32, 0u32);
    for g1 in OV1.iter().copied().chain([9, 16]) {
        for g2 in OV2.iter().copied().chain([49, 55]) {
            let first = rules.iter().position(|(m1, _)| members(&OV1, *m1).contains(&g1));
            let want: Option<i16> = match first {
                None => Some(0),
                Some(k) if members(&OV2, rules[k].1).contains(&g2) => Some((k as i16 + 1) * 10),
                Some(_) => None,
            };
            let Some(want) = want else {
                skipped += 1;
                continue;
            };
            let mut got = 0i16;
            for sub in &subs {
                match sub {
                    rg::PairPos::Format2(t) => {
                        let cov = rd(t.coverage(), "coverage")?;
                        if cov.get(GlyphId16::new(g1)).is_none() {
                            continue;
                        }
                        let c1 = rd(t.class_def1(), "class def 1")?.get(GlyphId16::new(g1));
                        let c2 = rd(t.class_def2(), "class def 2")?.get(GlyphId16::new(g2));
                        if c1 >= t.class1_count() || c2 >= t.class2_count() {
                            continue;
                        }
                        let r1 = rd(t.class1_records().get(c1 as usize), "class1 record")?;
                        let r2 = rd(r1.class2_records().get(c2 as usize), "class2 record")?;
                        got = r2.value_record1().x_advance().unwrap_or(0);
                        break;
                    }
                    rg::PairPos::Format1(t) => {
                        let cov = rd(t.coverage(), "coverage")?;
                        if let Some(ci) = cov.get(GlyphId16::new(g1)) {
                            let ps = rd(t.pair_sets().get(ci as usize), "pair set")?;
                            let mut hit = None;
                            for r in ps.pair_value_records().iter() {
                                let r = rd(r, "pair value record")?;
                                if r.second_glyph().to_u16() == g2 {
                                    hit = Some(r.value_record1().x_advance().unwrap_or(0));
                                }
                            }
                            if let Some(v) = hit {
                                got = v;
                                break;
                            }
                        }
                    }
                }
            }
            asserted += 1;
            if got != want {
                return Err(fail(
                    "overlap|pair-mismatch",
                    format!(
                        "class rules {:?} (first-class glyphs, second-class glyphs, x advance): pair ({g1}, {g2}) — the first rule whose first class holds {g1} is {:?}, expected x advance {want}, the {} compiled subtables give {got}",
                        rules.iter().enumerate().map(|(i, (a, b))| (members(&OV1, *a), members(&OV2, *b), (i + 1) * 10)).collect::<Vec<_>>(),
                        first.map(|k| k + 1),
                        subs.len()
                    ),
                ));
            }
        }
    }
    stats.evals(asserted as u64);
    stats.class(&format!("overlap:subtables={}", subs.len().min(5)));
    stats.class_n("overlap:pairs-asserted", asserted as u64);
    stats.class_n("overlap:pairs-not-asserted", skipped as u64);
    if subs.len() >= 2 {
        let mut h = 0u64;
        for (a, b) in &rules {
            h = h.wrapping_mul(0x100000001b3).wrapping_add(((*a as u64) << 8) | *b as u64);
        }
        stats.nontrivial(h ^ 0x0c16_0000);
    }
    Ok(())
}

fn main() {
    let ctx = Ctx::from_args("C16");
    ctx.set_rule(
        "sets: proptest glyph sets (sparse / runs / dense / combs / nearly-all, extremes 0 and 65535) fed to CoverageTableBuilder (5 construction paths), ClassDefBuilder (both class-0 modes, overlapping and repeated candidates) and ClassDef::from_iter; non-trivial = both binary formats (1 and 2) occurred among the tables of the case. \
         gpos-*: rule sets for 1..4 lookups of all six non-contextual GPOS builders (MarkToLig: 1..5 components, per class an anchor list with None at leading/middle/trailing positions, classes absent, add_ligature_components_directly; MarkToMark; Cursive: entry-only/exit-only/both/neither; SinglePos: equal and differing records; PairPos: glyph pairs with first-wins duplicates, regular pair blocks incl. identical pair sets, class rules on disjoint class partitions (overlapping classes: stage pairpos-overlap, 2..8 class rules over 6 x 5 glyphs with overlapping first / second classes, forcing several class subtables inside one builder; oracle = the first inserted rule whose first class holds the first glyph decides when its second class holds the second glyph; non-trivial = two or more subtables); MarkToBase: 1..8 classes, anchor formats 1-3) with a palette of value records (1..8 fields, device and variation-index records), compiled through the public builders, LookupBuilder, Gpos, dump_table; small = explicit rules, medium = around 64 KiB, large = several x 64 KiB. \
         Non-trivial = the compiled GPOS has a lookup promoted to extension or a lookup with more subtables than the builders produced (split); distinct by hash of the case.",
    );
    ctx.assume("read-fonts parses the tables the walker navigates (coverage/classdef get, record arrays, offsets); precedence model: per PairPosBuilder glyph-pair rules first (first inserted wins), then its class subtable decides for every first glyph it covers; builders of a lookup in order; mark/base, mark/mark, mark/ligature component: first builder holding the mark whose base (mark2, component) has an anchor for the mark's class; cursive and single: the first builder that mentions the glyph; an all-zero adjustment and 'no subtable applied' are the same observable; a case whose dump_table fails (packing) is counted, not judged");
    ctx.index_stage("regress-empty-markbase", Isolation::Threads, 3, regress_case, test_gpos);
    ctx.prop_stage("sets", Isolation::Threads, ctx.n(8_000, 100_000), sets_strategy, test_sets);
    let budget: u32 = if ctx.quick() { 400_000 } else { 1_500_000 };
    ctx.prop_stage("pairpos-overlap", Isolation::Threads, ctx.n(30_000, 400_000), ov_strategy, test_overlap);
    ctx.prop_stage("gpos-small", Isolation::Threads, ctx.n(2_000, 24_000), move || gpos_strategy(0, budget), test_gpos);
    ctx.prop_stage("gpos-medium", Isolation::Threads, ctx.n(400, 2_400), move || gpos_strategy(1, budget), test_gpos);
    ctx.prop_stage("gpos-large", Isolation::Threads, ctx.n(100, 480), move || gpos_strategy(2, budget), test_gpos);
    ctx.finish();
}
